#!/usr/bin/env python3
"""/verif driver: build a property's check binary against /repo's working tree,
run its sub-properties (sharded), aggregate evidence, report.

usage: run.py <Cxx> quick|thorough
       run.py <Cxx> replay <file>
exit 0 = held on everything explored; 1 = VIOLATION line(s) printed; 2 = inconclusive
(build failure, timeout, worker death that cannot be attributed to the code under test).
"""
import array
import atexit
import hashlib
import json
import re
import os
import shutil
import subprocess
import sys
import time
from concurrent.futures import ThreadPoolExecutor

VERIF = os.path.dirname(os.path.abspath(__file__))
REPO = os.environ.get("VERIF_REPO", "/repo")
HARNESS = os.path.join(VERIF, "harness")
BUILD = os.path.join(VERIF, "build")
NCPU = os.cpu_count() or 4


def goenv():
    e = dict(os.environ)
    e.update({
        "GOFLAGS": "-mod=mod", "GOPROXY": "off", "GOSUMDB": "off", "GOTOOLCHAIN": "local",
        "CGO_ENABLED": e.get("CGO_ENABLED", "1"),
    })
    return e


def log(*a):
    print(*a, flush=True)


def gen_overlay(variant):
    """Files substituted for /repo files at build time (never written into /repo); see overlay/genoverlay.py."""
    if not variant:
        return None
    sys.path.insert(0, os.path.join(VERIF, "overlay"))
    import genoverlay  # type: ignore
    return genoverlay.generate(REPO, os.path.join(BUILD, "overlay"), variant)


def build(prop, plan, variant="", race=False, fuzz=False):
    pkg = prop.lower()
    os.makedirs(os.path.join(BUILD, "bin"), exist_ok=True)
    race = race or plan.get("race")
    # one binary per invocation: a second run of the same check at the same time (another tier, another seed) neither
    # replaces a binary that is being started nor reads this run's files
    out = os.path.join(BUILD, "bin", pkg + ("." + variant if variant else "") + (".race" if race else "") + (".fuzz" if fuzz else "") + ".%d.test" % os.getpid())
    atexit.register(lambda p=out: os.path.exists(p) and os.remove(p))
    cmd = ["go", "test", "-c", "-o", out, "-tags", "verif", "-vet=off"]
    if fuzz:
        cmd += ["-fuzz", "Fuzz"]  # coverage instrumentation for the native fuzzer
    ov = gen_overlay(variant)
    if ov:
        cmd += ["-overlay", ov]
    if race:
        cmd += ["-race"]
    cmd += ["./" + pkg + "/"]
    t0 = time.time()
    r = subprocess.run(cmd, cwd=HARNESS, env=goenv(), stdout=subprocess.PIPE, stderr=subprocess.STDOUT, text=True)
    if r.returncode != 0:
        log("BUILD-FAILED for %s (inconclusive)\n%s" % (prop, r.stdout[-6000:]))
        sys.exit(2)
    # go -mod=mod may touch /repo/go.sum; never leave that behind
    return out, time.time() - t0


def derive_seed(seed, prop, test, shard):
    h = hashlib.sha256(("%d/%s/%s/%d" % (seed, prop, test, shard)).encode()).digest()
    return 1 + (int.from_bytes(h[:8], "big") % (2 ** 62))


def run_job(job):
    t0 = time.time()
    env = goenv()
    env.update(job["env"])
    for f in (job["env"]["VERIF_OUT"], job["env"]["VERIF_LASTCASE"]):
        try:
            os.remove(f)
        except FileNotFoundError:
            pass
    pre = job.get("prefix", [])
    try:
        r = subprocess.run(pre + job["cmd"], cwd=job["cwd"], env=env, stdout=subprocess.PIPE, stderr=subprocess.STDOUT,
                           timeout=job["timeout"])
        job["rc"] = r.returncode
        job["output"] = r.stdout.decode("utf-8", "replace")
    except subprocess.TimeoutExpired as e:
        job["rc"] = "timeout"
        job["output"] = (e.stdout or b"").decode("utf-8", "replace")
    job["wall"] = time.time() - t0
    return job


def main():
    if len(sys.argv) < 3:
        log(__doc__)
        sys.exit(2)
    prop = sys.argv[1].upper()
    mode = sys.argv[2]
    pkg = prop.lower()
    plan = json.load(open(os.path.join(HARNESS, pkg, "plan.json")))
    seed = int(os.environ.get("VERIF_SEED", "1") or "1")
    t_start = time.time()
    binaries = {}
    build_s = 0.0

    def binary_for(variant, race=False, fuzz=False):
        nonlocal build_s
        key = (variant, bool(race), bool(fuzz))
        if key not in binaries:
            b, dt = build(prop, plan, variant, race, fuzz)
            binaries[key] = b
            build_s += dt
        return binaries[key]

    outdir = os.path.join(BUILD, "out", "%s.%s.%d" % (prop, mode, os.getpid()))
    shutil.rmtree(outdir, ignore_errors=True)
    os.makedirs(os.path.join(outdir, "work"), exist_ok=True)
    atexit.register(shutil.rmtree, outdir, True)
    # what an interrupted earlier run left behind (older than a day)
    for base in (os.path.join(BUILD, "out"), os.path.join(BUILD, "bin")):
        try:
            for name in os.listdir(base):
                fp = os.path.join(base, name)
                if time.time() - os.path.getmtime(fp) > 86400:
                    shutil.rmtree(fp, ignore_errors=True) if os.path.isdir(fp) else os.remove(fp)
        except OSError:
            pass
    kf_path = os.path.join(VERIF, "known_findings.json")

    if mode == "replay":
        path = os.path.abspath(sys.argv[3])
        env = goenv()
        mf = re.match(r".*-(Fuzz[A-Za-z0-9]+)-([0-9a-f]+)\.fuzzinput$", os.path.basename(path))
        if mf:
            # a failing input saved by the native fuzzer: put it where `go test` looks for it and run exactly that input
            fz, fid = mf.group(1), mf.group(2)
            wd = os.path.join(outdir, "work")
            os.makedirs(os.path.join(wd, "testdata", "fuzz", fz), exist_ok=True)
            shutil.copy(path, os.path.join(wd, "testdata", "fuzz", fz, fid))
            binary = binary_for("", False, True)
            r = subprocess.run([binary, "-test.run", "^%s$/%s" % (fz, fid), "-test.v"], cwd=wd, env=env)
            sys.exit(1 if r.returncode != 0 else 0)
        # replay files are named <tier>-<seed>-<Test>[@variant]-<shard>.json
        m = re.search(r"@([a-z0-9]+)-\d+\.json$", os.path.basename(path))
        variant = m.group(1) if m else ""
        tdef = [t for t in plan["tests"] if t.get("variant", "") == variant]
        env.update({"VERIF_REPLAY": path, "VERIF_KF": kf_path, "VERIF_VARIANT": variant})
        env.update((tdef[0].get("env") or {}) if tdef else {})
        binary = binary_for(variant, bool(tdef and tdef[0].get("race")))
        r = subprocess.run([binary, "-test.run", "^TestReplay$", "-test.v"], cwd=os.path.join(outdir, "work"), env=env)
        sys.exit(1 if r.returncode != 0 else 0)

    tier = mode
    assert tier in ("quick", "thorough"), tier
    replay_dir = os.path.join(VERIF, "replays", prop)
    os.makedirs(replay_dir, exist_ok=True)
    jobs = []
    for t in plan["tests"]:
        if tier not in t.get("tiers", ["quick", "thorough"]):
            continue
        shards = t.get("shards", {}).get(tier, 1 if tier == "quick" else 16)
        n = t.get(tier, 0)
        for s in range(shards):
            variant = t.get("variant", "")
            disp = t["name"] + ("@" + variant if variant else "")
            tag = "%s-%d" % (disp, s)
            if t.get("kind") == "fuzz":
                if s > 0:
                    continue  # one fuzzing campaign per target; it uses all cores itself
                binary = binary_for(variant, False, True)
                cmd = [binary, "-test.run", "^$", "-test.fuzz", "^%s$" % t["name"], "-test.fuzztime", "%ds" % n,
                       "-test.fuzzcachedir", os.path.join(BUILD, "fuzzcache", prop), "-test.timeout", "0"]
            else:
                binary = binary_for(variant, t.get("race"))
                cmd = [binary, "-test.run", "^%s$" % t["name"], "-test.timeout", "0", "-test.count", "1"]
            if t.get("kind", "rapid") == "rapid":
                per = max(1, n // shards)
                cmd += ["-rapid.checks=%d" % per, "-rapid.seed=%d" % derive_seed(seed, prop, t["name"], s),
                        "-rapid.nofailfile", "-rapid.shrinktime=%s" % ("20s" if tier == "quick" else "60s")]
            jobs.append({
                "test": disp, "shard": s, "cmd": cmd, "kind": t.get("kind", "rapid"), "cwd": os.path.join(outdir, "work"),
                "requested": (max(1, n // shards) if t.get("kind", "rapid") == "rapid" else None),
                "timeout": t.get("timeout", {}).get(tier, 900 if tier == "quick" else 5400),
                "prefix": (["bash", "-c", "ulimit -v %d; exec \"$@\"" % (t["ulimit_v_kb"]), "--"] if t.get("ulimit_v_kb") else []),
                "env": {
                    "VERIF_OUT": os.path.join(outdir, tag + ".json"),
                    "VERIF_LASTCASE": os.path.join(outdir, tag + ".lastcase"),
                    "VERIF_REPLAY_OUT": os.path.join(replay_dir, "%s-%d-%s.json" % (tier, seed, tag)),
                    "VERIF_KF": kf_path, "VERIF_TIER": tier, "VERIF_SEED": str(seed),
                    "VERIF_SHARD": str(s), "VERIF_NSHARDS": str(shards), "VERIF_N": str(n),
                    "VERIF_REPO": REPO, "VERIF_VARIANT": variant, **(t.get("env") or {}),
                },
            })
    par = min(NCPU, len(jobs)) or 1
    with ThreadPoolExecutor(max_workers=par) as ex:
        done = list(ex.map(run_job, jobs))

    violations = []
    inconclusive = []
    agg = {}  # test -> stats
    hashes = {}
    for j in done:
        if j.get("kind") == "fuzz":
            out = j.get("output") or ""
            m = re.findall(r"execs: (\d+) .*?new interesting: \d+ \(total: (\d+)\)", out)
            execs, corpus = (int(m[-1][0]), int(m[-1][1])) if m else (0, 0)
            a = agg.setdefault(j["test"], {"evaluations": 0, "classes": {}, "samples": [], "known": {}, "quarantined_cases": 0,
                                           "rule": "coverage-guided native fuzzing (go test -fuzz) of the byte-level entry points; evaluations = executions, distinct non-trivial = inputs that reached new coverage (corpus size)", "exhaustive": False})
            a["evaluations"] += execs
            hashes.setdefault(j["test"], set()).update(range(corpus))
            a["samples"].append({"fuzz_target": j["test"], "executions": execs, "corpus": corpus})
            mm = re.search(r"Failing input written to (testdata/fuzz/(Fuzz\w+)/([0-9a-f]+))", out)
            if mm:
                src = os.path.join(j["cwd"], mm.group(1))
                rp = os.path.join(replay_dir, "%s-%d-%s-%s.fuzzinput" % (tier, seed, mm.group(2), mm.group(3)))
                try:
                    shutil.copy(src, rp)
                except Exception:
                    pass
                i = out.find("--- FAIL")
                violations.append((j["test"], rp, out[i:i + 1500] if i >= 0 else out[-1500:]))
            elif j["rc"] != 0:
                inconclusive.append("%s: fuzzing ended with exit %s without a saved input:\n%s" % (j["test"], j["rc"], out[-1500:]))
            continue
        st = None
        try:
            st = json.load(open(j["env"]["VERIF_OUT"]))
        except Exception:
            st = None
        if st:
            for tn0, ts in st["tests"].items():
                tn = j["test"] if tn0 == j["test"].split("@")[0] else tn0  # display name carries the build variant
                a = agg.setdefault(tn, {"evaluations": 0, "classes": {}, "samples": [], "known": {}, "quarantined_cases": 0,
                                        "rule": ts.get("rule", ""), "exhaustive": True})
                a["evaluations"] += ts["evaluations"]
                a["quarantined_cases"] += ts.get("quarantined_cases", 0)
                a["exhaustive"] = a["exhaustive"] and bool(ts.get("exhaustive"))
                for k, v in (ts.get("classes") or {}).items():
                    a["classes"][k] = a["classes"].get(k, 0) + v
                for k, v in (ts.get("known") or {}).items():
                    a["known"][k] = a["known"].get(k, 0) + v
                for smp in (ts.get("samples") or []):
                    if len(a["samples"]) < 3:
                        a["samples"].append(smp)
                hp = j["env"]["VERIF_OUT"] + "." + tn0 + ".hashes"
                hs = hashes.setdefault(tn, set())
                try:
                    arr = array.array("Q")
                    with open(hp, "rb") as f:
                        arr.frombytes(f.read())
                    hs.update(arr)
                except Exception:
                    pass
                if ts.get("failed"):
                    violations.append((tn, ts.get("replay"), ts.get("fail_msg", "")))
        if j["rc"] == "timeout":
            inconclusive.append("%s shard %d: driver timeout after %ds" % (j["test"], j["shard"], j["timeout"]))
            continue
        if "WARNING: DATA RACE" in (j.get("output") or ""):
            # the race detector reports outside the property runner: keep its report as the replay artefact
            rp = os.path.join(replay_dir, "%s-%d-%s.race.log" % (tier, seed, "%s-%d" % (j["test"], j["shard"])))
            with open(rp, "w") as f:
                f.write(j["output"])
            i = j["output"].find("WARNING: DATA RACE")
            violations.append((j["test"], rp, "race detector: " + j["output"][i:i + 1500]))
            continue
        if j["rc"] != 0:
            failed_here = st and any(ts.get("failed") for ts in st["tests"].values())
            if failed_here:
                continue
            # the process died or the go test failed without a recorded failure
            out = j["output"]
            lc = j["env"]["VERIF_LASTCASE"]
            tail = out if len(out) <= 7000 else out[:3500] + "\n...[%d bytes omitted]...\n" % (len(out) - 7000) + out[-3500:]
            if st is None and os.path.exists(lc) and ("fatal error" in out or "SIGSEGV" in out or "unexpected signal" in out
                                                        or "panic:" in out or "SIGBUS" in out):
                if "out of memory" in out and not plan.get("oom_is_violation"):
                    inconclusive.append("%s shard %d: worker out of memory\n%s" % (j["test"], j["shard"], out[:1500]))
                    continue
                if ("found bad pointer in Go heap" in out or "marked free object" in out):
                    # the collector met a pointer one past an allocation: listed for some properties (a position node at the very
                    # end of an exact-size buffer, C06-end-pointer-caller-buffer); it cannot be attributed to a case
                    gck = None
                    try:
                        for kf in json.load(open(kf_path))["findings"]:
                            if kf["property"] == prop and kf["status"] == "known" and kf.get("symptom") == "process-death:gc-bad-pointer":
                                gck = kf
                    except Exception:
                        pass
                    if gck is not None:
                        a = agg.setdefault(j["test"], {"evaluations": 0, "classes": {}, "samples": [], "known": {}, "quarantined_cases": 0,
                                                       "rule": "", "exhaustive": False})
                        key = gck["region"] + "|process-death:gc-bad-pointer"
                        a["known"][key] = a["known"].get(key, 0) + 1
                        with open(os.path.join(replay_dir, "%s-%d-%s-%d.gc.log" % (tier, seed, j["test"], j["shard"])), "w") as f:
                            f.write(tail)
                        continue
                rp = j["env"]["VERIF_REPLAY_OUT"]
                try:
                    case = json.load(open(lc))
                    case["failure"] = {"region": "", "symptom": "process-death", "msg": tail}
                    json.dump(case, open(rp, "w"), indent=1)
                    violations.append((j["test"], rp, "process died: " + tail[-400:]))
                    continue
                except Exception:
                    pass
            inconclusive.append("%s shard %d: exit %s without attributable failure:\n%s" % (j["test"], j["shard"], j["rc"], tail))
            continue
        if j["requested"] and st:
            got = st["tests"].get(j["test"].split("@")[0], {}).get("evaluations", 0)
            if got < j["requested"]:
                inconclusive.append("%s shard %d: ran %d of %d requested cases" % (j["test"], j["shard"], got, j["requested"]))

    # evidence
    total_eval = sum(a["evaluations"] for a in agg.values())
    distinct = sum(len(h) for h in hashes.values())
    samples = []
    per_test = {}
    known_hits = {}
    for tn, a in sorted(agg.items()):
        for s in a["samples"][:2]:
            samples.append({"test": tn, "case": s})
        per_test[tn] = {"evaluations": a["evaluations"], "distinct_nontrivial": len(hashes.get(tn, ())),
                        "classes": dict(sorted(a["classes"].items())), "rule": a["rule"],
                        "quarantined_cases": a["quarantined_cases"], "exhaustive": a["exhaustive"]}
        for k, v in a["known"].items():
            known_hits[k] = known_hits.get(k, 0) + v
    # trim samples
    enc = json.dumps(samples)
    while len(enc) > 60000 and len(samples) > 1:
        samples.pop()
        enc = json.dumps(samples)
    kfs = []
    try:
        kfs = [f for f in json.load(open(kf_path))["findings"] if f["property"] == prop]
    except Exception:
        pass
    ev = {
        "property_id": prop, "tier": tier, "seed": seed, "level": plan.get("level", "exploration"),
        "coverage": {
            "evaluations": total_eval, "distinct_nontrivial": distinct,
            "rule": plan.get("rule", ""), "samples": samples, "per_test": per_test,
            "exhaustive": bool(agg) and all(a["exhaustive"] for a in agg.values()),
            "known_finding_hits": known_hits,
            "known_findings_listed": [f["id"] for f in kfs if f["status"] == "known"],
            "inconclusive": inconclusive,
            "build_s": round(build_s, 1), "processes": len(jobs),
        },
        "assumptions": plan.get("assumptions", []),
        "wall_s": round(time.time() - t_start, 2),
        "violations": len(violations),
    }
    evdir = os.environ.get("VERIF_EVIDENCE_DIR") or os.path.join(VERIF, "evidence")  # (override used only by tools/trymut.sh)
    os.makedirs(evdir, exist_ok=True)
    with open(os.path.join(evdir, prop + ".json"), "w") as f:
        json.dump(ev, f, indent=1)

    for f in kfs:
        if f["status"] != "known":
            continue
        hits = sum(v for k, v in known_hits.items() if k.split("|")[0] == f["region"])
        log("KNOWN-FINDING: property=%s %s: %s (hits this run: %d)" % (prop, f["id"], f["what"], hits))
    log("%s %s seed=%d: %d evaluations, %d distinct non-trivial, %d processes, %.1fs (build %.1fs)" % (
        prop, tier, seed, total_eval, distinct, len(jobs), time.time() - t_start, build_s))
    for tn, pt in per_test.items():
        log("  %-28s eval=%-8d nontrivial=%-8d quarantined=%d" % (tn, pt["evaluations"], pt["distinct_nontrivial"], pt["quarantined_cases"]))
    if violations:
        seen = set()
        for tn, rp, msg in violations:
            if rp in seen:
                continue
            seen.add(rp)
            log("VIOLATION property=%s replay=%s" % (prop, rp))
            log("  test=%s %s" % (tn, msg[:1500]))
        sys.exit(1)
    if inconclusive:
        for m in inconclusive:
            log("INCONCLUSIVE: " + m)
        sys.exit(2)
    sys.exit(0)


if __name__ == "__main__":
    main()
