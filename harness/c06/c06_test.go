package c06

import (
	"bytes"
	"context"
	"fmt"
	"os"
	"runtime"
	"strings"
	"sync/atomic"
	"syscall"
	"testing"
	"time"
	"unsafe"

	"github.com/cloudwego/dynamicgo/conv"
	"github.com/cloudwego/dynamicgo/conv/j2p"
	"github.com/cloudwego/dynamicgo/conv/j2t"
	"github.com/cloudwego/dynamicgo/conv/p2j"
	"github.com/cloudwego/dynamicgo/conv/t2j"
	dproto "github.com/cloudwego/dynamicgo/proto"
	pbinary "github.com/cloudwego/dynamicgo/proto/binary"
	pgeneric "github.com/cloudwego/dynamicgo/proto/generic"
	"github.com/cloudwego/dynamicgo/thrift"
	"github.com/cloudwego/dynamicgo/thrift/generic"
	"pgregory.net/rapid"

	"verifharness/pbt"
	"verifharness/pmodel"
	"verifharness/t2jcheck"
	"verifharness/tjson"
	tm "verifharness/tmodel"
)

func TestMain(m *testing.M) {
	go watchdog()
	pbt.Main(m, "C06")
}
func TestReplay(t *testing.T) { pbt.Replay(t) }

// ---------------------------------------------------------------------------
// watchdog: a call that does not return within the limit aborts the process (the driver reports the last case)

var (
	callStart atomic.Int64 // unix nano of the running call, 0 = idle
	callName  atomic.Value
)

const callLimit = 20 * time.Second

func watchdog() {
	for {
		time.Sleep(500 * time.Millisecond)
		if s := callStart.Load(); s != 0 && time.Since(time.Unix(0, s)) > callLimit {
			fmt.Fprintf(os.Stderr, "C06 WATCHDOG: %v did not return within %v\n", callName.Load(), callLimit)
			os.Exit(3)
		}
	}
}

// ---------------------------------------------------------------------------
// guarded input: the bytes end exactly at an inaccessible page

type guarded struct {
	region []byte
	data   []byte
}

func guard(b []byte) *guarded {
	ps := syscall.Getpagesize()
	n := (len(b)+ps-1)/ps*ps + ps
	if len(b) == 0 {
		n = 2 * ps
	}
	mem, err := syscall.Mmap(-1, 0, n, syscall.PROT_READ|syscall.PROT_WRITE, syscall.MAP_ANON|syscall.MAP_PRIVATE)
	if err != nil {
		panic(err)
	}
	if err := syscall.Mprotect(mem[n-ps:], syscall.PROT_NONE); err != nil {
		panic(err)
	}
	end := n - ps
	copy(mem[end-len(b):end], b)
	return &guarded{region: mem, data: mem[end-len(b) : end : end]}
}

func (g *guarded) free() { _ = syscall.Munmap(g.region) }

// ---------------------------------------------------------------------------

type Mut struct {
	Kind int    `json:"kind"` // 0 none, 1 truncate, 2 size field, 3 type byte, 4 byte substitution, 5 append garbage, 6 raw bytes
	Pos  int    `json:"pos"`
	Val  uint64 `json:"val"`
	Raw  []byte `json:"raw,omitempty"`
}

type Case struct {
	Fmt    string        `json:"fmt"` // thrift | proto | json
	U      *tm.Universe  `json:"u,omitempty"`
	V      *tm.Value     `json:"v,omitempty"`
	Schema pmodel.Schema `json:"schema,omitempty"`
	Msg    []byte        `json:"msg,omitempty"`
	Doc    []byte        `json:"doc,omitempty"`
	Deep   *DeepDoc      `json:"deep,omitempty"` // json: a document nested to a drawn depth against fixed recursive descriptors
	M      Mut           `json:"m"`
}

// DeepDoc describes a JSON document that opens Depth frames of one kind (the converters keep fixed-size stacks).
type DeepDoc struct {
	Unit  int  `json:"unit"` // 0 {"a":  1 {"l":[  2 {"m":{"k":  3 [  4 mixed
	Depth int  `json:"depth"`
	Close bool `json:"close"` // the frames are closed again (else the document ends at the deepest point)
}

var deepOpen = []string{`{"a":`, `{"l":[`, `{"m":{"k":`, `[`}
var deepClose = []string{`}`, `]}`, `}}`, `]`}

func (d DeepDoc) build() []byte {
	var b, tail []byte
	for i := 0; i < d.Depth; i++ {
		u := d.Unit
		if u == 4 {
			u = i % 3
		}
		b = append(b, deepOpen[u]...)
		tail = append(tail, deepClose[u]...)
	}
	if d.Close {
		b = append(b, `{"x":1}`...)
		for i := len(tail) - 1; i >= 0; i-- {
			c := tail[i]
			b = append(b, c)
		}
	}
	return b
}

const deepThriftIDL = `struct R {
	1: optional R a
	2: optional list<R> l
	3: optional map<string,R> m
	4: optional i32 x
}
service Svc { R Call(1: R req) }
`

const deepProtoIDL = `syntax = "proto3";
package pkg;
message Root {
	Root a = 1;
	repeated Root l = 2;
	map<string, Root> m = 3;
	int32 x = 4;
}
service Svc { rpc Call(Root) returns (Root); }
`

var sizeVals = []uint32{0x7fffffff, 0x80000000, 0xffffffff, 0x7ffffff0, 0x01000000, 0x00010000, 0x40000000}
var typeVals = []byte{0, 1, 2, 3, 4, 5, 6, 7, 8, 9, 10, 11, 12, 13, 14, 15, 16, 17, 0x7f, 0x80, 0xff}

type spot struct {
	off  int
	kind int // 2 size field (4 bytes big endian), 3 type byte
	cur  uint32
}

// spots lists the offsets of every size field and type byte of an encoded value.
func spots(v *tm.Value, out *[]spot) {
	switch v.K {
	case tm.STRING:
		*out = append(*out, spot{v.Start, 2, uint32(len(v.S))})
	case tm.LIST, tm.SET:
		*out = append(*out, spot{v.Start, 3, 0}, spot{v.Start + 1, 2, uint32(len(v.Elems))})
		for _, e := range v.Elems {
			spots(e, out)
		}
	case tm.MAP:
		*out = append(*out, spot{v.Start, 3, 0}, spot{v.Start + 1, 3, 0}, spot{v.Start + 2, 2, uint32(len(v.Elems))})
		for i, e := range v.Elems {
			spots(v.Keys[i], out)
			spots(e, out)
		}
	case tm.STRUCT:
		for i := range v.Fields {
			*out = append(*out, spot{v.Fields[i].HdrStart, 3, 0})
			spots(v.Fields[i].V, out)
		}
		*out = append(*out, spot{v.End - 1, 3, 0}) // STOP
	}
}

func mutateThrift(cs Case) []byte {
	enc := tm.Encode(cs.V) // fills the span table
	b := append([]byte(nil), enc...)
	var sp []spot
	spots(cs.V, &sp)
	pick := func(kind int) (spot, bool) {
		var c []spot
		for _, s := range sp {
			if s.kind == kind && s.off >= 0 && s.off < len(b) {
				c = append(c, s)
			}
		}
		if len(c) == 0 {
			return spot{}, false
		}
		return c[cs.M.Pos%len(c)], true
	}
	switch cs.M.Kind {
	case 1:
		return b[:cs.M.Pos%(len(b)+1)]
	case 2:
		if s, ok := pick(2); ok && s.off+4 <= len(b) {
			v := sizeVals[cs.M.Val%uint64(len(sizeVals))]
			switch (cs.M.Val >> 8) % 4 {
			case 1:
				v = s.cur + 1
			case 2:
				v = s.cur - 1
			}
			b[s.off], b[s.off+1], b[s.off+2], b[s.off+3] = byte(v>>24), byte(v>>16), byte(v>>8), byte(v)
		}
	case 3:
		if s, ok := pick(3); ok {
			b[s.off] = typeVals[cs.M.Val%uint64(len(typeVals))]
		}
	case 4:
		if len(b) > 0 {
			b[cs.M.Pos%len(b)] = byte(cs.M.Val)
		}
	case 5:
		b = append(b, cs.M.Raw...)
	case 6:
		return append([]byte(nil), cs.M.Raw...)
	}
	return b
}

// varints written over a tag / length / value position: 2^64-1, 2^31-1, an over-long encoding, small values and wire types,
// 2^32-1, and lengths at the edge of int64 (2^63-1, 2^63-2, 2^63-10, 2^63, 2^63+5, 2^62) where position+length wraps around
var varintRepl = [][]byte{{0xff, 0xff, 0xff, 0xff, 0xff, 0xff, 0xff, 0xff, 0xff, 0x01}, {0xff, 0xff, 0xff, 0xff, 0x07}, {0x80, 0x80, 0x80, 0x80, 0x80, 0x80, 0x80, 0x80, 0x80, 0x80, 0x01}, {0x00}, {0x07}, {0x03}, {0x04}, {0xff, 0xff, 0xff, 0xff, 0x0f},
	{0xff, 0xff, 0xff, 0xff, 0xff, 0xff, 0xff, 0xff, 0x7f}, {0xfe, 0xff, 0xff, 0xff, 0xff, 0xff, 0xff, 0xff, 0x7f}, {0xf6, 0xff, 0xff, 0xff, 0xff, 0xff, 0xff, 0xff, 0x7f},
	{0x80, 0x80, 0x80, 0x80, 0x80, 0x80, 0x80, 0x80, 0x80, 0x01}, {0x85, 0x80, 0x80, 0x80, 0x80, 0x80, 0x80, 0x80, 0x80, 0x01}, {0x80, 0x80, 0x80, 0x80, 0x80, 0x80, 0x80, 0x80, 0x40},
	{0xf5, 0xff, 0xff, 0xff, 0xff, 0xff, 0xff, 0xff, 0xff, 0x01}, {0x80, 0x80, 0x80, 0x80, 0x08}}

func mutateBytes(src []byte, m Mut) []byte {
	b := append([]byte(nil), src...)
	switch m.Kind {
	case 1:
		return b[:m.Pos%(len(b)+1)]
	case 2, 3: // a varint / tag position: overwrite with a long or odd varint
		if len(b) > 0 {
			p := m.Pos % len(b)
			repl := varintRepl[m.Val%uint64(len(varintRepl))]
			b = append(b[:p:p], append(append([]byte(nil), repl...), b[p+1:]...)...)
		}
	case 4:
		if len(b) > 0 {
			b[m.Pos%len(b)] = byte(m.Val)
		}
	case 5:
		b = append(b, m.Raw...)
	case 6:
		return append([]byte(nil), m.Raw...)
	}
	return b
}

// spareIsNotInput runs f on the input in a buffer of exactly its size and on the same bytes followed, inside the slice's
// spare capacity, by bytes that continue the message plausibly (the rest of the original message if the input is a
// truncation of it, else a well-formed tail): what lies behind len(input) is not input, so outcome and output must agree.
func spareIsNotInput(c *pbt.Ctx, target string, in, orig []byte, f func(b []byte) ([]byte, error)) {
	c.Step("%s: spare capacity behind the input", target)
	tail := []byte{0x08, 0x01, 0x0a, 0x02, 0x08, 0x01, 0x00, 0x00, 0x00, 0x02, 0x00, 0x01, 0x01, 0x00, 0x7f, 0x7f}
	if len(in) < len(orig) && bytes.Equal(in, orig[:len(in)]) {
		tail = append(append([]byte(nil), orig[len(in):]...), tail...)
	}
	exact := append(make([]byte, 0, len(in)), in...)
	exact = exact[:len(in):len(in)]
	wide := append(append(make([]byte, 0, len(in)+len(tail)), in...), tail...)[:len(in)]
	var o1, o2 []byte
	var e1, e2 error
	ok := c.Protect(target, func() {
		o1, e1 = f(exact)
		o1 = append([]byte(nil), o1...)
		o2, e2 = f(wide)
	})
	if !ok {
		return
	}
	if (e1 == nil) != (e2 == nil) || (e1 == nil && !bytes.Equal(o1, o2)) {
		c.Fail(target, "reads-spare-capacity", "%s: the result depends on the bytes behind the input (in the slice's spare capacity): exact buffer -> %d bytes, err=%v; with spare capacity -> %d bytes, err=%v", target, len(o1), e1, len(o2), e2)
	}
}

// call runs one entry point under the watchdog, the panic guard and the allocation meter.
func call(c *pbt.Ctx, target string, inLen int, f func()) {
	c.Step("%s", target)
	callName.Store(target)
	var m0, m1 runtime.MemStats
	runtime.ReadMemStats(&m0)
	callStart.Store(time.Now().UnixNano())
	ok := c.Protect(target, f)
	callStart.Store(0)
	if !ok {
		return
	}
	runtime.ReadMemStats(&m1)
	if d := m1.TotalAlloc - m0.TotalAlloc; d > uint64(inLen)*512+(4<<20) {
		c.Fail(target, "excessive-allocation", "%s allocated %d bytes for an input of %d bytes", target, d, inLen)
	}
}

// inside panics (reported as a failure of the call) when a node handed out lies outside the input it was read from.
func inside(what string, n generic.Node, data []byte) {
	if n.IsError() {
		return
	}
	raw := n.Raw()
	if len(raw) == 0 || len(data) == 0 {
		return
	}
	lo, hi := uintptr(unsafe.Pointer(&data[0])), uintptr(unsafe.Pointer(&data[0]))+uintptr(len(data))
	p := uintptr(unsafe.Pointer(&raw[0]))
	if p < lo || p+uintptr(len(raw)) > hi {
		panic(fmt.Sprintf("%s hands out a node of %d bytes that lies outside the input of %d bytes (offset %d)", what, len(raw), len(data), int64(p)-int64(lo)))
	}
}

func pinside(what string, n pgeneric.Node, data []byte) {
	if n.IsError() {
		return
	}
	raw := n.Raw()
	if len(raw) == 0 || len(data) == 0 {
		return
	}
	lo, hi := uintptr(unsafe.Pointer(&data[0])), uintptr(unsafe.Pointer(&data[0]))+uintptr(len(data))
	p := uintptr(unsafe.Pointer(&raw[0]))
	if p < lo || p+uintptr(len(raw)) > hi {
		panic(fmt.Sprintf("proto %s hands out a node of %d bytes that lies outside the input of %d bytes (offset %d)", what, len(raw), len(data), int64(p)-int64(lo)))
	}
}

// thriftSub addresses below a container with the path kind its type takes, through GetByPath and through the
// single-step accessors (which share little code with it); whatever comes back must lie inside the input.
func thriftSub(v generic.Value, ty *tm.Type, data []byte) {
	switch ty.K {
	case tm.LIST, tm.SET:
		for _, i := range []int{0, 1, 3, 1 << 30} {
			inside("GetByPath(index)", v.GetByPath(generic.NewPathIndex(i)).Node, data)
			inside("Value.Index", v.Index(i).Node, data)
			inside("Node.Index", v.Node.Index(i), data)
		}
		if n, err := v.Len(); err == nil && n > 0 && n < 1<<20 {
			inside("Value.Index(last)", v.Index(n-1).Node, data)
			inside("Value.Index(middle)", v.Index(n/2).Node, data)
		}
	case tm.MAP:
		switch {
		case ty.Key.K == tm.STRING:
			inside("GetByPath(key)", v.GetByPath(generic.NewPathStrKey("a")).Node, data)
			inside("Value.GetByStr", v.GetByStr("a").Node, data)
			inside("Value.GetByStr", v.GetByStr("").Node, data)
		case ty.Key.K.IsInt():
			inside("GetByPath(key)", v.GetByPath(generic.NewPathIntKey(1)).Node, data)
			inside("Value.GetByInt", v.GetByInt(1).Node, data)
			inside("Value.GetByInt", v.GetByInt(0).Node, data)
		default:
			inside("GetByPath(key)", v.GetByPath(generic.NewPathBinKey([]byte{1})).Node, data)
		}
	}
}

func checkThrift(c *pbt.Ctx, cs Case) {
	comp, err := tm.CompileUniverse(cs.U, thrift.Options{})
	if err != nil {
		c.Failf("harness-idl", "IDL rejected: %v", err)
	}
	in := mutateThrift(cs)
	g := guard(in)
	defer g.free()
	data := g.data
	ctx := context.Background()
	rootT := thrift.Type(cs.U.Root.K)
	call(c, "thrift.SkipGo", len(in), func() {
		p := thrift.BinaryProtocol{Buf: data}
		_ = p.SkipGo(rootT, thrift.MaxSkipDepth)
		if p.Read > len(data) {
			panic(fmt.Sprintf("read cursor %d beyond the input of %d bytes", p.Read, len(data)))
		}
	})
	call(c, "thrift.SkipNative", len(in), func() {
		p := thrift.BinaryProtocol{Buf: data}
		_ = p.SkipNative(rootT, thrift.MaxSkipDepth) // (BinaryProtocol.Skip never takes the native path, whatever its argument says)
		if p.Read > len(data) {
			panic(fmt.Sprintf("read cursor %d beyond the input of %d bytes", p.Read, len(data)))
		}
	})
	for _, native := range []bool{false, true} {
		native := native
		call(c, fmt.Sprintf("t2j.Do(nativeSkip=%v)", native), len(in), func() {
			cv := t2j.NewBinaryConv(conv.Options{UseNativeSkip: native})
			_, _ = cv.Do(ctx, comp.Root, data)
		})
	}
	call(c, "thrift.ReadAnyWithDesc", len(in), func() {
		p := thrift.BinaryProtocol{Buf: data}
		_, _ = p.ReadAnyWithDesc(comp.Root, false, true, false, true)
	})
	call(c, "thrift/generic.Interface", len(in), func() {
		v := generic.NewValue(comp.Root, data)
		_, _ = v.Interface(&generic.Options{})
	})
	call(c, "thrift/generic.GetByPath", len(in), func() {
		v := generic.NewValue(comp.Root, data)
		if cs.U.Root.K == tm.STRUCT {
			for _, fd := range cs.U.Struct(cs.U.Root.Ref).Fields {
				sub := v.GetByPath(generic.NewPathFieldId(thrift.FieldID(fd.ID)))
				if !sub.IsError() {
					_ = sub.Raw()
					inside("GetByPath(field)", sub.Node, data)
					inside("Value.Field", v.Field(thrift.FieldID(fd.ID)).Node, data)
					thriftSub(sub, fd.T, data)
				}
			}
		} else {
			thriftSub(v, cs.U.Root, data)
		}
	})
	if cs.U.Root.K == tm.STRUCT {
		call(c, "thrift/generic.GetByPath(name)", len(in), func() {
			v := generic.NewValue(comp.Root, data)
			var ps []generic.PathNode
			for _, fd := range cs.U.Struct(cs.U.Root.Ref).Fields {
				sub := v.GetByPath(generic.NewPathFieldName(fd.Name))
				if !sub.IsError() {
					_ = sub.Raw()
				}
				_ = v.FieldByName(fd.Name)
				ps = append(ps, generic.PathNode{Path: generic.NewPathFieldName(fd.Name)})
			}
			_ = v.GetMany(ps, &generic.Options{})
		})
	}
	if cs.U.Root.K == tm.STRUCT || cs.U.Root.K.IsContainer() {
		call(c, "thrift/generic.Load+Marshal", len(in), func() {
			tree := generic.PathNode{Node: generic.NewNode(rootT, data)}
			if err := tree.Load(true, &generic.Options{}); err == nil {
				_, _ = tree.Marshal(&generic.Options{})
			}
		})
		for _, o := range []generic.Options{{StoreChildrenByHash: true}, {StoreChildrenById: true}} {
			o := o
			call(c, fmt.Sprintf("thrift/generic.Load(byHash=%v,byId=%v)", o.StoreChildrenByHash, o.StoreChildrenById), len(in), func() {
				tree := generic.PathNode{Node: generic.NewNode(rootT, data)}
				if err := tree.Load(true, &o); err == nil {
					_, _ = tree.Marshal(&o)
				}
				// lazily, one level at a time
				lazy := generic.PathNode{Node: generic.NewNode(rootT, data)}
				if err := lazy.Load(false, &o); err == nil {
					for i := range lazy.Next {
						if ch := &lazy.Next[i]; !ch.IsEmpty() {
							_ = ch.Load(false, &o)
						}
					}
				}
			})
		}
		call(c, "thrift/generic.MarshalTo", len(in), func() {
			v := generic.NewValue(comp.Root, data)
			_, _ = v.MarshalTo(comp.Root, &generic.Options{})
		})
	}
	call(c, "thrift.UnwrapBinaryMessage", len(in), func() {
		_, _, _, _, _, _ = thrift.UnwrapBinaryMessage(data)
	})
	orig := tm.Encode(cs.V)
	spareIsNotInput(c, "t2j.Do", in, orig, func(b []byte) ([]byte, error) {
		cv := t2j.NewBinaryConv(conv.Options{})
		return cv.Do(ctx, comp.Root, b)
	})
	if comp.Root.Type() == thrift.STRUCT {
		spareIsNotInput(c, "thrift/generic.MarshalTo", in, orig, func(b []byte) ([]byte, error) {
			return generic.NewValue(comp.Root, b).MarshalTo(comp.Root, &generic.Options{})
		})
	}
	c.NonTrivial()
	c.Class(fmt.Sprintf("thrift:mut=%d", cs.M.Kind))
}

func checkProto(c *pbt.Ctx, cs Case) {
	comp, err := pmodel.Compile(cs.Schema.Render(), cs.Schema.Main)
	if err != nil || comp.SvcErr != nil {
		c.Failf("harness-schema", "schema rejected: %v %v", err, comp.SvcErr)
	}
	desc := comp.Svc.LookupMethodByName("Call").Input()
	in := mutateBytes(cs.Msg, cs.M)
	g := guard(in)
	defer g.free()
	data := g.data
	ctx := context.Background()
	call(c, "p2j.Do", len(in), func() {
		cv := p2j.NewBinaryConv(conv.Options{})
		_, _ = cv.Do(ctx, desc, data)
	})
	call(c, "proto/binary.ReadAnyWithDesc", len(in), func() {
		p := pbinary.NewBinaryProtol(data)
		_, _ = p.ReadAnyWithDesc(desc, false, true, false, true)
	})
	call(c, "proto/generic.Interface", len(in), func() {
		v := pgeneric.NewRootValue(desc, data)
		_, _ = v.Interface(&pgeneric.Options{})
	})
	call(c, "proto/generic.GetByPath", len(in), func() {
		v := pgeneric.NewRootValue(desc, data)
		md := comp.Msg("pkg.Root")
		for i := 0; i < md.Fields().Len(); i++ {
			fd := md.Fields().Get(i)
			sub := v.GetByPath(pgeneric.NewPathFieldId(dproto.FieldNumber(fd.Number())))
			if !sub.IsError() {
				pinside("GetByPath(field)", sub.Node, data)
				pinside("Value.Field", v.Field(dproto.FieldNumber(fd.Number())).Node, data)
				switch {
				case fd.IsMap() && fd.MapKey().Kind().String() == "string":
					pinside("GetByPath(key)", sub.GetByPath(pgeneric.NewPathStrKey("a")).Node, data)
					pinside("Value.GetByStr", sub.GetByStr("a").Node, data)
					pinside("Value.GetByStr", sub.GetByStr("").Node, data)
				case fd.IsMap():
					pinside("GetByPath(key)", sub.GetByPath(pgeneric.NewPathIntKey(1)).Node, data)
					pinside("Value.GetByInt", sub.GetByInt(1).Node, data)
					pinside("Value.GetByInt", sub.GetByInt(0).Node, data)
				case fd.IsList():
					for _, i := range []int{0, 1, 3, 1 << 30} {
						pinside("GetByPath(index)", sub.GetByPath(pgeneric.NewPathIndex(i)).Node, data)
						pinside("Value.Index", sub.Index(i).Node, data)
					}
					if n, err := sub.Len(); err == nil && n > 0 && n < 1<<20 {
						pinside("Value.Index(last)", sub.Index(n-1).Node, data)
					}
				}
			}
		}
	})
	call(c, "proto/generic.GetByPath(name)", len(in), func() {
		v := pgeneric.NewRootValue(desc, data)
		md := comp.Msg("pkg.Root")
		var ps []pgeneric.PathNode
		for i := 0; i < md.Fields().Len(); i++ {
			fd := md.Fields().Get(i)
			sub := v.GetByPath(pgeneric.NewPathFieldName(string(fd.Name())))
			if !sub.IsError() {
				_ = sub.Raw()
			}
			ps = append(ps, pgeneric.PathNode{Path: pgeneric.NewPathFieldId(dproto.FieldNumber(fd.Number()))})
		}
		_ = v.GetMany(ps, &pgeneric.Options{})
	})
	call(c, "proto/generic.Load(lazy)", len(in), func() {
		v := pgeneric.NewRootValue(desc, data)
		lazy := pgeneric.PathNode{Node: v.Node}
		if err := lazy.Load(false, &pgeneric.Options{}, desc); err == nil {
			for i := range lazy.Next {
				if ch := &lazy.Next[i]; !ch.Node.IsError() && ch.Node.Type() != 0 {
					if fd := (*desc).Message().ByNumber(dproto.FieldNumber(ch.Path.Id())); fd != nil {
						_ = ch.Load(false, &pgeneric.Options{}, fd.Type())
					}
				}
			}
		}
	})
	call(c, "proto/generic.Load+Marshal", len(in), func() {
		v := pgeneric.NewRootValue(desc, data)
		tree := pgeneric.PathNode{Node: v.Node}
		if err := tree.Load(true, &pgeneric.Options{}, desc); err == nil {
			_, _ = tree.Marshal(&pgeneric.Options{})
		}
	})
	call(c, "proto/generic.MarshalTo", len(in), func() {
		v := pgeneric.NewRootValue(desc, data)
		_, _ = v.MarshalTo(desc, &pgeneric.Options{})
	})
	spareIsNotInput(c, "p2j.Do", in, cs.Msg, func(b []byte) ([]byte, error) {
		cv := p2j.NewBinaryConv(conv.Options{})
		return cv.Do(ctx, desc, b)
	})
	spareIsNotInput(c, "proto/generic.MarshalTo", in, cs.Msg, func(b []byte) ([]byte, error) {
		return pgeneric.NewRootValue(desc, b).MarshalTo(desc, &pgeneric.Options{})
	})
	c.NonTrivial()
	c.Class(fmt.Sprintf("proto:mut=%d", cs.M.Kind))
}

func checkJSON(c *pbt.Ctx, cs Case) {
	if cs.Deep != nil {
		checkDeepJSON(c, cs)
		return
	}
	comp, err := tm.CompileUniverse(cs.U, thrift.Options{})
	if err != nil {
		c.Failf("harness-idl", "IDL rejected: %v", err)
	}
	pcomp, err := pmodel.Compile(cs.Schema.Render(), cs.Schema.Main)
	if err != nil || pcomp.SvcErr != nil {
		c.Failf("harness-schema", "schema rejected: %v %v", err, pcomp.SvcErr)
	}
	in := mutateBytes(cs.Doc, cs.M)
	g := guard(in)
	defer g.free()
	data := g.data
	ctx := context.Background()
	// The native JSON scanner reads a few bytes past the end of the document (known finding C06-j2t-overread:
	// literals and numbers at the very end are loaded in 4/8/16-byte units); with the document against the guard
	// page every such case kills the process, so j2t gets the document in an ordinary buffer with 64 spare bytes
	// and the over-read itself is not searched any further.
	heap := append(make([]byte, 0, len(in)+64), in...)
	c.Class("excluded:j2t-guard-page")
	for _, o := range []conv.Options{{}, {EnableValueMapping: true, String2Int64: true, DisallowUnknownField: true}} {
		o := o
		call(c, "j2t.Do", len(in), func() {
			cv := j2t.NewBinaryConv(o)
			_, _ = cv.Do(ctx, comp.Root, heap)
		})
	}
	// j2p parses with sonic's ast package, whose native scanner over-reads in the same way (known finding C06-j2p-overread)
	call(c, "j2p.Do", len(in), func() {
		cv := j2p.NewBinaryConv(conv.Options{})
		_, _ = cv.Do(ctx, pcomp.Svc.LookupMethodByName("Call").Input(), heap)
	})
	_ = data
	c.NonTrivial()
	c.Class(fmt.Sprintf("json:mut=%d", cs.M.Kind))
}

func checkDeepJSON(c *pbt.Ctx, cs Case) {
	tcomp, err := tm.Compile(deepThriftIDL, thrift.Options{})
	if err != nil {
		c.Failf("harness-idl", "IDL rejected: %v", err)
	}
	pcomp, err := pmodel.Compile(map[string]string{"main.proto": deepProtoIDL}, "main.proto")
	if err != nil || pcomp.SvcErr != nil {
		c.Failf("harness-schema", "schema rejected: %v %v", err, pcomp.SvcErr)
	}
	in := cs.Deep.build()
	heap := append(make([]byte, 0, len(in)+64), in...)
	ctx := context.Background()
	for _, o := range []conv.Options{{}, {DisallowUnknownField: true}} {
		o := o
		call(c, "j2t.Do", len(in), func() {
			cv := j2t.NewBinaryConv(o)
			_, _ = cv.Do(ctx, tcomp.Root, heap)
		})
	}
	call(c, "j2p.Do", len(in), func() {
		cv := j2p.NewBinaryConv(conv.Options{})
		_, _ = cv.Do(ctx, pcomp.Svc.LookupMethodByName("Call").Input(), heap)
	})
	c.NonTrivial()
	c.Class(fmt.Sprintf("json:deep:unit=%d,close=%v", cs.Deep.Unit, cs.Deep.Close))
	if cs.Deep.Depth >= 250 {
		c.Class("json:deep>=250")
	}
}

func check(c *pbt.Ctx, cs Case) {
	switch cs.Fmt {
	case "thrift":
		checkThrift(c, cs)
	case "proto":
		checkProto(c, cs)
	default:
		checkJSON(c, cs)
	}
}

var jsonAlphabet = []string{"{", "}", "[", "]", ":", ",", "\"", "\\", "\\u", "\\ud83d", "0", "1", "-", ".", "e", "E", "+", "t", "true", "false", "null", "nul", " ", "\n", "a", "\x00", "\xff", "\x80", "1e999", "\"a\":"}

func genMut(t *rapid.T) Mut {
	m := Mut{Kind: []int{0, 1, 1, 2, 2, 2, 3, 3, 4, 4, 5, 6}[rapid.IntRange(0, 11).Draw(t, "mutKind")], Pos: rapid.IntRange(0, 1<<20).Draw(t, "mutPos"), Val: rapid.Uint64().Draw(t, "mutVal")}
	if m.Kind == 5 || m.Kind == 6 {
		n := rapid.IntRange(0, 40).Draw(t, "rawLen")
		for i := 0; i < n; i++ {
			m.Raw = append(m.Raw, byte(rapid.IntRange(0, 255).Draw(t, "rawByte")))
		}
	}
	return m
}

var Prop = pbt.Register(pbt.Prop[Case]{
	Name: "TestArbitraryBytes",
	Rule: "well-formed Thrift messages, Protobuf messages and JSON documents of generated descriptors, then: left intact, truncated at any point, one size/length/count field replaced by 2^31-1 / 2^31 / 2^32-1 / +-1 / large values (Thrift: exact positions from the reference encoder's span table; Protobuf: over-long and maximal varints and lengths around 2^63 where position+length wraps, group/unknown wire types at any position), one type byte replaced, one arbitrary byte replaced, garbage appended, or replaced entirely by random bytes / JSON token soup, or (JSON) a document that opens 1..70000 object/array/map frames against recursive descriptors (depths around 64, 128, 256, 512, 1024, 65536), closed or cut at the deepest point; the bytes are placed flush against an inaccessible page and given to every read-side entry point (skip Go/native, t2j, ReadAnyWithDesc, generic Interface/GetByPath/Load+Marshal/MarshalTo, message envelope parser; p2j, proto ReadAnyWithDesc, proto generic reads; j2t, j2p); each call must return (watchdog), must not panic or fault, must leave its read cursor inside the input and must not allocate more than 512 bytes per input byte + 4 MiB; t2j, p2j and both MarshalTo must give the same outcome whether the slice ends at its capacity or is followed, inside spare capacity, by the rest of the original message; every case is non-trivial",
	Gen: func(t *rapid.T) Case {
		cs := Case{Fmt: []string{"thrift", "thrift", "proto", "json"}[rapid.IntRange(0, 3).Draw(t, "format")]}
		switch cs.Fmt {
		case "thrift":
			cfg := tm.GenCfg{MaxDepth: 3, Reqs: true, Recursive: true, WireOrder: true, RootStruct: rapid.IntRange(0, 3).Draw(t, "rootStruct") != 0}
			cs.U = tm.GenUniverse(t, cfg)
			cs.V = tm.GenValue(t, cs.U, cs.U.Root, cfg)
		case "proto":
			cs.Schema = pmodel.GenSchema(t, pmodel.GenOpts{KeyKinds: pmodel.SupportedKeyKinds})
			comp, err := pmodel.Compile(cs.Schema.Render(), cs.Schema.Main)
			if err != nil {
				t.Fatalf("generator produced an invalid schema: %v", err)
			}
			cs.Msg = pmodel.Marshal(pmodel.GenMessage(t, comp.Msg("pkg.Root"), pmodel.MsgOpts{MaxDepth: 2, MaxElems: 3}))
		default:
			if rapid.IntRange(0, 4).Draw(t, "deepDoc") == 0 {
				d := rapid.IntRange(1, 70).Draw(t, "depth")
				if rapid.Bool().Draw(t, "depthBoundary") {
					d = []int{62, 63, 64, 65, 126, 127, 128, 129, 254, 255, 256, 257, 258, 511, 512, 513, 1023, 1024, 1025, 4096, 65535, 65536, 70000}[rapid.IntRange(0, 22).Draw(t, "depthB")]
				}
				cs.Deep = &DeepDoc{Unit: rapid.IntRange(0, 4).Draw(t, "deepUnit"), Depth: d, Close: rapid.IntRange(0, 3).Draw(t, "deepClose") != 0}
				return cs
			}
			cfg := tm.GenCfg{MaxDepth: 2, KeyKinds: tjson.SupportedKeys, Reqs: true, ValidUTF8: true, FiniteDoubles: true, RootStruct: true}
			cs.U = tm.GenUniverse(t, cfg)
			tjson.AddJSConvTo(t, cs.U, false)
			v := tm.GenValue(t, cs.U, cs.U.Root, cfg)
			cs.Doc = tjson.Write(t, v, cs.U.Root, cs.U, tjson.WOpts{Unknown: true, Nulls: true}, rapid.Bool().Draw(t, "variants")).Text
			cs.Schema = pmodel.GenSchema(t, pmodel.GenOpts{KeyKinds: pmodel.SupportedKeyKinds, MaxMsgs: 1, MaxFields: 4})
		}
		cs.M = genMut(t)
		if cs.Fmt == "json" && cs.M.Kind == 6 {
			cs.M.Raw = nil
			for i, n := 0, rapid.IntRange(0, 30).Draw(t, "soupLen"); i < n; i++ {
				cs.M.Raw = append(cs.M.Raw, jsonAlphabet[rapid.IntRange(0, len(jsonAlphabet)-1).Draw(t, "soup")]...)
			}
		}
		return cs
	},
	Check: check,
})

func TestArbitraryBytes(t *testing.T) { pbt.Run(t, Prop) }

var _ = strings.Contains

// t2j into caller buffers of every capacity: same text, no panic.
var T2JSweep = pbt.Register(t2jcheck.SweepProp("TestT2JCapacitySweep"))

func TestT2JCapacitySweep(t *testing.T) { pbt.Run(t, T2JSweep) }
