package c06

import (
	"context"
	"testing"

	"github.com/cloudwego/dynamicgo/conv"
	"github.com/cloudwego/dynamicgo/conv/j2p"
	"github.com/cloudwego/dynamicgo/conv/j2t"
	"github.com/cloudwego/dynamicgo/conv/p2j"
	"github.com/cloudwego/dynamicgo/conv/t2j"
	dproto "github.com/cloudwego/dynamicgo/proto"
	pbinary "github.com/cloudwego/dynamicgo/proto/binary"
	pgeneric "github.com/cloudwego/dynamicgo/proto/generic"
	"github.com/cloudwego/dynamicgo/thrift"
	"github.com/cloudwego/dynamicgo/thrift/generic"
	"google.golang.org/protobuf/encoding/protowire"

	"verifharness/pmodel"
	tm "verifharness/tmodel"
)

// Coverage-guided targets for the thorough tier (go test -fuzz). The descriptors are fixed and rich; the fuzzer owns the bytes.
// A panic, a fault (the input sits against a guard page) or a hang is a failure; the failing input is the replay file.

const fuzzIDL = `struct Leaf { 1: bool b, 2: byte y, 3: i16 h, 4: i32 i, 5: i64 l, 6: double d, 7: string s, 8: binary n }
struct Mid { 1: Leaf leaf, 2: list<Leaf> leaves, 3: map<string,Leaf> byName, 4: map<i32,string> names, 5: set<i64> ids, 6: optional Mid next, 7: list<list<i32>> grid, 8: map<string,list<string>> tags }
struct Top { 1: required Mid mid, 2: list<Mid> mids, 3: string note, 4: map<i64,Mid> byId, 300: i32 far, 32767: bool last }
service Svc { Top Call(1: Top req) }`

func fuzzThriftDesc(tb testing.TB) *thrift.TypeDescriptor {
	c, err := tm.Compile(fuzzIDL, thrift.Options{})
	if err != nil {
		tb.Fatal(err)
	}
	return c.Root
}

func leaf(i int64) *tm.Value {
	return &tm.Value{K: tm.STRUCT, Fields: []tm.FieldVal{{ID: 1, V: &tm.Value{K: tm.BOOL, B: true}}, {ID: 3, V: &tm.Value{K: tm.I16, I: i}}, {ID: 5, V: &tm.Value{K: tm.I64, I: i << 20}},
		{ID: 6, V: &tm.Value{K: tm.DOUBLE, F: 0x3ff8000000000000}}, {ID: 7, V: &tm.Value{K: tm.STRING, S: []byte("leaf")}}, {ID: 8, V: &tm.Value{K: tm.STRING, S: []byte{0, 1, 2}}}}}
}

func mid(depth int) *tm.Value {
	v := &tm.Value{K: tm.STRUCT, Fields: []tm.FieldVal{{ID: 1, V: leaf(1)},
		{ID: 2, V: &tm.Value{K: tm.LIST, ET: tm.STRUCT, Elems: []*tm.Value{leaf(2), leaf(3)}}},
		{ID: 3, V: &tm.Value{K: tm.MAP, KT: tm.STRING, ET: tm.STRUCT, Keys: []*tm.Value{{K: tm.STRING, S: []byte("a")}}, Elems: []*tm.Value{leaf(4)}}},
		{ID: 4, V: &tm.Value{K: tm.MAP, KT: tm.I32, ET: tm.STRING, Keys: []*tm.Value{{K: tm.I32, I: 7}}, Elems: []*tm.Value{{K: tm.STRING, S: []byte("seven")}}}},
		{ID: 5, V: &tm.Value{K: tm.SET, ET: tm.I64, Elems: []*tm.Value{{K: tm.I64, I: 1}, {K: tm.I64, I: 2}}}},
		{ID: 7, V: &tm.Value{K: tm.LIST, ET: tm.LIST, Elems: []*tm.Value{{K: tm.LIST, ET: tm.I32, Elems: []*tm.Value{{K: tm.I32, I: 1}}}}}}}}
	if depth > 0 {
		v.Fields = append(v.Fields, tm.FieldVal{ID: 6, V: mid(depth - 1)})
	}
	return v
}

func FuzzThriftBytes(f *testing.F) {
	desc := fuzzThriftDesc(f)
	top := &tm.Value{K: tm.STRUCT, Fields: []tm.FieldVal{{ID: 1, V: mid(1)}, {ID: 2, V: &tm.Value{K: tm.LIST, ET: tm.STRUCT, Elems: []*tm.Value{mid(0)}}},
		{ID: 3, V: &tm.Value{K: tm.STRING, S: []byte("note")}}, {ID: 300, V: &tm.Value{K: tm.I32, I: 5}}, {ID: 32767, V: &tm.Value{K: tm.BOOL, B: true}}}}
	f.Add(tm.Encode(top))
	f.Add(tm.Encode(&tm.Value{K: tm.STRUCT, Fields: []tm.FieldVal{{ID: 1, V: mid(0)}}}))
	f.Add([]byte{0})
	f.Add([]byte{0x0c, 0x00, 0x01, 0x0f, 0x00, 0x02, 0x0c, 0x7f, 0xff, 0xff, 0xff})
	ctx := context.Background()
	f.Fuzz(func(t *testing.T, in []byte) {
		if len(in) > 1<<16 {
			return
		}
		g := guard(in)
		defer g.free()
		data := g.data
		for _, native := range []bool{false, true} {
			p := thrift.BinaryProtocol{Buf: data}
			if native {
				_ = p.SkipNative(thrift.STRUCT, thrift.MaxSkipDepth)
			} else {
				_ = p.SkipGo(thrift.STRUCT, thrift.MaxSkipDepth)
			}
			if p.Read > len(data) {
				t.Fatalf("skip cursor %d beyond the input of %d bytes", p.Read, len(data))
			}
			cv := t2j.NewBinaryConv(conv.Options{UseNativeSkip: native})
			_, _ = cv.Do(ctx, desc, data)
		}
		p := thrift.BinaryProtocol{Buf: data}
		_, _ = p.ReadAnyWithDesc(desc, false, true, false, true)
		v := generic.NewValue(desc, data)
		_, _ = v.Interface(&generic.Options{})
		_ = v.GetByPath(generic.NewPathFieldId(1), generic.NewPathFieldId(2), generic.NewPathIndex(1), generic.NewPathFieldId(7))
		_ = v.GetByPath(generic.NewPathFieldId(1), generic.NewPathFieldId(3), generic.NewPathStrKey("a"))
		_ = v.GetByPath(generic.NewPathFieldId(4), generic.NewPathIntKey(7), generic.NewPathFieldId(6))
		tree := generic.PathNode{Node: generic.NewNode(thrift.STRUCT, data)}
		if err := tree.Load(true, &generic.Options{}); err == nil {
			_, _ = tree.Marshal(&generic.Options{})
		}
		_, _ = v.MarshalTo(desc, &generic.Options{})
		_, _, _, _, _, _ = thrift.UnwrapBinaryMessage(data)
	})
}

var fuzzSchema = pmodel.Schema{Main: "main.proto", Files: []pmodel.File{{Name: "main.proto", Package: "pkg",
	Enums: []pmodel.Enum{{Name: "E0", Values: []pmodel.EnumVal{{Name: "Z", Num: 0}, {Name: "A", Num: 1}}}},
	Msgs: []pmodel.Msg{{Name: "Root", Fields: []pmodel.Field{
		{Name: "i", Num: 1, Kind: "int32"}, {Name: "l", Num: 2, Kind: "sint64"}, {Name: "u", Num: 3, Kind: "uint64"}, {Name: "f", Num: 4, Kind: "fixed32"}, {Name: "g", Num: 5, Kind: "sfixed64"},
		{Name: "d", Num: 6, Kind: "double"}, {Name: "fl", Num: 7, Kind: "float"}, {Name: "b", Num: 8, Kind: "bool"}, {Name: "s", Num: 9, Kind: "string"}, {Name: "y", Num: 10, Kind: "bytes"},
		{Name: "e", Num: 11, Kind: "enum", Ref: "E0"}, {Name: "next", Num: 12, Kind: "message", Ref: "Root"}, {Name: "kids", Num: 13, Kind: "message", Ref: "Root", Label: "repeated"},
		{Name: "ints", Num: 14, Kind: "int32", Label: "repeated"}, {Name: "strs", Num: 15, Kind: "string", Label: "repeated"}, {Name: "dbls", Num: 16, Kind: "double", Label: "repeated"},
		{Name: "m", Num: 17, Kind: "message", Ref: "Root", Label: "map", KeyKind: "string"}, {Name: "mi", Num: 18, Kind: "string", Label: "map", KeyKind: "int64"},
		{Name: "far", Num: 70000, Kind: "int32"}}}},
	Svcs: []pmodel.Svc{{Name: "Svc", Methods: []pmodel.Method{{Name: "Call", In: "Root", Out: "Root"}}}}}}}

func FuzzProtoBytes(f *testing.F) {
	comp, err := pmodel.Compile(fuzzSchema.Render(), fuzzSchema.Main)
	if err != nil || comp.SvcErr != nil {
		f.Fatal(err, comp.SvcErr)
	}
	desc := comp.Svc.LookupMethodByName("Call").Input()
	var inner []byte
	inner = protowire.AppendTag(inner, 1, protowire.VarintType)
	inner = protowire.AppendVarint(inner, 7)
	inner = protowire.AppendTag(inner, 9, protowire.BytesType)
	inner = protowire.AppendString(inner, "in")
	var seed []byte
	seed = protowire.AppendTag(seed, 2, protowire.VarintType)
	seed = protowire.AppendVarint(seed, protowire.EncodeZigZag(-5))
	seed = protowire.AppendTag(seed, 4, protowire.Fixed32Type)
	seed = protowire.AppendFixed32(seed, 9)
	seed = protowire.AppendTag(seed, 6, protowire.Fixed64Type)
	seed = protowire.AppendFixed64(seed, 0x3ff8000000000000)
	seed = protowire.AppendTag(seed, 12, protowire.BytesType)
	seed = protowire.AppendBytes(seed, inner)
	seed = protowire.AppendTag(seed, 13, protowire.BytesType)
	seed = protowire.AppendBytes(seed, inner)
	seed = protowire.AppendTag(seed, 14, protowire.BytesType)
	seed = protowire.AppendBytes(seed, []byte{1, 2, 0xac, 0x02})
	seed = protowire.AppendTag(seed, 15, protowire.BytesType)
	seed = protowire.AppendString(seed, "x")
	var entry []byte
	entry = protowire.AppendTag(entry, 1, protowire.BytesType)
	entry = protowire.AppendString(entry, "k")
	entry = protowire.AppendTag(entry, 2, protowire.BytesType)
	entry = protowire.AppendBytes(entry, inner)
	seed = protowire.AppendTag(seed, 17, protowire.BytesType)
	seed = protowire.AppendBytes(seed, entry)
	seed = protowire.AppendTag(seed, 70000, protowire.VarintType)
	seed = protowire.AppendVarint(seed, 1)
	f.Add(seed)
	f.Add(inner)
	f.Add([]byte{0x08})
	f.Add([]byte{0x62, 0xff, 0xff, 0xff, 0xff, 0x0f})
	ctx := context.Background()
	f.Fuzz(func(t *testing.T, in []byte) {
		if len(in) > 1<<16 {
			return
		}
		g := guard(in)
		defer g.free()
		data := g.data
		cv := p2j.NewBinaryConv(conv.Options{})
		_, _ = cv.Do(ctx, desc, data)
		p := pbinary.NewBinaryProtol(data)
		_, _ = p.ReadAnyWithDesc(desc, false, true, false, true)
		v := pgeneric.NewRootValue(desc, data)
		_, _ = v.Interface(&pgeneric.Options{})
		_ = v.GetByPath(pgeneric.NewPathFieldId(dproto.FieldNumber(12)), pgeneric.NewPathFieldId(dproto.FieldNumber(9)))
		_ = v.GetByPath(pgeneric.NewPathFieldId(dproto.FieldNumber(13)), pgeneric.NewPathIndex(1), pgeneric.NewPathFieldId(dproto.FieldNumber(1)))
		_ = v.GetByPath(pgeneric.NewPathFieldId(dproto.FieldNumber(17)), pgeneric.NewPathStrKey("k"))
		_ = v.GetByPath(pgeneric.NewPathFieldId(dproto.FieldNumber(14)), pgeneric.NewPathIndex(2))
		tree := pgeneric.PathNode{Node: v.Node}
		if err := tree.Load(true, &pgeneric.Options{}, desc); err == nil {
			_, _ = tree.Marshal(&pgeneric.Options{})
		}
		_, _ = v.MarshalTo(desc, &pgeneric.Options{})
	})
}

func FuzzJSONDoc(f *testing.F) {
	tdesc := fuzzThriftDesc(f)
	comp, err := pmodel.Compile(fuzzSchema.Render(), fuzzSchema.Main)
	if err != nil || comp.SvcErr != nil {
		f.Fatal(err, comp.SvcErr)
	}
	pdesc := comp.Svc.LookupMethodByName("Call").Input()
	f.Add([]byte(`{"mid":{"leaf":{"b":true,"y":1,"h":2,"i":3,"l":4,"d":1.5,"s":"x","n":"AAEC"},"leaves":[{"s":"a"}],"byName":{"k":{"i":1}},"names":{"7":"seven"},"ids":[1,2],"grid":[[1],[2,3]],"tags":{"t":["a","b"]}},"note":"n","far":5,"last":true}`))
	f.Add([]byte(`{"i":1,"l":-5,"u":18446744073709551615,"d":1.5,"b":true,"s":"x","y":"AAEC","e":1,"next":{"i":7},"kids":[{"s":"a"},{}],"ints":[1,2],"strs":["x"],"m":{"k":{"i":1}},"mi":{"5":"five"},"far":1}`))
	f.Add([]byte(`{"mid":null,"zz":[1,{"a":"é😀"}]}`))
	f.Add([]byte(`[`))
	ctx := context.Background()
	f.Fuzz(func(t *testing.T, in []byte) {
		if len(in) > 1<<16 {
			return
		}
		// no guard page: the native JSON scanners read a few bytes past the end (known findings C06-j2t-overread / C06-j2p-overread)
		heap := append(make([]byte, 0, len(in)+64), in...)
		for _, o := range []conv.Options{{}, {String2Int64: true, DisallowUnknownField: true, WriteDefaultField: true}} {
			cv := j2t.NewBinaryConv(o)
			_, _ = cv.Do(ctx, tdesc, heap)
		}
		cv := j2p.NewBinaryConv(conv.Options{})
		_, _ = cv.Do(ctx, pdesc, heap)
	})
}
