package c06

import (
	"bytes"
	"context"
	"encoding/json"
	"fmt"
	"testing"

	"github.com/cloudwego/dynamicgo/conv"
	"github.com/cloudwego/dynamicgo/conv/t2j"
	"github.com/cloudwego/dynamicgo/thrift"
	"pgregory.net/rapid"

	"verifharness/pbt"
	tm "verifharness/tmodel"
)

// Strings quoted into the small side buffers of the converters: t2j renders a container-typed field that is
// mapped to an http header as JSON into a fresh 1 KB buffer, so one long string makes the quoting routine grow
// its buffer several times. The message lies flush against an inaccessible page: reading behind the string
// faults; emitting anything but the string is seen in the header value.

const quoteIDL = `struct Reply {
	1: list<string> Tags (api.header = "X-Tags")
	2: string Msg
	3: map<string,string> Kv (api.header = "X-Kv")
}
service Svc { Reply Call(1: Reply req) }
`

type QuoteCase struct {
	Len    int  `json:"len"`
	Ctl    bool `json:"ctl"`    // control characters (6 output bytes each) instead of plain letters
	InMap  bool `json:"in_map"` // the string is a map value instead of a list element
	Second int  `json:"second"` // length of a second string after it (0: none)
}

type headerRec struct{ h map[string]string }

func (r *headerRec) SetStatusCode(int) error { return nil }
func (r *headerRec) SetHeader(k, v string) error {
	r.h[k] = v
	return nil
}
func (r *headerRec) SetCookie(string, string) error { return nil }
func (r *headerRec) SetRawBody([]byte) error        { return nil }

func checkQuote(c *pbt.Ctx, cs QuoteCase) {
	comp, err := tm.Compile(quoteIDL, thrift.Options{})
	if err != nil {
		c.Failf("harness-idl", "IDL rejected: %v", err)
	}
	mk := func(n int) string {
		if cs.Ctl {
			return string(bytes.Repeat([]byte{1}, n))
		}
		return string(bytes.Repeat([]byte{'x'}, n))
	}
	strs := []string{mk(cs.Len)}
	if cs.Second > 0 {
		strs = append(strs, mk(cs.Second))
	}
	v := &tm.Value{K: tm.STRUCT}
	var want string
	if cs.InMap {
		m := &tm.Value{K: tm.MAP, KT: tm.STRING, ET: tm.STRING}
		for i, s := range strs {
			m.Keys = append(m.Keys, &tm.Value{K: tm.STRING, S: []byte(fmt.Sprintf("k%d", i))})
			m.Elems = append(m.Elems, &tm.Value{K: tm.STRING, S: []byte(s)})
		}
		v.Fields = append(v.Fields, tm.FieldVal{ID: 3, V: m})
	} else {
		l := &tm.Value{K: tm.LIST, ET: tm.STRING}
		for _, s := range strs {
			l.Elems = append(l.Elems, &tm.Value{K: tm.STRING, S: []byte(s)})
		}
		v.Fields = append(v.Fields, tm.FieldVal{ID: 1, V: l})
	}
	v.Fields = append(v.Fields, tm.FieldVal{ID: 2, V: &tm.Value{K: tm.STRING, S: []byte("m")}})
	in := tm.Encode(v)
	g := guard(in)
	defer g.free()
	rec := &headerRec{h: map[string]string{}}
	ctx := context.WithValue(context.Background(), conv.CtxKeyHTTPResponse, rec)
	var out []byte
	call(c, "t2j.Do(http header)", len(in), func() {
		cv := t2j.NewBinaryConv(conv.Options{EnableHttpMapping: true})
		out, err = cv.Do(ctx, comp.Resp.Struct().FieldById(0).Type(), g.data)
	})
	if err != nil {
		c.Failf("unexpected-error", "t2j with http mapping fails on a well-formed message: %v", err)
	}
	if string(out) != `{"Msg":"m"}` {
		c.Failf("wrong-body", "body %.200s", out)
	}
	key := "X-Tags"
	if cs.InMap {
		key = "X-Kv"
	}
	got := rec.h[key]
	var back interface{}
	if jerr := json.Unmarshal([]byte(got), &back); jerr != nil {
		c.Failf("header-not-json", "header %s (%d bytes) is not JSON: %v: %.120s...", key, len(got), jerr, got)
	}
	if cs.InMap {
		mm, _ := back.(map[string]interface{})
		if len(mm) != len(strs) {
			c.Failf("wrong-header", "header %s holds %d entries, want %d", key, len(mm), len(strs))
		}
		for i, s := range strs {
			if x, _ := mm[fmt.Sprintf("k%d", i)].(string); x != s {
				c.Failf("wrong-header", "header %s: entry k%d has %d bytes, the message holds %d", key, i, len(x), len(s))
			}
		}
		want = ""
	} else {
		ll, _ := back.([]interface{})
		if len(ll) != len(strs) {
			c.Failf("wrong-header", "header %s holds %d elements, want %d", key, len(ll), len(strs))
		}
		for i, s := range strs {
			if x, _ := ll[i].(string); x != s {
				c.Failf("wrong-header", "header %s: element %d has %d bytes, the message holds %d", key, i, len(x), len(s))
			}
		}
	}
	_ = want
	c.NonTrivial()
	c.Class(fmt.Sprintf("ctl=%v,map=%v", cs.Ctl, cs.InMap))
	if cs.Len >= 3000 || (cs.Ctl && cs.Len >= 500) {
		c.Class("needs>=2-regrows")
	}
}

var QuoteProp = pbt.Register(pbt.Prop[QuoteCase]{
	Name: "TestHeaderQuoting",
	Rule: "t2j with http mapping of a message whose list<string> / map<string,string> field goes to a header (rendered as JSON into a 1 KB side buffer); one string of 0..50000 plain or control characters (lengths around 170, 340, 510, 1021, 3069, 5117, 9213 where the buffer has to grow again), optionally a second one; the message lies flush against an inaccessible page; the call must not fault, the body is the rest of the message, the header is JSON holding exactly the strings; every case is non-trivial",
	Gen: func(t *rapid.T) QuoteCase {
		cs := QuoteCase{Ctl: rapid.Bool().Draw(t, "ctl"), InMap: rapid.IntRange(0, 2).Draw(t, "inMap") == 0}
		switch rapid.IntRange(0, 3).Draw(t, "lenClass") {
		case 0:
			cs.Len = rapid.IntRange(0, 600).Draw(t, "len")
		case 1:
			b := []int{170, 340, 510, 1021, 1024, 3069, 3072, 5117, 9213, 17405}[rapid.IntRange(0, 9).Draw(t, "lenB")]
			cs.Len = b + rapid.IntRange(-3, 3).Draw(t, "lenD")
		case 2:
			cs.Len = rapid.IntRange(600, 6000).Draw(t, "len")
		default:
			cs.Len = rapid.IntRange(6000, 50000).Draw(t, "len")
		}
		if cs.Len < 0 {
			cs.Len = 0
		}
		if rapid.IntRange(0, 2).Draw(t, "second") == 0 {
			cs.Second = rapid.IntRange(1, 4000).Draw(t, "secondLen")
		}
		return cs
	},
	Check: checkQuote,
})

func TestHeaderQuoting(t *testing.T) { pbt.Run(t, QuoteProp) }
