package c11

import (
	"bytes"
	"fmt"
	"math"
	"strings"
	"sync"
	"testing"

	"github.com/cloudwego/dynamicgo/meta"
	"github.com/cloudwego/dynamicgo/thrift"
	"github.com/cloudwego/dynamicgo/thrift/generic"
	"pgregory.net/rapid"

	"verifharness/pbt"
	tm "verifharness/tmodel"
)

func TestMain(m *testing.M)   { pbt.Main(m, "C11") }
func TestReplay(t *testing.T) { pbt.Replay(t) }

type Opts struct {
	DisallowUnknow bool `json:"disallow_unknow"`
	NotCheckReq    bool `json:"not_check_req"`
	WriteDefault   bool `json:"write_default"`
	NativeSkip     bool `json:"native_skip"`
	UseDefault     bool `json:"use_default_value"` // parse option: IDL defaults are what WriteDefault fills in
	distinct       bool // model only: source and target descriptors come from two parses, nothing is pointer-equal
}

// Case: U holds the source structs S* and the derived target structs T*; U.Root is the
// source root type, U.Extra[0] the target root type (same root kind).
type Case struct {
	U    *tm.Universe `json:"u"` // U.Root is a wrapper struct W{1: Src src, 2: Dst dst}: both descriptors come from one parse, so shared sub-structs are pointer-equal
	Src  *tm.Type     `json:"src"`
	Dst  *tm.Type     `json:"dst"`
	V    *tm.Value    `json:"v"` // conforms to Src, may carry fields the source struct does not declare (Unknown)
	O    Opts         `json:"o"`
	Same bool         `json:"same"` // cut with the very same descriptor object
}

type projErr struct{ msg string }

type poisonPair struct{ from, to *thrift.TypeDescriptor }

var poisonOnce sync.Once
var poisonVal poisonPair

func poisonDescs() poisonPair {
	poisonOnce.Do(func() {
		var b strings.Builder
		b.WriteString("struct P { 1: i32 a }\nstruct Q {\n 1: i32 a\n")
		for id := 70; id < 1100; id += 64 {
			fmt.Fprintf(&b, " %d: i32 f%d\n", id, id)
		}
		b.WriteString("}\nstruct W { 1: P p, 2: Q q }\nservice Svc { W Call(1: W req) }\n")
		comp, err := tm.Compile(b.String(), thrift.Options{})
		if err != nil {
			panic(err)
		}
		poisonVal = poisonPair{comp.Root.Struct().FieldById(1).Type(), comp.Root.Struct().FieldById(2).Type()}
	})
	return poisonVal
}

// project computes the model projection. It returns (nil, err) when the statement demands an error.
func project(u *tm.Universe, v *tm.Value, from, to *tm.Type, o Opts) (*tm.Value, *projErr) {
	switch v.K {
	case tm.STRUCT:
		if from.Ref == to.Ref && !o.distinct {
			// the identical descriptor (same struct of the same parse): "reproduces the input"
			return v.Clone(), nil
		}
		fs, ts := u.Struct(from.Ref), u.Struct(to.Ref)
		out := &tm.Value{K: tm.STRUCT}
		done := map[int16]bool{}
		for _, f := range v.Fields {
			ff := fs.Field(f.ID)
			if ff == nil {
				if o.DisallowUnknow {
					return nil, &projErr{fmt.Sprintf("unknown field %d with DisallowUnknow", f.ID)}
				}
				continue
			}
			tf := ts.Field(f.ID)
			if tf == nil {
				continue
			}
			pv, e := project(u, f.V, ff.T, tf.T, o)
			if e != nil {
				return nil, e
			}
			out.Fields = append(out.Fields, tm.FieldVal{ID: f.ID, V: pv})
			done[f.ID] = true
		}
		if !o.NotCheckReq {
			for i := range ts.Fields {
				tf := &ts.Fields[i]
				if done[tf.ID] {
					continue
				}
				switch tf.Req {
				case tm.ReqRequired:
					return nil, &projErr{fmt.Sprintf("required target field %d of %s is absent", tf.ID, ts.Name)}
				case tm.ReqDefault:
					if o.WriteDefault {
						fill := tm.ZeroValue(tf.T)
						if o.UseDefault && tf.Default != nil {
							fill = tf.Default.Clone()
						}
						out.Fields = append(out.Fields, tm.FieldVal{ID: tf.ID, V: fill})
					}
				}
			}
		}
		return out, nil
	case tm.LIST, tm.SET:
		out := &tm.Value{K: v.K, ET: v.ET}
		for _, e := range v.Elems {
			pv, er := project(u, e, from.Elem, to.Elem, o)
			if er != nil {
				return nil, er
			}
			out.Elems = append(out.Elems, pv)
		}
		return out, nil
	case tm.MAP:
		out := &tm.Value{K: tm.MAP, KT: v.KT, ET: v.ET}
		for i, e := range v.Elems {
			pk, er := project(u, v.Keys[i], from.Key, to.Key, o)
			if er != nil {
				return nil, er
			}
			pv, er := project(u, e, from.Elem, to.Elem, o)
			if er != nil {
				return nil, er
			}
			out.Keys = append(out.Keys, pk)
			out.Elems = append(out.Elems, pv)
		}
		return out, nil
	}
	return v.Clone(), nil
}

// sortFilled moves zero-filled fields (position free) into canonical position for comparison:
// source-derived fields keep their order, so we compare source-derived prefix ordered and the rest as a set.
func splitFilled(u *tm.Universe, got, want *tm.Value) string {
	return cmp(got, want, "$")
}

func cmp(got, want *tm.Value, path string) string {
	if got.K != want.K {
		return fmt.Sprintf("%s: kind %v vs %v", path, got.K, want.K)
	}
	switch got.K {
	case tm.STRUCT:
		// fields present in both: relative order of the source-derived ones must be the same.
		// the model appends zero-filled fields at the end; the implementation may put them anywhere:
		// compare as id->value maps, plus the order of the ids that are not zero-filled is checked by the caller via Canon-free walk
		gm := map[int16]*tm.Value{}
		for _, f := range got.Fields {
			if _, dup := gm[f.ID]; dup {
				return fmt.Sprintf("%s: field %d written twice", path, f.ID)
			}
			gm[f.ID] = f.V
		}
		if len(gm) != len(want.Fields) {
			return fmt.Sprintf("%s: fields %v vs %v", path, ids(got), ids(want))
		}
		for _, f := range want.Fields {
			g, ok := gm[f.ID]
			if !ok {
				return fmt.Sprintf("%s: field %d missing (got %v want %v)", path, f.ID, ids(got), ids(want))
			}
			if d := cmp(g, f.V, fmt.Sprintf("%s.%d", path, f.ID)); d != "" {
				return d
			}
		}
		return ""
	case tm.LIST, tm.SET:
		if len(got.Elems) != len(want.Elems) {
			return fmt.Sprintf("%s: len %d vs %d", path, len(got.Elems), len(want.Elems))
		}
		for i := range got.Elems {
			if d := cmp(got.Elems[i], want.Elems[i], fmt.Sprintf("%s[%d]", path, i)); d != "" {
				return d
			}
		}
		return ""
	case tm.MAP:
		if len(got.Elems) != len(want.Elems) {
			return fmt.Sprintf("%s: map len %d vs %d", path, len(got.Elems), len(want.Elems))
		}
		for i := range got.Elems {
			if d := cmp(got.Keys[i], want.Keys[i], fmt.Sprintf("%s{key %d}", path, i)); d != "" {
				return d
			}
			if d := cmp(got.Elems[i], want.Elems[i], fmt.Sprintf("%s{val %d}", path, i)); d != "" {
				return d
			}
		}
		return ""
	}
	return tm.Diff(got, want)
}

func ids(v *tm.Value) []int16 {
	var out []int16
	for _, f := range v.Fields {
		out = append(out, f.ID)
	}
	return out
}

// orderOK checks that the fields of got that come from the source appear in source order.
func orderOK(src, got *tm.Value, ty *tm.Type, u *tm.Universe) string {
	if src == nil || got == nil || src.K != got.K || ty == nil {
		return ""
	}
	switch got.K {
	case tm.STRUCT:
		sd := u.Struct(ty.Ref)
		pos := map[int16]int{}
		for i, f := range src.Fields {
			if sd != nil && sd.Field(f.ID) != nil { // fields the source struct does not declare are not carried over
				pos[f.ID] = i
			}
		}
		last := -1
		for _, f := range got.Fields {
			p, fromSrc := pos[f.ID]
			if !fromSrc {
				continue
			}
			if p < last {
				return fmt.Sprintf("source-derived fields out of source order: %v (source %v)", ids(got), ids(src))
			}
			last = p
			if d := orderOK(src.Field(f.ID), f.V, sd.Field(f.ID).T, u); d != "" {
				return d
			}
		}
	case tm.LIST, tm.SET, tm.MAP:
		for i := range got.Elems {
			if i < len(src.Elems) {
				if d := orderOK(src.Elems[i], got.Elems[i], ty.Elem, u); d != "" {
					return d
				}
				if got.K == tm.MAP {
					if d := orderOK(src.Keys[i], got.Keys[i], ty.Key, u); d != "" {
						return d
					}
				}
			}
		}
	}
	return ""
}

func check(c *pbt.Ctx, cs Case) {
	comp, err := tm.CompileUniverse(cs.U, thrift.Options{UseDefaultValue: cs.O.UseDefault})
	if err != nil {
		c.Failf("idl-error", "dynamicgo rejects generated IDL: %v\n%s", err, cs.U.Render())
	}
	from, to := comp.Root.Struct().FieldById(1).Type(), comp.Root.Struct().FieldById(2).Type()
	if cs.Same {
		to = from
	}
	enc := tm.Encode(cs.V)
	val := generic.NewValue(from, append([]byte{}, enc...))
	opts := &generic.Options{DisallowUnknow: cs.O.DisallowUnknow, NotCheckRequireNess: cs.O.NotCheckReq, WriteDefault: cs.O.WriteDefault, UseNativeSkip: cs.O.NativeSkip}
	want, perr := project(cs.U, cs.V, cs.Src, cs.Dst, cs.O)
	identical := from == to
	if identical {
		c.Class("identical-descriptor")
	}
	c.Step("MarshalTo")
	out, merr := val.MarshalTo(to, opts)
	if perr != nil {
		c.Class("expect-error")
		if merr == nil {
			c.Failf("missing-error", "MarshalTo succeeded but the model demands an error: %s\n out %x", perr.msg, out)
		}
		if strings.Contains(perr.msg, "required") {
			if me, ok := merr.(meta.Error); !ok || me.Code.Behavior() != meta.ErrMissRequiredField {
				c.Failf("wrong-error-class", "absent required target field: error is not ErrMissRequiredField: %v", merr)
			}
		}
		return
	}
	if merr != nil {
		c.Failf("unexpected-error", "MarshalTo failed: %v (model: success)", merr)
	}
	got, derr := tm.DecodeStrict(cs.V.K, out)
	if derr != nil {
		c.Failf("malformed-output", "MarshalTo output is not well-formed: %v\n in  %x\n out %x", derr, enc, out)
	}
	if d := cmp(got, want, "$"); d != "" {
		c.Failf("wrong-projection", "MarshalTo output is not the projection: %s\n got  %s\n want %s", d, got.Short(), want.Short())
	}
	if d := tm.DiffEmptyTypes(want, got); d != "" {
		c.Failf("empty-container-types", "MarshalTo output: an empty container is not of the declared type (want vs got): %s", d)
	}
	if d := orderOK(cs.V, got, cs.Src, cs.U); d != "" {
		c.Failf("wrong-order", "%s", d)
	}
	// the returned bytes stay intact while a value of the same shape with other text is cut
	keep := append([]byte(nil), out...)
	other := cs.V.Clone()
	tm.Walk(other, func(_ []tm.Step, n *tm.Value, _ *tm.Value) {
		if n.K == tm.STRING {
			n.S = bytes.Repeat([]byte{'Z'}, len(n.S))
		}
	})
	c.Step("a second MarshalTo on another value; the first result must not change")
	c.Protect("", func() { _, _ = generic.NewValue(from, tm.Encode(other)).MarshalTo(to, opts) })
	if !bytes.Equal(out, keep) {
		c.Failf("result-overwritten", "the bytes returned by MarshalTo (%d) changed during a later call", len(out))
	}
	if tm.Depth(cs.V) >= 2 {
		c.NonTrivial()
	}
	c.Class(fmt.Sprintf("opts:unk=%v,nocheck=%v,wd=%v", cs.O.DisallowUnknow, cs.O.NotCheckReq, cs.O.WriteDefault))
	// the argument struct of the method (a descriptor the parser builds itself, with the argument's id as its only
	// field - ids up to 32767) cut to itself right after the cut above: the input is reproduced
	hasUnknown := false
	if cs.V.K == tm.STRUCT {
		if sd := cs.U.Struct(cs.Src.Ref); sd != nil {
			for _, f := range cs.V.Fields {
				if sd.Field(f.ID) == nil {
					hasUnknown = true
				}
			}
		}
	}
	if !hasUnknown && comp.Req != nil {
		argID := cs.U.ArgID
		if argID == 0 {
			argID = 1
		}
		wv := &tm.Value{K: tm.STRUCT, Fields: []tm.FieldVal{{ID: argID, V: &tm.Value{K: tm.STRUCT, Fields: []tm.FieldVal{{ID: 1, V: cs.V}}}}}}
		wenc := tm.Encode(wv)
		// the target is the same struct of a second parse of the same IDL: equal, not identical
		comp2, err := tm.Compile(cs.U.Render()+"\n// second parse\n", thrift.Options{UseDefaultValue: cs.O.UseDefault})
		if err != nil {
			c.Failf("idl-error", "dynamicgo rejects generated IDL: %v", err)
		}
		u2 := &tm.Universe{Structs: append(append([]tm.StructDef{}, cs.U.Structs...), tm.StructDef{Name: "CallArgs", Fields: []tm.FieldDef{{ID: argID, Name: "req", T: cs.U.Root}}}), Root: cs.U.Root}
		argsT := &tm.Type{K: tm.STRUCT, Ref: "CallArgs"}
		o2 := cs.O
		o2.distinct = true
		want2, perr2 := project(u2, wv, argsT, argsT, o2)
		// first a cut that leaves default-requiredness fields of a wide target unset (ids in every word of a requires
		// bitmap up to 1100): whatever per-call state the library recycles has been used with all those bits set
		c.Step("a cut into a wide target struct whose fields stay unset")
		c.Protect("", func() {
			pc := poisonDescs()
			_, _ = generic.NewValue(pc.from, []byte{8, 0, 1, 0, 0, 0, 7, 0}).MarshalTo(pc.to, &generic.Options{})
		})
		c.Step("MarshalTo of the argument struct (argument id %d) to the same struct of a second parse", argID)
		var out2 []byte
		var err2 error
		if !c.Protect("", func() { out2, err2 = generic.NewValue(comp.Req, append([]byte{}, wenc...)).MarshalTo(comp2.Req, opts) }) {
			return
		}
		switch {
		case perr2 != nil:
			if err2 == nil {
				c.Failf("missing-error", "MarshalTo of the argument struct succeeded but the model demands an error: %s", perr2.msg)
			}
		case err2 != nil:
			c.Failf("unexpected-error", "MarshalTo of the argument struct (argument id %d) failed: %v (model: success)", argID, err2)
		default:
			got2, derr2 := tm.DecodeStrict(tm.STRUCT, out2)
			if derr2 != nil {
				c.Failf("malformed-output", "MarshalTo of the argument struct: output is not well-formed: %v\n in  %x\n out %x", derr2, wenc, out2)
			}
			if d := cmp(got2, want2, "$"); d != "" {
				c.Failf("wrong-projection", "MarshalTo of the argument struct (argument id %d) is not the projection: %s\n got  %s\n want %s", argID, d, got2.Short(), want2.Short())
			}
		}
		c.Class(fmt.Sprintf("arg-struct:id>=64=%v", argID >= 64))
	}
}

// ---------------------------------------------------------------------------
// generator

var srcCfg = tm.GenCfg{MaxDepth: 3, BigIDs: true, WireOrder: true, Reqs: true, Recursive: true, MaxWidth: 5, RootStruct: false,
	KeyKinds: []tm.Kind{tm.STRING, tm.I32, tm.I64, tm.STRUCT, tm.STRUCT, tm.BYTE}}

func mapType(t *rapid.T, ty *tm.Type, share func(string) string) *tm.Type {
	if ty == nil {
		return nil
	}
	c := *ty
	switch ty.K {
	case tm.STRUCT:
		c.Ref = share(ty.Ref)
	case tm.LIST, tm.SET:
		c.Elem = mapType(t, ty.Elem, share)
	case tm.MAP:
		c.Key = mapType(t, ty.Key, share)
		c.Elem = mapType(t, ty.Elem, share)
	}
	return &c
}

func genCase(t *rapid.T) Case {
	u := tm.GenUniverse(t, srcCfg)
	v := tm.GenValue(t, u, u.Root, srcCfg)
	n := len(u.Structs)
	mode := rapid.IntRange(0, 9).Draw(t, "mode") // 0: identical descriptor
	share := func(name string) string {
		// a target type refers either to the derived struct T<name> or shares the source struct
		if rapid.IntRange(0, 3).Draw(t, "share") == 0 {
			return name
		}
		return "T" + name
	}
	for i := 0; i < n; i++ {
		sd := u.Structs[i]
		td := tm.StructDef{Name: "T" + sd.Name}
		used := map[int16]bool{}
		for _, f := range sd.Fields {
			used[f.ID] = true
			if rapid.IntRange(0, 9).Draw(t, "keep") < 7 {
				nf := tm.FieldDef{ID: f.ID, Name: f.Name, T: mapType(t, f.T, share), Req: rapid.IntRange(0, 2).Draw(t, "treq")}
				td.Fields = append(td.Fields, nf)
			}
		}
		// superset: fields the source does not have
		for k := rapid.IntRange(0, 2).Draw(t, "extra"); k > 0; k-- {
			id := int16(rapid.IntRange(1, 400).Draw(t, "xid"))
			if used[id] {
				continue
			}
			used[id] = true
			xt := &tm.Type{K: []tm.Kind{tm.BOOL, tm.I32, tm.STRING, tm.DOUBLE, tm.LIST, tm.MAP, tm.STRUCT, tm.I64, tm.I16, tm.BYTE}[rapid.IntRange(0, 9).Draw(t, "xk")]}
			switch xt.K {
			case tm.LIST:
				xt.Elem = &tm.Type{K: tm.I64}
			case tm.MAP:
				xt.Key, xt.Elem = &tm.Type{K: tm.STRING}, &tm.Type{K: tm.BYTE}
			case tm.STRUCT:
				xt.Ref = sd.Name
			}
			xf := tm.FieldDef{ID: id, Name: fmt.Sprintf("x_%d", id), T: xt, Req: rapid.IntRange(0, 4).Draw(t, "xreq") % 3}
			if xf.Req == tm.ReqDefault && rapid.Bool().Draw(t, "xdefault") {
				// an IDL default (a literal, or an enum constant on an integer field of any width)
				switch xt.K {
				case tm.BOOL:
					xf.Default = &tm.Value{K: tm.BOOL, B: true}
				case tm.STRING:
					xf.Default = &tm.Value{K: tm.STRING, S: []byte("dflt")}
				case tm.DOUBLE:
					xf.Default = &tm.Value{K: tm.DOUBLE, F: math.Float64bits(2.5)}
				case tm.I32, tm.I64, tm.I16, tm.BYTE:
					xf.Default = &tm.Value{K: xt.K, I: int64(rapid.IntRange(-100, 100).Draw(t, "xdefInt"))}
					if rapid.Bool().Draw(t, "xdefEnum") {
						c := []struct {
							n string
							v int64
						}{{"VE.V0", 0}, {"VE.V1", 1}, {"VE.V7", 7}, {"VE.V100", 100}}[rapid.IntRange(0, 3).Draw(t, "xdefEnumC")]
						xf.Default, xf.DefaultRef = &tm.Value{K: xt.K, I: c.v}, c.n
					}
				}
			}
			td.Fields = append(td.Fields, xf)
		}
		u.Structs = append(u.Structs, td)
	}
	src := u.Root
	var dst *tm.Type
	same := false
	always := func(name string) string { return "T" + name }
	switch {
	case mode == 0:
		dst, same = src, true
	case mode == 1:
		dst = mapType(t, src, always)
	default:
		dst = mapType(t, src, share)
	}
	u.Structs = append(u.Structs, tm.StructDef{Name: "W", Fields: []tm.FieldDef{{ID: 1, Name: "src", T: src}, {ID: 2, Name: "dst", T: dst}}})
	u.Root = &tm.Type{K: tm.STRUCT, Ref: "W"}
	u.ArgID = []int16{1, 2, 63, 64, 65, 100, 127, 128, 255, 300, 1000, 32767}[rapid.IntRange(0, 11).Draw(t, "argID")]
	// unknown fields in the value (ids the source struct does not declare)
	// (not with the identical descriptor: there the statement says the input is reproduced)
	if !same && rapid.IntRange(0, 3).Draw(t, "unknown") == 0 && v.K == tm.STRUCT && dst.Ref != src.Ref {
		sd := u.Struct(src.Ref)
		id := int16(rapid.IntRange(1, 500).Draw(t, "uid"))
		if sd.Field(id) == nil && v.Field(id) == nil {
			pos := rapid.IntRange(0, len(v.Fields)).Draw(t, "upos")
			nf := tm.FieldVal{ID: id, V: &tm.Value{K: tm.STRING, S: []byte("unknown")}}
			v.Fields = append(v.Fields[:pos:pos], append([]tm.FieldVal{nf}, v.Fields[pos:]...)...)
		}
	}
	o := Opts{DisallowUnknow: rapid.Bool().Draw(t, "disallowUnknow"), NotCheckReq: rapid.Bool().Draw(t, "notCheckReq"), NativeSkip: rapid.Bool().Draw(t, "nativeSkip")}
	if !o.NotCheckReq {
		// (WriteDefault together with NotCheckRequireNess is not drawn: the statement does not say which wins)
		o.WriteDefault = rapid.Bool().Draw(t, "writeDefault")
	}
	o.UseDefault = rapid.Bool().Draw(t, "useDefaultValue")
	return Case{U: u, Src: src, Dst: dst, V: v, O: o, Same: same}
}

var Prop = pbt.Register(pbt.Prop[Case]{
	Name:  "TestThriftCut",
	Rule:  "one IDL with source structs S* and derived target structs T* (random field subsets/supersets at every depth incl. inside list/set elements, map keys and values, recursive types; target types share source sub-structs or use derived ones; identical descriptor in 10% of cases; requiredness redrawn on the target) + conforming source value (optionally with an unknown field); MarshalTo output decoded by the reference decoder must equal the model projection (source order for source fields, default-requiredness fields the source lacks filled iff WriteDefault: with the IDL default (literal or enum constant, on integer fields of every width) when the descriptor was parsed with UseDefaultValue, else with the zero value), absent required target field => ErrMissRequiredField unless NotCheckRequireNess, unknown field + DisallowUnknow => error; non-trivial = source depth >= 2",
	Gen:   genCase,
	Check: check,
})

func TestThriftCut(t *testing.T) { pbt.Run(t, Prop) }
