package c11

import (
	"bytes"
	"fmt"
	"testing"

	"github.com/cloudwego/dynamicgo/proto/generic"
	"google.golang.org/protobuf/encoding/protowire"
	"google.golang.org/protobuf/proto"
	"pgregory.net/rapid"

	"verifharness/pbt"
	"verifharness/pmodel"
)

// Size sweep: the position at which a nested message ends in the output buffer is moved byte by byte
// across a whole range (a leading bytes field grows from Pad0 by one byte per step), so that it passes
// every capacity the converter's pooled write buffer can have; the cut output must stay exact at every step.

const sweepProto = `syntax = "proto3";
package pkg;
message In { bytes body = 1; int32 x = 2; string s = 3; }
message TIn { bytes body = 1; string s = 3; }
message Root { bytes pad = 1; In one = 2; repeated In many = 3; int32 tail = 5; }
message TRoot { bytes pad = 1; TIn one = 2; repeated TIn many = 3; int32 tail = 5; }
service Svc { rpc Call(Root) returns (Root); rpc Cut(TRoot) returns (TRoot); }
`

type SweepCase struct {
	Bodies []int `json:"bodies"` // body length of "one" and of each element of "many"
	X      []int `json:"x"`      // x of each (dropped by the target)
	Pad0   int   `json:"pad0"`
	Steps  int   `json:"steps"`
	Tail   int   `json:"tail"`
}

func appendIn(b []byte, num protowire.Number, body, x int, keepX bool) []byte {
	var in []byte
	if body > 0 {
		in = protowire.AppendTag(in, 1, protowire.BytesType)
		in = protowire.AppendBytes(in, bytes.Repeat([]byte{'b'}, body))
	}
	if keepX && x != 0 {
		in = protowire.AppendTag(in, 2, protowire.VarintType)
		in = protowire.AppendVarint(in, uint64(int64(int32(x))))
	}
	in = protowire.AppendTag(in, 3, protowire.BytesType)
	in = protowire.AppendString(in, "s")
	b = protowire.AppendTag(b, num, protowire.BytesType)
	return protowire.AppendBytes(b, in)
}

func (cs SweepCase) rest(keepX bool) []byte {
	var b []byte
	for i, n := range cs.Bodies {
		num := protowire.Number(3)
		if i == 0 {
			num = 2
		}
		b = appendIn(b, num, n, cs.X[i], keepX)
	}
	if cs.Tail != 0 {
		b = protowire.AppendTag(b, 5, protowire.VarintType)
		b = protowire.AppendVarint(b, uint64(cs.Tail))
	}
	return b
}

func checkSweep(c *pbt.Ctx, cs SweepCase) {
	comp, err := pmodel.Compile(map[string]string{"main.proto": sweepProto}, "main.proto")
	if err != nil || comp.SvcErr != nil {
		c.Failf("harness-schema", "schema rejected: %v %v", err, comp.SvcErr)
	}
	from := comp.Svc.LookupMethodByName("Call").Input()
	to := comp.Svc.LookupMethodByName("Cut").Input()
	srcRest, wantRest := cs.rest(true), cs.rest(false)
	// the reference agrees with the hand-built encodings (checked once per case)
	{
		m, err := pmodel.Unmarshal(comp.Msg("pkg.Root"), srcRest)
		if err != nil {
			c.Failf("harness-msg", "reference rejects the hand-built source: %v", err)
		}
		w, err := pmodel.Unmarshal(comp.Msg("pkg.TRoot"), wantRest)
		if err != nil || !proto.Equal(projectPB(m, comp.Msg("pkg.TRoot")), w) {
			c.Failf("harness-msg", "hand-built expectation is not the projection: %v", err)
		}
	}
	pad := bytes.Repeat([]byte{'p'}, cs.Pad0+cs.Steps)
	for k := 0; k < cs.Steps; k++ {
		n := cs.Pad0 + k
		var src, want []byte
		if n > 0 {
			src = protowire.AppendTag(src, 1, protowire.BytesType)
			src = protowire.AppendBytes(src, pad[:n])
		}
		want = append(want, src...)
		src = append(src, srcRest...)
		want = append(want, wantRest...)
		n0 := len(src)
		src = append(src, make([]byte, 16)...)[:n0] // spare capacity behind the message
		v := generic.NewRootValue(from, src)
		var out []byte
		var merr error
		if !c.Protect("", func() { out, merr = v.MarshalTo(to, &generic.Options{}) }) {
			return
		}
		if merr != nil {
			c.Failf("unexpected-error", "pad %d: proto MarshalTo failed: %v", n, merr)
		}
		if !bytes.Equal(out, want) {
			// the byte order of the output is not prescribed: decide by the reference
			got, derr := pmodel.Unmarshal(comp.Msg("pkg.TRoot"), out)
			w, _ := pmodel.Unmarshal(comp.Msg("pkg.TRoot"), want)
			if derr != nil {
				c.Failf("malformed-output", "pad %d (output %d bytes): rejected by the reference: %v", n, len(out), derr)
			}
			if !proto.Equal(got, w) {
				c.Failf("wrong-projection", "pad %d (output %d bytes, expected %d): not the projection; first difference at byte %d", n, len(out), len(want), firstDiff(out, want))
			}
		}
	}
	c.NonTrivial()
	c.Class(fmt.Sprintf("sweep-to>=%d", (cs.Pad0+cs.Steps)/4096*4096))
}

func firstDiff(a, b []byte) int {
	for i := 0; i < len(a) && i < len(b); i++ {
		if a[i] != b[i] {
			return i
		}
	}
	if len(a) < len(b) {
		return len(a)
	}
	return len(b)
}

var SweepProp = pbt.Register(pbt.Prop[SweepCase]{
	Name: "TestProtoCutSweep",
	Rule: "fixed source/target schema pair (the target drops one field of a nested message that occurs singly and repeated); nested bodies of drawn sizes (0, 1, around 127/128, 200..300, around 16383/16384); a leading bytes field grows by one byte per step over 1500..6000 consecutive sizes starting anywhere in 0..20000, so the end of every nested message crosses every capacity of the pooled write buffer; every output must be the projection (byte-equal to the hand-built encoding, else decided by protobuf-go); every case is non-trivial",
	Gen: func(t *rapid.T) SweepCase {
		var cs SweepCase
		n := rapid.IntRange(1, 4).Draw(t, "nIn")
		for i := 0; i < n; i++ {
			var b int
			switch rapid.IntRange(0, 5).Draw(t, "bodyClass") {
			case 0:
				b = rapid.IntRange(0, 1).Draw(t, "body")
			case 1, 2:
				b = rapid.IntRange(118, 132).Draw(t, "body")
			case 3:
				b = rapid.IntRange(200, 300).Draw(t, "body")
			case 4:
				b = rapid.IntRange(16370, 16390).Draw(t, "body")
			default:
				b = rapid.IntRange(2, 117).Draw(t, "body")
			}
			cs.Bodies = append(cs.Bodies, b)
			cs.X = append(cs.X, []int{0, 1, -1, 300, 1 << 30}[rapid.IntRange(0, 4).Draw(t, "x")])
		}
		cs.Pad0 = rapid.IntRange(0, 20000).Draw(t, "pad0")
		if rapid.Bool().Draw(t, "fromZero") {
			cs.Pad0 = rapid.IntRange(0, 4200).Draw(t, "pad0low")
		}
		cs.Steps = rapid.IntRange(1500, 6000).Draw(t, "steps")
		cs.Tail = rapid.IntRange(0, 3).Draw(t, "tail")
		return cs
	},
	Check: checkSweep,
})

func TestProtoCutSweep(t *testing.T) { pbt.Run(t, SweepProp) }
