package c11

import (
	"bytes"
	"fmt"
	"testing"

	"github.com/cloudwego/dynamicgo/proto/generic"
	"google.golang.org/protobuf/proto"
	"google.golang.org/protobuf/reflect/protoreflect"
	"google.golang.org/protobuf/types/dynamicpb"
	"pgregory.net/rapid"

	"verifharness/pbt"
	"verifharness/pmodel"
)

// Protobuf cutting: source message types Root/M* and derived target types TRoot/TM* (field subsets
// by number) live in one schema; Svc.Call takes Root, Svc.Cut takes TRoot.

type PCase struct {
	Schema   pmodel.Schema `json:"schema"`
	Msg      []byte        `json:"msg"`
	Same     bool          `json:"same"` // cut with the identical descriptor
	Disallow bool          `json:"disallow_unknown"`
}

// projectPB copies the fields of src that the target type declares (by number), recursively.
func projectPB(src protoreflect.Message, tmd protoreflect.MessageDescriptor) *dynamicpb.Message {
	out := dynamicpb.NewMessage(tmd)
	src.Range(func(fd protoreflect.FieldDescriptor, v protoreflect.Value) bool {
		tf := tmd.Fields().ByNumber(fd.Number())
		if tf == nil {
			return true
		}
		switch {
		case fd.IsMap():
			mp := out.Mutable(tf).Map()
			v.Map().Range(func(k protoreflect.MapKey, e protoreflect.Value) bool {
				if fd.MapValue().Kind() == protoreflect.MessageKind {
					mp.Set(k, protoreflect.ValueOfMessage(projectPB(e.Message(), tf.MapValue().Message())))
				} else {
					mp.Set(k, e)
				}
				return true
			})
		case fd.IsList():
			l := out.Mutable(tf).List()
			for i := 0; i < v.List().Len(); i++ {
				if fd.Kind() == protoreflect.MessageKind {
					l.Append(protoreflect.ValueOfMessage(projectPB(v.List().Get(i).Message(), tf.Message())))
				} else {
					l.Append(v.List().Get(i))
				}
			}
		case fd.Kind() == protoreflect.MessageKind:
			out.Set(tf, protoreflect.ValueOfMessage(projectPB(v.Message(), tf.Message())))
		default:
			out.Set(tf, v)
		}
		return true
	})
	return out
}

func maxPayload(m protoreflect.Message) int {
	mx := 0
	m.Range(func(fd protoreflect.FieldDescriptor, v protoreflect.Value) bool {
		if fd.Kind() == protoreflect.MessageKind && !fd.IsMap() {
			sub := func(x protoreflect.Message) {
				if n := proto.Size(x.Interface()); n > mx {
					mx = n
				}
				if n := maxPayload(x); n > mx {
					mx = n
				}
			}
			if fd.IsList() {
				for i := 0; i < v.List().Len(); i++ {
					sub(v.List().Get(i).Message())
				}
			} else {
				sub(v.Message())
			}
		}
		return true
	})
	return mx
}

func checkPB(c *pbt.Ctx, cs PCase) {
	comp, err := pmodel.Compile(cs.Schema.Render(), cs.Schema.Main)
	if err != nil {
		c.Failf("harness-schema", "generated schema rejected by the reference: %v\n%s", err, cs.Schema.Render()[cs.Schema.Main])
	}
	if comp.SvcErr != nil {
		c.Failf("idl-error", "dynamicgo rejects the schema: %v", comp.SvcErr)
	}
	smd, tmd := comp.Msg("pkg.Root"), comp.Msg("pkg.TRoot")
	src, err := pmodel.Unmarshal(smd, cs.Msg)
	if err != nil {
		c.Failf("harness-msg", "reference cannot decode its own message: %v", err)
	}
	from := comp.Svc.LookupMethodByName("Call").Input()
	to := comp.Svc.LookupMethodByName("Cut").Input()
	if cs.Same {
		to, tmd = from, smd
		c.Class("identical-descriptor")
	}
	want := projectPB(src, tmd)
	v := generic.NewRootValue(from, append(make([]byte, 0, len(cs.Msg)+16), cs.Msg...))
	c.Step("proto MarshalTo")
	out, merr := v.MarshalTo(to, &generic.Options{DisallowUnknown: cs.Disallow})
	if merr != nil {
		c.Failf("unexpected-error", "proto MarshalTo failed: %v", merr)
	}
	got, derr := pmodel.Unmarshal(tmd, out)
	if derr != nil {
		c.Failf("malformed-output", "proto MarshalTo output is rejected by the reference: %v\n in  %x\n out %x", derr, cs.Msg, out)
	}
	if len(got.GetUnknown()) != 0 {
		c.Failf("unknown-in-output", "proto MarshalTo output carries fields the target does not declare: %x", got.GetUnknown())
	}
	if !proto.Equal(got, want) {
		c.Failf("wrong-projection", "proto MarshalTo output is not the projection\n got  %v\n want %v\n out %x", got, want, out)
	}
	keep := append([]byte(nil), out...)
	c.Step("a second proto MarshalTo on another message; the first result must not change")
	c.Protect("", func() {
		ob := pmodel.Marshal(pmodel.Zap(src).Interface())
		_, _ = generic.NewRootValue(from, append(make([]byte, 0, len(ob)+16), ob...)).MarshalTo(to, &generic.Options{})
	})
	if !bytes.Equal(out, keep) {
		c.Failf("result-overwritten", "the bytes returned by proto MarshalTo (%d) changed during a later call", len(out))
	}
	mp := maxPayload(src)
	if mp >= 100 {
		c.Class("sub-message>=100B")
	}
	if mp >= 128 {
		c.Class("sub-message>=128B")
	}
	for _, b := range projSizes(want) {
		switch b {
		case 127, 128, 16383, 16384:
			c.Class(fmt.Sprintf("projected-sub-message=%dB", b))
		}
	}
	nested := false
	src.Range(func(fd protoreflect.FieldDescriptor, _ protoreflect.Value) bool {
		if fd.Kind() == protoreflect.MessageKind {
			nested = true
		}
		return true
	})
	if nested {
		c.NonTrivial()
	}
}

// deriveTargets appends target message types T<name> to the schema's main file.
func deriveTargets(t *rapid.T, sc *pmodel.Schema) {
	f := &sc.Files[0]
	var targets []pmodel.Msg
	for _, m := range f.Msgs {
		tm := pmodel.Msg{Name: "T" + m.Name}
		for _, fl := range m.Fields {
			if rapid.IntRange(0, 9).Draw(t, "keep") >= 7 {
				continue
			}
			nf := fl
			if nf.Kind == "message" {
				nf.Ref = "T" + fl.Ref
			}
			tm.Fields = append(tm.Fields, nf)
		}
		// superset: a field the source does not have
		if rapid.IntRange(0, 2).Draw(t, "extra") == 0 {
			used := map[int32]bool{}
			for _, fl := range m.Fields {
				used[fl.Num] = true
			}
			n := int32(rapid.IntRange(1, 200).Draw(t, "xnum"))
			if !used[n] {
				tm.Fields = append(tm.Fields, pmodel.Field{Name: fmt.Sprintf("extra_%d", n), Num: n, Kind: "int64"})
			}
		}
		targets = append(targets, tm)
	}
	f.Msgs = append(f.Msgs, targets...)
	f.Svcs[0].Methods = append(f.Svcs[0].Methods, pmodel.Method{Name: "Cut", In: "TRoot", Out: "TRoot"})
}

var PBProp = pbt.Register(pbt.Prop[PCase]{
	Name: "TestProtoCut",
	Rule: "proto3 schema with source types and derived target types (random field subsets/supersets by number at every depth, incl. inside repeated messages and map values; identical descriptor in 10%) + reference-encoded source message with sub-message sizes around the 1->2 byte length-prefix boundary; proto MarshalTo output must be accepted by protobuf-go under the target type, carry no undeclared field, and equal the projected message; non-trivial = a nested message field present",
	Gen: func(t *rapid.T) PCase {
		sc := pmodel.GenSchema(t, pmodel.GenOpts{KeyKinds: pmodel.SupportedKeyKinds})
		deriveTargets(t, &sc)
		comp, err := pmodel.Compile(sc.Render(), sc.Main)
		if err != nil {
			t.Fatalf("generator produced an invalid schema: %v\n%s", err, sc.Render()[sc.Main])
		}
		m := pmodel.GenMessage(t, comp.Msg("pkg.Root"), pmodel.MsgOpts{MaxDepth: 3, MaxElems: 3})
		if rapid.IntRange(0, 2).Draw(t, "sizeTarget") == 0 {
			padToBoundary(t, m, comp.Msg("pkg.TRoot"))
		}
		return PCase{Schema: sc, Msg: pmodel.Marshal(m), Same: rapid.IntRange(0, 9).Draw(t, "same") == 0, Disallow: false}
	},
	Check: checkPB,
})

func TestProtoCut(t *testing.T) { pbt.Run(t, PBProp) }

// padToBoundary picks a sub-message that has a string/bytes field kept by the target and pads that
// field so that the PROJECTED sub-message is exactly at a length-prefix boundary size.
func padToBoundary(t *rapid.T, root protoreflect.Message, troot protoreflect.MessageDescriptor) {
	type cand struct {
		m   protoreflect.Message
		fd  protoreflect.FieldDescriptor
		tmd protoreflect.MessageDescriptor
	}
	var cands []cand
	var walk func(m protoreflect.Message, tmd protoreflect.MessageDescriptor, depth int)
	walk = func(m protoreflect.Message, tmd protoreflect.MessageDescriptor, depth int) {
		if depth > 0 {
			fds := m.Descriptor().Fields()
			for i := 0; i < fds.Len(); i++ {
				fd := fds.Get(i)
				if (fd.Kind() == protoreflect.StringKind || fd.Kind() == protoreflect.BytesKind) && !fd.IsList() && !fd.IsMap() && tmd.Fields().ByNumber(fd.Number()) != nil {
					cands = append(cands, cand{m, fd, tmd})
				}
			}
		}
		m.Range(func(fd protoreflect.FieldDescriptor, v protoreflect.Value) bool {
			tf := tmd.Fields().ByNumber(fd.Number())
			if tf == nil || fd.Kind() != protoreflect.MessageKind {
				return true
			}
			switch {
			case fd.IsMap():
				if fd.MapValue().Kind() == protoreflect.MessageKind {
					v.Map().Range(func(_ protoreflect.MapKey, e protoreflect.Value) bool {
						walk(e.Message(), tf.MapValue().Message(), depth+1)
						return true
					})
				}
			case fd.IsList():
				for i := 0; i < v.List().Len(); i++ {
					walk(v.List().Get(i).Message(), tf.Message(), depth+1)
				}
			default:
				walk(v.Message(), tf.Message(), depth+1)
			}
			return true
		})
	}
	walk(root, troot, 0)
	if len(cands) == 0 {
		return
	}
	c := cands[rapid.IntRange(0, len(cands)-1).Draw(t, "padCand")]
	want := []int{126, 127, 128, 129, 130, 255, 256, 16383, 16384, 16385}[rapid.IntRange(0, 9).Draw(t, "padSize")]
	for iter := 0; iter < 4; iter++ {
		cur := proto.Size(projectPB(c.m, c.tmd))
		if cur == want {
			return
		}
		var have int
		if c.fd.Kind() == protoreflect.StringKind {
			have = len(c.m.Get(c.fd).String())
		} else {
			have = len(c.m.Get(c.fd).Bytes())
		}
		n := have + want - cur
		if n < 0 {
			return
		}
		pad := make([]byte, n)
		for i := range pad {
			pad[i] = 'p'
		}
		if c.fd.Kind() == protoreflect.StringKind {
			c.m.Set(c.fd, protoreflect.ValueOfString(string(pad)))
		} else {
			c.m.Set(c.fd, protoreflect.ValueOfBytes(pad))
		}
	}
}

func projSizes(m protoreflect.Message) []int {
	var out []int
	m.Range(func(fd protoreflect.FieldDescriptor, v protoreflect.Value) bool {
		if fd.Kind() != protoreflect.MessageKind {
			return true
		}
		add := func(x protoreflect.Message) {
			out = append(out, proto.Size(x.Interface()))
			out = append(out, projSizes(x)...)
		}
		switch {
		case fd.IsMap():
			if fd.MapValue().Kind() == protoreflect.MessageKind {
				v.Map().Range(func(_ protoreflect.MapKey, e protoreflect.Value) bool { add(e.Message()); return true })
			}
		case fd.IsList():
			for i := 0; i < v.List().Len(); i++ {
				add(v.List().Get(i).Message())
			}
		default:
			add(v.Message())
		}
		return true
	})
	return out
}
