// Package jmodel: strict ordered JSON reader (oracle side for converter outputs)
// and a JSON writer with spelling variants (generator side for converter inputs).
package jmodel

import (
	"bytes"
	"encoding/json"
	"fmt"
	"io"
	"math"
	"math/big"
	"strconv"
	"unicode/utf8"
)

type Kind int

const (
	Null Kind = iota
	Bool
	Num
	Str
	Arr
	Obj
)

// Node is a parsed JSON value; object members keep document order.
type Node struct {
	K     Kind
	B     bool
	Num   string // number text as written
	Str   string
	Elems []*Node
	Keys  []string
	Vals  []*Node
}

// Parse parses exactly one JSON value with encoding/json (UseNumber), walking tokens so that
// member order and duplicates are visible. It fails on trailing non-space bytes, duplicate members
// and invalid UTF-8 (encoding/json would silently replace it).
func Parse(text []byte) (*Node, error) {
	if !utf8.Valid(text) {
		return nil, fmt.Errorf("invalid UTF-8 in JSON text")
	}
	dec := json.NewDecoder(bytes.NewReader(text))
	dec.UseNumber()
	n, err := parseValue(dec)
	if err != nil {
		return nil, err
	}
	if _, err := dec.Token(); err != io.EOF {
		return nil, fmt.Errorf("trailing data after the top-level value (%v)", err)
	}
	return n, nil
}

func parseValue(dec *json.Decoder) (*Node, error) {
	tok, err := dec.Token()
	if err != nil {
		return nil, err
	}
	return fromToken(dec, tok)
}

func fromToken(dec *json.Decoder, tok json.Token) (*Node, error) {
	switch t := tok.(type) {
	case nil:
		return &Node{K: Null}, nil
	case bool:
		return &Node{K: Bool, B: t}, nil
	case json.Number:
		return &Node{K: Num, Num: string(t)}, nil
	case string:
		return &Node{K: Str, Str: t}, nil
	case json.Delim:
		switch t {
		case '[':
			n := &Node{K: Arr}
			for dec.More() {
				e, err := parseValue(dec)
				if err != nil {
					return nil, err
				}
				n.Elems = append(n.Elems, e)
			}
			if _, err := dec.Token(); err != nil {
				return nil, err
			}
			return n, nil
		case '{':
			n := &Node{K: Obj}
			seen := map[string]bool{}
			for dec.More() {
				kt, err := dec.Token()
				if err != nil {
					return nil, err
				}
				k, ok := kt.(string)
				if !ok {
					return nil, fmt.Errorf("object key is not a string")
				}
				if seen[k] {
					return nil, fmt.Errorf("duplicate member %q", k)
				}
				seen[k] = true
				v, err := parseValue(dec)
				if err != nil {
					return nil, err
				}
				n.Keys = append(n.Keys, k)
				n.Vals = append(n.Vals, v)
			}
			if _, err := dec.Token(); err != nil {
				return nil, err
			}
			return n, nil
		}
	}
	return nil, fmt.Errorf("unexpected token %v", tok)
}

// Get returns the member value or nil.
func (n *Node) Get(k string) *Node {
	for i, kk := range n.Keys {
		if kk == k {
			return n.Vals[i]
		}
	}
	return nil
}

// Int returns the exact integer denoted by a number node (or by a string node when allowStr),
// accepting integer-valued decimal/exponent spellings.
func (n *Node) Int(allowStr bool) (*big.Int, bool) {
	var txt string
	switch {
	case n.K == Num:
		txt = n.Num
	case n.K == Str && allowStr:
		txt = n.Str
	default:
		return nil, false
	}
	if i, ok := new(big.Int).SetString(txt, 10); ok {
		return i, true
	}
	r, ok := new(big.Rat).SetString(txt)
	if !ok || !r.IsInt() {
		return nil, false
	}
	return r.Num(), true
}

// Float returns the float64 nearest to the number text.
func (n *Node) Float() (float64, bool) {
	if n.K != Num {
		return 0, false
	}
	f, err := strconv.ParseFloat(n.Num, 64)
	if err != nil && math.IsInf(f, 0) {
		return f, false
	}
	return f, err == nil
}

func (n *Node) String() string {
	switch n.K {
	case Null:
		return "null"
	case Bool:
		return fmt.Sprint(n.B)
	case Num:
		return n.Num
	case Str:
		return strconv.Quote(n.Str)
	case Arr:
		return fmt.Sprintf("[%d elems]", len(n.Elems))
	}
	return fmt.Sprintf("{%d members}", len(n.Keys))
}
