package jmodel

import (
	"fmt"
	"math"
	"math/big"
	"strconv"
	"strings"
	"unicode/utf16"
	"unicode/utf8"

	"pgregory.net/rapid"
)

// W writes JSON text, drawing a spelling for every token when Variants is set:
// whitespace, string escape forms, number forms. Every spelling denotes exactly the value given.
type W struct {
	T        *rapid.T
	B        []byte
	Variants bool
	Stats    map[string]int
}

func NewW(t *rapid.T, variants bool) *W {
	return &W{T: t, Variants: variants, Stats: map[string]int{}}
}

var wsForms = []string{"", "", "", " ", "\n", "\t", "\r\n", "  "}

// WS emits optional whitespace.
func (w *W) WS() {
	if !w.Variants {
		return
	}
	s := wsForms[rapid.IntRange(0, len(wsForms)-1).Draw(w.T, "ws")]
	if s != "" {
		w.Stats["whitespace"]++
	}
	w.B = append(w.B, s...)
}

func (w *W) Raw(s string) { w.B = append(w.B, s...) }

// Str emits a JSON string denoting exactly s (which must be valid UTF-8).
func (w *W) Str(s string) {
	w.B = append(w.B, '"')
	for len(s) > 0 {
		r, n := utf8.DecodeRuneInString(s)
		s = s[n:]
		form := 0
		if w.Variants {
			form = rapid.IntRange(0, 5).Draw(w.T, "escForm")
		}
		switch {
		case r == '"' || r == '\\':
			if form == 5 {
				w.uEsc(r)
			} else {
				w.B = append(w.B, '\\', byte(r))
			}
		case r < 0x20:
			short := map[rune]byte{'\n': 'n', '\t': 't', '\r': 'r', '\b': 'b', '\f': 'f'}
			if c, ok := short[r]; ok && form < 4 {
				w.B = append(w.B, '\\', c)
			} else {
				w.uEsc(r)
			}
		case r == '/' && form == 4:
			w.B = append(w.B, '\\', '/')
			w.Stats["escaped-slash"]++
		case form == 5 && r != utf8.RuneError:
			w.uEsc(r)
		default:
			w.B = append(w.B, string(r)...)
		}
	}
	w.B = append(w.B, '"')
}

func (w *W) uEsc(r rune) {
	w.Stats["u-escape"]++
	up := false
	if w.Variants {
		up = rapid.Bool().Draw(w.T, "hexUpper")
	}
	f := "\\u%04x"
	if up {
		f = "\\u%04X"
	}
	if r >= 0x10000 {
		r1, r2 := utf16.EncodeRune(r)
		w.B = append(w.B, fmt.Sprintf(f, r1)...)
		w.B = append(w.B, fmt.Sprintf(f, r2)...)
		w.Stats["surrogate-pair"]++
		return
	}
	w.B = append(w.B, fmt.Sprintf(f, r)...)
}

// Int emits an integer. With Variants and allowFloatForms it may be spelled as 12.0, 1.2e1, 120E-1.
func (w *W) Int(v int64, allowFloatForms bool) {
	w.intText(strconv.FormatInt(v, 10), allowFloatForms)
}

func (w *W) Uint(v uint64, allowFloatForms bool) {
	w.intText(strconv.FormatUint(v, 10), allowFloatForms)
}

func (w *W) intText(dec string, allowFloatForms bool) {
	form := 0
	if w.Variants && allowFloatForms {
		form = rapid.IntRange(0, 5).Draw(w.T, "intForm")
	}
	neg := ""
	digits := dec
	if digits[0] == '-' {
		neg, digits = "-", digits[1:]
	}
	switch form {
	case 3: // 12.0
		w.B = append(w.B, neg+digits+".0"...)
		w.Stats["int-as-decimal"]++
	case 4: // d.ddde+N (exact)
		if len(digits) > 1 {
			w.B = append(w.B, fmt.Sprintf("%s%s.%se%d", neg, digits[:1], digits[1:], len(digits)-1)...)
		} else {
			w.B = append(w.B, neg+digits+"e0"...)
		}
		w.Stats["int-as-exponent"]++
	case 5: // ddd0E-1 (0E-1 for zero: JSON forbids leading zeros)
		if digits == "0" {
			w.B = append(w.B, neg+"0E-1"...)
		} else {
			w.B = append(w.B, neg+digits+"0E-1"...)
		}
		w.Stats["int-as-exponent"]++
	default:
		w.B = append(w.B, dec...)
	}
}

// Float emits a finite float64 in a spelling that parses back (ParseFloat) to exactly f.
func (w *W) Float(f float64) {
	if math.IsNaN(f) || math.IsInf(f, 0) {
		panic("jmodel.W.Float: non-finite")
	}
	if f == 0 && math.Signbit(f) {
		// "-0" is an integer token for most parsers; spell the sign-carrying zero as a float
		w.B = append(w.B, "-0.0"...)
		return
	}
	form := 0
	if w.Variants {
		form = rapid.IntRange(0, 7).Draw(w.T, "floatForm")
	}
	var s string
	switch form {
	case 1:
		s = strconv.FormatFloat(f, 'e', -1, 64)
		w.Stats["float-exponent"]++
	case 2:
		s = strconv.FormatFloat(f, 'E', -1, 64)
		w.Stats["float-exponent"]++
	case 3:
		s = strconv.FormatFloat(f, 'f', -1, 64)
		if len(s) > 400 {
			s = strconv.FormatFloat(f, 'g', -1, 64)
		}
	case 4:
		s = strconv.FormatFloat(f, 'g', 17, 64)
		w.Stats["float-17-digits"]++
	case 5, 6, 7:
		// long spellings that only an exact (arbitrary-precision) parser rounds correctly: the exact decimal expansion of f,
		// and numbers a hair inside the rounding interval of f (just below the midpoint to the next double / just above the
		// midpoint to the previous one), 40..770 significant digits
		s = longSpelling(f, form)
		if g, err := strconv.ParseFloat(s, 64); err != nil || math.Float64bits(g) != math.Float64bits(f) {
			s = strconv.FormatFloat(f, 'g', -1, 64)
		} else {
			w.Stats["float-long-spelling"]++
		}
	default:
		s = strconv.FormatFloat(f, 'g', -1, 64)
	}
	// JSON forbids a leading '+' in exponents? (it allows e+N) and forbids leading '.'; strconv output is valid JSON
	w.B = append(w.B, s...)
}

func (w *W) Bool(b bool) {
	if b {
		w.B = append(w.B, "true"...)
	} else {
		w.B = append(w.B, "false"...)
	}
}

func (w *W) Null() { w.B = append(w.B, "null"...) }

// JunkValue emits an arbitrary JSON value (used for unknown members).
func (w *W) JunkValue(depth int) {
	k := rapid.IntRange(0, 6).Draw(w.T, "junkKind")
	if depth >= 2 && k >= 5 {
		k = 0
	}
	switch k {
	case 0:
		w.Int(int64(rapid.IntRange(-1000, 1000).Draw(w.T, "junkInt")), false)
	case 1:
		w.Str([]string{"", "x", "unknown \"quoted\"", "\\", "}{][,:"}[rapid.IntRange(0, 4).Draw(w.T, "junkStr")])
	case 2:
		w.Bool(rapid.Bool().Draw(w.T, "junkBool"))
	case 3:
		w.Null()
	case 4:
		w.Float(float64(rapid.IntRange(-100, 100).Draw(w.T, "junkF")) / 8)
	case 5:
		w.Raw("[")
		n := rapid.IntRange(0, 3).Draw(w.T, "junkN")
		for i := 0; i < n; i++ {
			if i > 0 {
				w.Raw(",")
			}
			w.WS()
			w.JunkValue(depth + 1)
		}
		w.WS()
		w.Raw("]")
	default:
		w.Raw("{")
		n := rapid.IntRange(0, 3).Draw(w.T, "junkN")
		for i := 0; i < n; i++ {
			if i > 0 {
				w.Raw(",")
			}
			w.WS()
			w.Str(fmt.Sprintf("j%d", i))
			w.WS()
			w.Raw(":")
			w.WS()
			w.JunkValue(depth + 1)
		}
		w.WS()
		w.Raw("}")
	}
}

// exactText renders x exactly in d.ddde±xx form (binary fractions have finite decimal expansions).
func exactText(x *big.Float) string {
	t := x.Text('e', 1100)
	i := strings.IndexByte(t, 'e')
	m, e := t[:i], t[i:]
	m = strings.TrimRight(m, "0")
	if strings.HasSuffix(m, ".") {
		m += "0"
	}
	return m + e
}

func longSpelling(f float64, form int) string {
	neg := f < 0
	a := math.Abs(f)
	x := new(big.Float).SetPrec(2400).SetFloat64(a)
	var t string
	switch form {
	case 5:
		t = exactText(x)
	case 6:
		up := math.Nextafter(a, math.Inf(1))
		if math.IsInf(up, 0) {
			return strconv.FormatFloat(f, 'g', -1, 64)
		}
		hi := new(big.Float).SetPrec(2400).SetFloat64(up)
		hi.Add(hi, x).Quo(hi, big.NewFloat(2))
		t = exactText(hi)
		// one unit less in the last mantissa digit: just below the midpoint
		i := strings.IndexByte(t, 'e')
		m := []byte(t[:i])
		m[len(m)-1]--
		t = string(m) + t[i:]
	default:
		dn := math.Nextafter(a, 0)
		if a == 0 || dn == a {
			return strconv.FormatFloat(f, 'g', -1, 64)
		}
		lo := new(big.Float).SetPrec(2400).SetFloat64(dn)
		lo.Add(lo, x).Quo(lo, big.NewFloat(2))
		t = exactText(lo)
		// one more digit: just above the midpoint
		i := strings.IndexByte(t, 'e')
		t = t[:i] + "1" + t[i:]
	}
	if neg {
		t = "-" + t
	}
	return t
}
