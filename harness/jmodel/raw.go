package jmodel

import (
	"encoding/json"
	"fmt"
	"unicode/utf16"
	"unicode/utf8"
)

// ParseRaw is a byte-level RFC 8259 parser written for the harness: it accepts exactly the JSON grammar
// (no leading zeros, no bare control characters in strings, no trailing data, no duplicate members), and
// decodes string literals to the bytes they denote. Bytes >= 0x80 inside string literals are passed
// through unchanged, so a converter that copies an invalid UTF-8 string verbatim can be compared
// byte-exactly (encoding/json would replace such bytes with U+FFFD). Its verdict on syntax is cross-checked
// against encoding/json.Valid, which implements the same grammar independently.
func ParseRaw(text []byte) (*Node, error) {
	p := &rawParser{b: text}
	p.ws()
	n, err := p.value(0)
	if err == nil {
		p.ws()
		if p.i != len(p.b) {
			err = fmt.Errorf("trailing data at offset %d", p.i)
		}
	}
	std := json.Valid(text)
	if err == nil && !std {
		return nil, fmt.Errorf("harness parser accepts, encoding/json.Valid rejects")
	}
	if err != nil && std && !p.dup && !p.loneSurrogate {
		return nil, fmt.Errorf("harness parser rejects (%v), encoding/json.Valid accepts", err)
	}
	return n, err
}

type rawParser struct {
	b             []byte
	i             int
	dup           bool
	loneSurrogate bool
}

func (p *rawParser) ws() {
	for p.i < len(p.b) && (p.b[p.i] == ' ' || p.b[p.i] == '\t' || p.b[p.i] == '\n' || p.b[p.i] == '\r') {
		p.i++
	}
}

func (p *rawParser) lit(s string, n *Node) (*Node, error) {
	if len(p.b)-p.i < len(s) || string(p.b[p.i:p.i+len(s)]) != s {
		return nil, fmt.Errorf("bad literal at offset %d", p.i)
	}
	p.i += len(s)
	return n, nil
}

func (p *rawParser) value(depth int) (*Node, error) {
	if depth > 5000 {
		return nil, fmt.Errorf("nesting too deep")
	}
	if p.i >= len(p.b) {
		return nil, fmt.Errorf("unexpected end of text")
	}
	switch c := p.b[p.i]; {
	case c == 'n':
		return p.lit("null", &Node{K: Null})
	case c == 't':
		return p.lit("true", &Node{K: Bool, B: true})
	case c == 'f':
		return p.lit("false", &Node{K: Bool})
	case c == '"':
		s, err := p.str()
		if err != nil {
			return nil, err
		}
		return &Node{K: Str, Str: s}, nil
	case c == '-' || (c >= '0' && c <= '9'):
		return p.num()
	case c == '[':
		p.i++
		n := &Node{K: Arr}
		p.ws()
		if p.i < len(p.b) && p.b[p.i] == ']' {
			p.i++
			return n, nil
		}
		for {
			p.ws()
			e, err := p.value(depth + 1)
			if err != nil {
				return nil, err
			}
			n.Elems = append(n.Elems, e)
			p.ws()
			if p.i >= len(p.b) {
				return nil, fmt.Errorf("unterminated array")
			}
			if p.b[p.i] == ',' {
				p.i++
				continue
			}
			if p.b[p.i] == ']' {
				p.i++
				return n, nil
			}
			return nil, fmt.Errorf("expected ',' or ']' at offset %d", p.i)
		}
	case c == '{':
		p.i++
		n := &Node{K: Obj}
		seen := map[string]bool{}
		p.ws()
		if p.i < len(p.b) && p.b[p.i] == '}' {
			p.i++
			return n, nil
		}
		for {
			p.ws()
			if p.i >= len(p.b) || p.b[p.i] != '"' {
				return nil, fmt.Errorf("expected member name at offset %d", p.i)
			}
			k, err := p.str()
			if err != nil {
				return nil, err
			}
			p.ws()
			if p.i >= len(p.b) || p.b[p.i] != ':' {
				return nil, fmt.Errorf("expected ':' at offset %d", p.i)
			}
			p.i++
			p.ws()
			v, err := p.value(depth + 1)
			if err != nil {
				return nil, err
			}
			if seen[k] {
				p.dup = true
				return nil, fmt.Errorf("duplicate member %q", k)
			}
			seen[k] = true
			n.Keys = append(n.Keys, k)
			n.Vals = append(n.Vals, v)
			p.ws()
			if p.i >= len(p.b) {
				return nil, fmt.Errorf("unterminated object")
			}
			if p.b[p.i] == ',' {
				p.i++
				continue
			}
			if p.b[p.i] == '}' {
				p.i++
				return n, nil
			}
			return nil, fmt.Errorf("expected ',' or '}' at offset %d", p.i)
		}
	}
	return nil, fmt.Errorf("unexpected byte %#x at offset %d", p.b[p.i], p.i)
}

func (p *rawParser) num() (*Node, error) {
	s := p.i
	if p.b[p.i] == '-' {
		p.i++
	}
	digits := func() int {
		n := 0
		for p.i < len(p.b) && p.b[p.i] >= '0' && p.b[p.i] <= '9' {
			p.i++
			n++
		}
		return n
	}
	if p.i >= len(p.b) {
		return nil, fmt.Errorf("bad number at offset %d", s)
	}
	if p.b[p.i] == '0' {
		p.i++
	} else if digits() == 0 {
		if p.i == s+1 && p.b[s] == '-' {
			return nil, fmt.Errorf("lone minus sign at offset %d", s)
		}
		return nil, fmt.Errorf("bad number at offset %d", s)
	}
	if p.i < len(p.b) && p.b[p.i] == '.' {
		p.i++
		if digits() == 0 {
			return nil, fmt.Errorf("bad number (fraction) at offset %d", s)
		}
	}
	if p.i < len(p.b) && (p.b[p.i] == 'e' || p.b[p.i] == 'E') {
		p.i++
		if p.i < len(p.b) && (p.b[p.i] == '+' || p.b[p.i] == '-') {
			p.i++
		}
		if digits() == 0 {
			return nil, fmt.Errorf("bad number (exponent) at offset %d", s)
		}
	}
	return &Node{K: Num, Num: string(p.b[s:p.i])}, nil
}

func hex4(b []byte) (rune, bool) {
	if len(b) < 4 {
		return 0, false
	}
	var r rune
	for _, c := range b[:4] {
		switch {
		case c >= '0' && c <= '9':
			r = r<<4 | rune(c-'0')
		case c >= 'a' && c <= 'f':
			r = r<<4 | rune(c-'a'+10)
		case c >= 'A' && c <= 'F':
			r = r<<4 | rune(c-'A'+10)
		default:
			return 0, false
		}
	}
	return r, true
}

func (p *rawParser) str() (string, error) {
	s := p.i
	p.i++ // opening quote
	var out []byte
	for {
		if p.i >= len(p.b) {
			return "", fmt.Errorf("unterminated string starting at offset %d", s)
		}
		c := p.b[p.i]
		switch {
		case c == '"':
			p.i++
			return string(out), nil
		case c < 0x20:
			return "", fmt.Errorf("bare control character %#x in string at offset %d", c, p.i)
		case c == '\\':
			if p.i+1 >= len(p.b) {
				return "", fmt.Errorf("unterminated escape")
			}
			e := p.b[p.i+1]
			p.i += 2
			switch e {
			case '"', '\\', '/':
				out = append(out, e)
			case 'b':
				out = append(out, '\b')
			case 'f':
				out = append(out, '\f')
			case 'n':
				out = append(out, '\n')
			case 'r':
				out = append(out, '\r')
			case 't':
				out = append(out, '\t')
			case 'u':
				r, ok := hex4(p.b[p.i:])
				if !ok {
					return "", fmt.Errorf("bad \\u escape at offset %d", p.i)
				}
				p.i += 4
				if utf16.IsSurrogate(r) {
					var r2 rune
					ok2 := false
					if p.i+6 <= len(p.b) && p.b[p.i] == '\\' && p.b[p.i+1] == 'u' {
						r2, ok2 = hex4(p.b[p.i+2:])
					}
					if dec := utf16.DecodeRune(r, r2); ok2 && dec != utf8.RuneError {
						p.i += 6
						out = utf8.AppendRune(out, dec)
						break
					}
					p.loneSurrogate = true
					return "", fmt.Errorf("lone surrogate escape at offset %d", p.i)
				}
				out = utf8.AppendRune(out, r)
			default:
				return "", fmt.Errorf("bad escape \\%c at offset %d", e, p.i)
			}
		default:
			out = append(out, c)
			p.i++
		}
	}
}

// ErrClass buckets a ParseRaw error by what is wrong with the text.
func ErrClass(err error) string {
	if err == nil {
		return ""
	}
	m := err.Error()
	for _, c := range [][2]string{{"bare control character", "control-char-in-string"}, {"bad escape", "bad-escape"}, {"bad \\u escape", "bad-escape"}, {"lone surrogate", "lone-surrogate"},
		{"lone minus", "lone-minus"}, {"bad number", "bad-number"}, {"unterminated", "unterminated"}, {"unexpected end", "unterminated"}, {"bad literal", "bad-literal"}, {"trailing data", "trailing-data"}, {"duplicate member", "duplicate-member"},
		{"expected ',' or", "missing-separator"}, {"expected member name", "bad-member"}, {"expected ':'", "bad-member"}, {"unexpected byte", "unexpected-byte"}} {
		if len(m) >= len(c[0]) && contains(m, c[0]) {
			return c[1]
		}
	}
	return "other"
}

func contains(s, sub string) bool {
	for i := 0; i+len(sub) <= len(s); i++ {
		if s[i:i+len(sub)] == sub {
			return true
		}
	}
	return false
}
