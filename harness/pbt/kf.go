package pbt

import (
	"encoding/json"
	"os"
	"strings"
)

// Finding is one entry of /verif/known_findings.json.
type Finding struct {
	Property string `json:"property"`
	ID       string `json:"id"`
	Status   string `json:"status"` // "known" suppresses (region,symptom); "fixed" suppresses nothing
	Region   string `json:"region"`
	Symptom  string `json:"symptom"` // exact, or prefix when it ends in '*'
	What     string `json:"what"`
	Commit   string `json:"commit,omitempty"`
}

var findings []Finding

func loadKnown() {
	p := os.Getenv("VERIF_KF")
	if p == "" {
		p = "/verif/known_findings.json"
	}
	b, err := os.ReadFile(p)
	if err != nil {
		return
	}
	var f struct {
		Findings []Finding `json:"findings"`
	}
	if json.Unmarshal(b, &f) == nil {
		findings = f.Findings
	}
}

// IsKnown reports whether a failure of the given class is a listed, unrepaired finding.
func IsKnown(prop, region, symptom string) bool {
	for _, f := range findings {
		if f.Status != "known" || f.Property != prop || !matchPat(f.Region, region) {
			continue
		}
		for _, alt := range strings.Split(f.Symptom, "|") {
			if matchPat(alt, symptom) {
				return true
			}
		}
	}
	return false
}

// matchPat: glob match where '*' stands for any (possibly empty) text.
func matchPat(pat, s string) bool {
	parts := strings.Split(pat, "*")
	if len(parts) == 1 {
		return pat == s
	}
	if !strings.HasPrefix(s, parts[0]) {
		return false
	}
	s = s[len(parts[0]):]
	for _, mid := range parts[1 : len(parts)-1] {
		i := strings.Index(s, mid)
		if i < 0 {
			return false
		}
		s = s[i+len(mid):]
	}
	return strings.HasSuffix(s, parts[len(parts)-1])
}
