package pbt

import (
	"encoding/json"
	"os"
	"strings"
)

// Finding is one entry of /verif/known_findings.json.
type Finding struct {
	Property string `json:"property"`
	ID       string `json:"id"`
	Status   string `json:"status"` // "known" suppresses (region,symptom); "fixed" suppresses nothing
	Region   string `json:"region"`
	Symptom  string `json:"symptom"` // exact, or prefix when it ends in '*'
	What     string `json:"what"`
	Commit   string `json:"commit,omitempty"`
}

var findings []Finding

func loadKnown() {
	p := os.Getenv("VERIF_KF")
	if p == "" {
		p = "/verif/known_findings.json"
	}
	b, err := os.ReadFile(p)
	if err != nil {
		return
	}
	var f struct {
		Findings []Finding `json:"findings"`
	}
	if json.Unmarshal(b, &f) == nil {
		findings = f.Findings
	}
}

// IsKnown reports whether a failure of the given class is a listed, unrepaired finding.
func IsKnown(prop, region, symptom string) bool {
	for _, f := range findings {
		if f.Status != "known" || f.Property != prop || !matchPat(f.Region, region) {
			continue
		}
		for _, alt := range strings.Split(f.Symptom, "|") {
			if matchPat(alt, symptom) {
				return true
			}
		}
	}
	return false
}

// matchPat: exact match, or prefix match when the pattern ends in '*'.
func matchPat(pat, s string) bool {
	if strings.HasSuffix(pat, "*") {
		return strings.HasPrefix(s, strings.TrimSuffix(pat, "*"))
	}
	return pat == s
}
