package pbt

import (
	"bytes"
	"fmt"
	"sync"
)

// Concurrently runs f from n goroutines, k times each, and returns a description of the first call whose
// outcome differs from the outcome of the same call made alone (want, wantErr), or "". Panics are caught
// and described as well. f must be a pure function of shared read-only inputs and shared converters.
func Concurrently(n, k int, want []byte, wantErr bool, f func() ([]byte, error)) string {
	var wg sync.WaitGroup
	var mu sync.Mutex
	first := ""
	note := func(s string) {
		mu.Lock()
		if first == "" {
			first = s
		}
		mu.Unlock()
	}
	start := make(chan struct{})
	for g := 0; g < n; g++ {
		wg.Add(1)
		go func(g int) {
			defer wg.Done()
			defer func() {
				if r := recover(); r != nil {
					note(fmt.Sprintf("goroutine %d: panic: %v", g, r))
				}
			}()
			<-start
			for i := 0; i < k; i++ {
				out, err := f()
				if (err != nil) != wantErr {
					note(fmt.Sprintf("goroutine %d, call %d: err=%v, alone: failing=%v", g, i, err, wantErr))
					return
				}
				if err == nil && !bytes.Equal(out, want) {
					if len(out) > 300 {
						out = out[:300]
					}
					note(fmt.Sprintf("goroutine %d, call %d: %d bytes %q..., alone: %d bytes", g, i, len(out), out, len(want)))
					return
				}
			}
		}(g)
	}
	close(start)
	wg.Wait()
	return first
}
