// Package pbt is the shared runner of the /verif property checks.
//
// A property is split into: Gen (rapid generator producing a JSON-serialisable
// case), Check (pure function of the case, talks to dynamicgo and the oracle).
// The runner serialises every generated case, decodes it back (so the replay
// file is by construction sufficient to reproduce the run), executes Check
// under recover, consults the known-findings registry, accumulates evidence
// and writes replay files for failures.
package pbt

import (
	"encoding/binary"
	"encoding/json"
	"fmt"
	"hash/fnv"
	"os"
	"path/filepath"
	"runtime"
	"sort"
	"strings"
	"sync"
	"testing"

	"pgregory.net/rapid"
)

// Failure is raised (by panic) from Ctx.Fail for an unknown failure.
type Failure struct {
	Region  string `json:"region"`
	Symptom string `json:"symptom"`
	Msg     string `json:"msg"`
}

func (f *Failure) Error() string {
	return fmt.Sprintf("region=%q symptom=%q: %s", f.Region, f.Symptom, f.Msg)
}

// Ctx is handed to Check.
type Ctx struct {
	prop       string // property id, e.g. C01
	test       string
	classes    map[string]int
	nontrivial bool
	region     string // current region for panic attribution
	step       string // free text describing what is executing (for panic messages)
	known      []string
	quarantine int
}

// Class counts the case in a named class (distribution of the generator).
func (c *Ctx) Class(name string) { c.classes[name]++ }

// NonTrivial marks the case as non-trivial by the check's stated rule.
func (c *Ctx) NonTrivial() { c.nontrivial = true }

// Region sets the known-finding region used to attribute a panic raised by the
// code under test from here on ("" = none).
func (c *Ctx) Region(r string) { c.region = r }

// Step records what is being executed, for failure messages.
func (c *Ctx) Step(format string, a ...interface{}) {
	if len(a) == 0 {
		c.step = format
	} else {
		c.step = fmt.Sprintf(format, a...)
	}
}

// Fail reports an oracle failure. If (property, region, symptom) is a listed
// known finding the failure is counted and Fail returns true: the caller must
// then abandon whatever depended on the failed operation and go on. Otherwise
// Fail does not return (it unwinds to the runner, which reports a violation).
func (c *Ctx) Fail(region, symptom, format string, a ...interface{}) bool {
	msg := fmt.Sprintf(format, a...)
	if len(msg) > 3000 {
		msg = msg[:3000] + "...(truncated)"
	}
	if region != "" && IsKnown(c.prop, region, symptom) {
		c.noteKnown(region, symptom)
		return true
	}
	if surveyMode {
		// development aid (VERIF_SURVEY=1): never used by the registered commands
		c.classes["SURVEY-FAIL "+region+" | "+symptom]++
		surveyLog(c.prop, region+" | "+symptom, msg)
		return true
	}
	panic(&Failure{Region: region, Symptom: symptom, Msg: msg})
}

// Failf is Fail without region (always a violation).
func (c *Ctx) Failf(symptom, format string, a ...interface{}) {
	c.Fail("", symptom, format, a...)
}

func (c *Ctx) noteKnown(region, symptom string) {
	c.quarantine++
	c.known = append(c.known, region+"|"+symptom)
}

// Protect runs f; a panic inside it (other than a *Failure) is turned into a
// Fail with symptom "panic@<frame>" in the given region. Returns true when f
// completed normally, false when a known panic was swallowed.
func (c *Ctx) Protect(region string, f func()) (ok bool) {
	defer func() {
		if r := recover(); r != nil {
			if fl, isf := r.(*Failure); isf {
				panic(fl)
			}
			sym := "panic@" + topFrame()
			ok = false
			c.Fail(region, sym, "panic: %v (step: %s)", r, c.step)
		}
	}()
	f()
	return true
}

func topFrame() string {
	pcs := make([]uintptr, 64)
	n := runtime.Callers(3, pcs)
	frames := runtime.CallersFrames(pcs[:n])
	for {
		fr, more := frames.Next()
		if strings.Contains(fr.Function, "cloudwego/dynamicgo") {
			fn := fr.Function
			if i := strings.Index(fn, "cloudwego/dynamicgo/"); i >= 0 {
				fn = fn[i+len("cloudwego/dynamicgo/"):]
			}
			return fn
		}
		if !more {
			break
		}
	}
	return "unknown"
}

// ---------------------------------------------------------------------------

type propStats struct {
	Evaluations int               `json:"evaluations"`
	NonTrivial  int               `json:"nontrivial"`
	Classes     map[string]int    `json:"classes"`
	Samples     []json.RawMessage `json:"samples"`
	Known       map[string]int    `json:"known"`
	Quarantined int               `json:"quarantined_cases"`
	Failed      bool              `json:"failed"`
	FailMsg     string            `json:"fail_msg,omitempty"`
	Replay      string            `json:"replay,omitempty"`
	Exhaustive  bool              `json:"exhaustive,omitempty"`
	Rule        string            `json:"rule"`
	hashes      map[uint64]struct{}
}

var surveyMode = os.Getenv("VERIF_SURVEY") == "1"

var (
	surveyMu   sync.Mutex
	surveySeen = map[string]int{}
)

// surveyLog keeps the first messages of every failure class (development aid only).
func surveyLog(prop, class, msg string) {
	surveyMu.Lock()
	defer surveyMu.Unlock()
	surveySeen[class]++
	if surveySeen[class] > 4 {
		return
	}
	f, err := os.OpenFile(fmt.Sprintf("/verif/build/survey-%s-%s.log", prop, os.Getenv("VERIF_SHARD")), os.O_APPEND|os.O_CREATE|os.O_WRONLY, 0o644)
	if err != nil {
		return
	}
	defer f.Close()
	fmt.Fprintf(f, "=== %s\n%s\n\n", class, msg)
}

var (
	mu       sync.Mutex
	allStats = map[string]*propStats{}
	propID   string
)

// SetProperty declares the property id served by this test binary.
func SetProperty(id string) { propID = id }

func statsFor(test string) *propStats {
	mu.Lock()
	defer mu.Unlock()
	s := allStats[test]
	if s == nil {
		s = &propStats{Classes: map[string]int{}, Known: map[string]int{}, hashes: map[uint64]struct{}{}}
		allStats[test] = s
	}
	return s
}

// Prop describes one executable sub-property.
type Prop[C any] struct {
	Name  string // test name (unique inside the property)
	Rule  string // how cases are generated and what makes one non-trivial
	Gen   func(t *rapid.T) C
	Check func(c *Ctx, cs C)
}

var replayers = map[string]func(raw json.RawMessage) *Failure{}

// Register makes the prop available to TestReplay.
func Register[C any](p Prop[C]) Prop[C] {
	replayers[p.Name] = func(raw json.RawMessage) *Failure {
		var cs C
		if err := json.Unmarshal(raw, &cs); err != nil {
			return &Failure{Symptom: "replay-decode", Msg: err.Error()}
		}
		ctx := &Ctx{prop: propID, test: p.Name, classes: map[string]int{}}
		fl := runOne(ctx, p.Check, cs)
		for _, k := range ctx.known {
			fmt.Printf("KNOWN-FINDING-HIT %s\n", k)
		}
		return fl
	}
	return p
}

func runOne[C any](ctx *Ctx, check func(*Ctx, C), cs C) (fl *Failure) {
	defer func() {
		if r := recover(); r != nil {
			if f, ok := r.(*Failure); ok {
				fl = f
				return
			}
			sym := "panic@" + topFrame()
			msg := fmt.Sprintf("panic: %v (step: %s)", r, ctx.step)
			if ctx.region != "" && IsKnown(ctx.prop, ctx.region, sym) {
				ctx.noteKnown(ctx.region, sym)
				fl = nil
				return
			}
			buf := make([]byte, 4096)
			buf = buf[:runtime.Stack(buf, false)]
			fl = &Failure{Region: ctx.region, Symptom: sym, Msg: msg + "\n" + string(buf)}
		}
	}()
	check(ctx, cs)
	return nil
}

type replayFile struct {
	Property string          `json:"property"`
	Test     string          `json:"test"`
	Failure  *Failure        `json:"failure,omitempty"`
	Case     json.RawMessage `json:"case"`
}

var lastCaseFile *os.File

func writeLastCase(test string, raw []byte) {
	p := os.Getenv("VERIF_LASTCASE")
	if p == "" {
		return
	}
	if lastCaseFile == nil {
		f, err := os.OpenFile(p, os.O_CREATE|os.O_RDWR|os.O_TRUNC, 0o644)
		if err != nil {
			return
		}
		lastCaseFile = f
	}
	hdr := fmt.Sprintf("{\"property\":%q,\"test\":%q,\"case\":", propID, test)
	b := make([]byte, 0, len(hdr)+len(raw)+2)
	b = append(b, hdr...)
	b = append(b, raw...)
	b = append(b, '}', '\n')
	lastCaseFile.Truncate(0)
	lastCaseFile.WriteAt(b, 0)
}

func replayPath(test string) string {
	p := os.Getenv("VERIF_REPLAY_OUT")
	if p == "" {
		p = filepath.Join(os.TempDir(), "verif-replay-"+propID+"-"+test+".json")
	}
	return p
}

// Eval executes one concrete case through the full runner logic (used by
// Run for rapid-generated cases and by enumerations for systematic ones).
// It returns a non-nil Failure for an unknown failure.
func Eval[C any](p Prop[C], cs C) *Failure {
	st := statsFor(p.Name)
	st.Rule = p.Rule
	raw, err := json.Marshal(cs)
	if err != nil {
		return &Failure{Symptom: "harness-marshal", Msg: err.Error()}
	}
	var back C
	if err := json.Unmarshal(raw, &back); err != nil {
		return &Failure{Symptom: "harness-unmarshal", Msg: err.Error()}
	}
	writeLastCase(p.Name, raw)
	ctx := &Ctx{prop: propID, test: p.Name, classes: map[string]int{}}
	fl := runOne(ctx, p.Check, back)
	mu.Lock()
	st.Evaluations++
	for k, v := range ctx.classes {
		st.Classes[k] += v
	}
	if ctx.nontrivial {
		h := fnv.New64a()
		h.Write(raw)
		hv := h.Sum64()
		if _, dup := st.hashes[hv]; !dup {
			st.hashes[hv] = struct{}{}
			if len(st.Samples) < 5 && len(raw) < 40000 {
				st.Samples = append(st.Samples, json.RawMessage(raw))
			}
		}
	}
	if ctx.quarantine > 0 {
		st.Quarantined++
	}
	for _, k := range ctx.known {
		st.Known[k]++
	}
	mu.Unlock()
	if fl != nil {
		rf := replayFile{Property: propID, Test: p.Name, Failure: fl, Case: raw}
		b, _ := json.MarshalIndent(rf, "", " ")
		path := replayPath(p.Name)
		os.MkdirAll(filepath.Dir(path), 0o755)
		os.WriteFile(path, b, 0o644)
		mu.Lock()
		st.Failed = true
		st.FailMsg = fl.Error()
		st.Replay = path
		mu.Unlock()
	}
	return fl
}

var lastFailure *Failure

// Run drives the prop with rapid.
func Run[C any](t *testing.T, p Prop[C]) {
	defer func() {
		if t.Failed() && lastFailure != nil {
			t.Logf("minimal failing case: %s (replay file: %s)", lastFailure.Error(), replayPath(p.Name))
		}
	}()
	rapid.Check(t, func(rt *rapid.T) {
		cs := p.Gen(rt)
		if fl := Eval(p, cs); fl != nil {
			// constant message: rapid aborts shrinking when the same input yields
			// different messages (e.g. map iteration order in the details)
			lastFailure = fl
			rt.Fatalf("VIOLATION-CANDIDATE %s/%s", propID, p.Name)
		}
	})
}

// MarkExhaustive records that the named test enumerated its space completely.
func MarkExhaustive(test string) { statsFor(test).Exhaustive = true }

// AddEvaluations lets hand-written enumerations (that do not go through Eval
// for speed) account for their work. distinct = number of distinct non-trivial
// cases covered.
func AddEvaluations(test, rule string, n int, distinctNonTrivial []uint64, samples []interface{}) {
	st := statsFor(test)
	mu.Lock()
	defer mu.Unlock()
	st.Rule = rule
	st.Evaluations += n
	for _, h := range distinctNonTrivial {
		st.hashes[h] = struct{}{}
	}
	for _, s := range samples {
		if len(st.Samples) < 5 {
			b, _ := json.Marshal(s)
			st.Samples = append(st.Samples, b)
		}
	}
}

// ReportEnumFailure records a failure of a hand-written enumeration.
func ReportEnumFailure(test string, fl *Failure, cs interface{}) {
	raw, _ := json.Marshal(cs)
	rf := replayFile{Property: propID, Test: test, Failure: fl, Case: raw}
	b, _ := json.MarshalIndent(rf, "", " ")
	path := replayPath(test)
	os.MkdirAll(filepath.Dir(path), 0o755)
	os.WriteFile(path, b, 0o644)
	st := statsFor(test)
	mu.Lock()
	st.Failed = true
	st.FailMsg = fl.Error()
	st.Replay = path
	mu.Unlock()
}

// Main is called from TestMain of every property package.
func Main(m *testing.M, property string) {
	SetProperty(property)
	loadKnown()
	code := m.Run()
	flush()
	os.Exit(code)
}

func flush() {
	out := os.Getenv("VERIF_OUT")
	if out == "" {
		return
	}
	mu.Lock()
	defer mu.Unlock()
	type outT struct {
		Property string                `json:"property"`
		Tests    map[string]*propStats `json:"tests"`
	}
	o := outT{Property: propID, Tests: allStats}
	for _, s := range allStats {
		s.NonTrivial = len(s.hashes)
	}
	b, _ := json.Marshal(o)
	os.WriteFile(out, b, 0o644)
	// hashes sidecar: test name -> sorted hashes, binary
	names := make([]string, 0, len(allStats))
	for n := range allStats {
		names = append(names, n)
	}
	sort.Strings(names)
	for _, n := range names {
		s := allStats[n]
		buf := make([]byte, 0, 8*len(s.hashes))
		for h := range s.hashes {
			var x [8]byte
			binary.LittleEndian.PutUint64(x[:], h)
			buf = append(buf, x[:]...)
		}
		os.WriteFile(out+"."+n+".hashes", buf, 0o644)
	}
}

// Replay implements TestReplay for a property package.
func Replay(t *testing.T) {
	path := os.Getenv("VERIF_REPLAY")
	if path == "" {
		t.Skip("VERIF_REPLAY not set")
	}
	b, err := os.ReadFile(path)
	if err != nil {
		t.Fatalf("read replay: %v", err)
	}
	var rf replayFile
	if err := json.Unmarshal(b, &rf); err != nil {
		t.Fatalf("decode replay: %v", err)
	}
	fn := replayers[rf.Test]
	if fn == nil {
		t.Fatalf("no such test %q in %s", rf.Test, propID)
	}
	if fl := fn(rf.Case); fl != nil {
		fmt.Printf("REPLAY-FAIL %s/%s: %s\n", propID, rf.Test, fl.Error())
		t.Fatalf("replay reproduces failure: %s", fl.Error())
	}
	fmt.Printf("REPLAY-PASS %s/%s\n", propID, rf.Test)
}

// Hash64 is a helper for enumerations.
func Hash64(parts ...interface{}) uint64 {
	h := fnv.New64a()
	fmt.Fprint(h, parts...)
	return h.Sum64()
}

// GuardedBuf returns an empty buffer of the given capacity that is followed, in the same allocation,
// by 64 canary bytes; check reports a write beyond the capacity (out is the slice the callee left behind).
func GuardedBuf(capacity int) (buf []byte, check func(out []byte) string) {
	big := make([]byte, capacity+64)
	for i := capacity; i < len(big); i++ {
		big[i] = 0xA5
	}
	buf = big[0:0:capacity]
	return buf, func(out []byte) string {
		if len(out) > cap(out) {
			return fmt.Sprintf("returned slice has len %d > cap %d", len(out), cap(out))
		}
		for i := capacity; i < len(big); i++ {
			if big[i] != 0xA5 {
				return fmt.Sprintf("byte %d beyond the buffer's capacity %d was overwritten (%#x)", i-capacity, capacity, big[i])
			}
		}
		return ""
	}
}
