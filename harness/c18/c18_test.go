package c18

import (
	"bytes"
	"context"
	"fmt"
	"math"
	"os"
	"strconv"
	"testing"

	"github.com/cloudwego/dynamicgo/conv"
	"github.com/cloudwego/dynamicgo/conv/t2j"
	"github.com/cloudwego/dynamicgo/thrift"
	"github.com/cloudwego/dynamicgo/verifbridge"
	"pgregory.net/rapid"

	"verifharness/httpcheck"
	"verifharness/j2tcheck"
	"verifharness/jmodel"
	"verifharness/pbt"
	"verifharness/reqcheck"
	"verifharness/t2jcheck"
	tm "verifharness/tmodel"
)

var variant = os.Getenv("VERIF_VARIANT")

func TestMain(m *testing.M) {
	// the binary must really be the implementation the plan names
	if verifbridge.Variant != variant {
		fmt.Fprintf(os.Stderr, "C18: binary built as %q but run as variant %q\n", verifbridge.Variant, variant)
		os.Exit(2)
	}
	if variant != "portable" && verifbridge.Flavour() != variant {
		fmt.Fprintf(os.Stderr, "C18: variant %q requested, native flavour bound is %q\n", variant, verifbridge.Flavour())
		os.Exit(2)
	}
	j2tcheck.RegionPrefix = variant + ":"
	reqcheck.RegionPrefix = variant + ":"
	httpcheck.RegionPrefix = variant + ":"
	pbt.Main(m, "C18")
}

func TestReplay(t *testing.T) { pbt.Replay(t) }

var J2T = pbt.Register(j2tcheck.Prop("TestJSONToThrift"))

func TestJSONToThrift(t *testing.T) { pbt.Run(t, J2T) }

var T2J = pbt.Register(t2jcheck.Prop("TestThriftToJSON"))

func TestThriftToJSON(t *testing.T) { pbt.Run(t, T2J) }

var Deep = pbt.Register(j2tcheck.DeepProp("TestDeepNesting"))

func TestDeepNesting(t *testing.T) { pbt.Run(t, Deep) }

var Req = pbt.Register(reqcheck.Prop("TestRequirednessTable"))

func TestRequirednessTable(t *testing.T) { pbt.Run(t, Req) }

var HReq = pbt.Register(httpcheck.ReqProp("TestRequestMapping"))

func TestRequestMapping(t *testing.T) { pbt.Run(t, HReq) }

var HResp = pbt.Register(httpcheck.RespProp("TestResponseMapping"))

func TestResponseMapping(t *testing.T) { pbt.Run(t, HResp) }

// ---------------------------------------------------------------------------
// value skipping: Go and native skip must consume the same bytes, or both fail

type SkipCase struct {
	U      *tm.Universe `json:"u"`
	V      *tm.Value    `json:"v"`
	Mutate int          `json:"mutate"` // 0: well-formed; 1: truncated at Pos; 2: byte at Pos replaced by Byte
	Pos    int          `json:"pos"`
	Byte   byte         `json:"byte"`
}

func checkSkip(c *pbt.Ctx, cs SkipCase) {
	enc := tm.Encode(cs.V)
	data := append(make([]byte, 0, len(enc)+24), enc...)
	// trailing bytes that do not belong to the value
	data = append(data, 0x0b, 0x00, 0x01, 0x00, 0x00, 0x00, 0x01, 'x')
	limit := len(data)
	switch cs.Mutate {
	case 1:
		limit = cs.Pos % (len(enc) + 1)
		data = data[:limit]
	case 2:
		if len(enc) > 0 {
			data[cs.Pos%len(enc)] = cs.Byte
		}
	}
	// the value starts behind a few bytes that were read before (the cursor is not 0); BinaryProtocol.Skip ignores its
	// useNative argument (it always takes the Go path), so the two implementations are called directly
	pre := cs.Pos % 5
	data = append(append(make([]byte, 0, len(data)+pre+24), []byte{0x0b, 0x00, 0x01, 0x08, 0x00}[:pre]...), data...)
	run := func(native bool) (n int, err error, ok bool) {
		p := thrift.BinaryProtocol{Buf: data, Read: pre}
		ok = c.Protect("", func() {
			if native {
				err = p.SkipNative(thrift.Type(cs.U.Root.K), thrift.MaxSkipDepth)
			} else {
				err = p.SkipGo(thrift.Type(cs.U.Root.K), thrift.MaxSkipDepth)
			}
		})
		return p.Read - pre, err, ok
	}
	c.Step("Skip go")
	n1, e1, ok1 := run(false)
	c.Step("Skip native")
	n2, e2, ok2 := run(true)
	if !ok1 || !ok2 {
		return
	}
	// the statement quantifies over Thrift values: agreement is demanded where the bytes hold a well-formed value (the
	// original) and for truncations of one (both must fail);
	// for other byte soup each implementation only has to stay inside the input
	wellFormed := cs.Mutate == 0
	if cs.Mutate == 2 {
		wellFormed = bytes.Equal(data[pre:pre+len(enc)], enc) // the substituted byte was already there
	}
	for _, r := range []struct {
		n   int
		err error
		w   string
	}{{n1, e1, "SkipGo"}, {n2, e2, "SkipNative"}} {
		if r.err == nil && (r.n < 0 || r.n > len(data)-pre) {
			c.Failf("skip-overread", "%s reports %d bytes consumed of an input of %d", r.w, r.n, len(data)-pre)
			return
		}
	}
	if cs.Mutate == 1 && limit < len(enc) {
		if e1 == nil || e2 == nil {
			c.Failf("skip-disagree", "value truncated at %d of %d: SkipGo err=%v, SkipNative err=%v on %x", limit, len(enc), e1, e2, head(data))
			return
		}
	}
	if wellFormed {
		if (e1 == nil) != (e2 == nil) {
			c.Failf("skip-disagree", "SkipGo err=%v, SkipNative err=%v on %x", e1, e2, head(data))
			return
		}
		if e1 == nil && n1 != n2 {
			c.Failf("skip-disagree", "SkipGo consumed %d bytes, SkipNative %d, input %x", n1, n2, head(data))
			return
		}
	}
	if cs.Mutate == 0 {
		if e1 != nil || n1 != len(enc) {
			c.Failf("skip-wrong", "well-formed value of %d bytes: skip consumed %d, err=%v", len(enc), n1, e1)
			return
		}
		if tm.Count(cs.V) >= 4 {
			c.NonTrivial()
		}
	} else {
		c.NonTrivial()
		if e1 == nil {
			if n1 > limit {
				c.Failf("skip-overread", "skip reports %d bytes consumed of an input of %d", n1, limit)
				return
			}
			c.Class("mutated-still-skippable")
		} else {
			c.Class("mutated-rejected")
		}
	}
}

func head(b []byte) []byte {
	if len(b) > 200 {
		return b[:200]
	}
	return b
}

var Skip = pbt.Register(pbt.Prop[SkipCase]{
	Name: "TestSkipAgree",
	Rule: "generated Thrift values (all kinds, nesting, empty containers, struct map keys) followed by unrelated bytes; well-formed, truncated at any point, or with one byte replaced; BinaryProtocol.Skip with useNative=false and =true must both fail or consume the same number of bytes, exactly the value for well-formed input, never more than the input; non-trivial = well-formed value with >= 4 nodes or a mutated input",
	Gen: func(t *rapid.T) SkipCase {
		cfg := tm.GenCfg{MaxDepth: 3, Recursive: true, WireOrder: true, BigSizes: rapid.IntRange(0, 5).Draw(t, "big") == 0}
		u := tm.GenUniverse(t, cfg)
		v := tm.GenValue(t, u, u.Root, cfg)
		return SkipCase{U: u, V: v, Mutate: rapid.IntRange(0, 2).Draw(t, "mutate"), Pos: rapid.IntRange(0, 1<<20).Draw(t, "pos"),
			Byte: byte([]int{0, 1, 2, 3, 11, 12, 13, 14, 15, 16, 0x7f, 0x80, 0xff, rapid.IntRange(0, 255).Draw(t, "anyByte")}[rapid.IntRange(0, 13).Draw(t, "byteClass")])}
	},
	Check: checkSkip,
})

func TestSkipAgree(t *testing.T) { pbt.Run(t, Skip) }

// ---------------------------------------------------------------------------
// scalar text encoders against the standard library

type TextCase struct {
	Ints    []int64  `json:"ints"`
	Doubles []uint64 `json:"doubles"` // bit patterns (finite)
	Strs    [][]byte `json:"strs"`    // valid UTF-8
}

const textIDL = `struct T { 1: list<i64> i, 2: list<double> d, 3: list<string> s }
service Svc { T Call(1: T req) }`

func checkText(c *pbt.Ctx, cs TextCase) {
	comp, err := tm.Compile(textIDL, thrift.Options{})
	if err != nil {
		c.Failf("harness-idl", "%v", err)
	}
	v := &tm.Value{K: tm.STRUCT}
	iv := &tm.Value{K: tm.LIST, ET: tm.I64}
	for _, i := range cs.Ints {
		iv.Elems = append(iv.Elems, &tm.Value{K: tm.I64, I: i})
	}
	dv := &tm.Value{K: tm.LIST, ET: tm.DOUBLE}
	for _, d := range cs.Doubles {
		dv.Elems = append(dv.Elems, &tm.Value{K: tm.DOUBLE, F: d})
	}
	sv := &tm.Value{K: tm.LIST, ET: tm.STRING}
	for _, s := range cs.Strs {
		sv.Elems = append(sv.Elems, &tm.Value{K: tm.STRING, S: s})
	}
	v.Fields = []tm.FieldVal{{ID: 1, V: iv}, {ID: 2, V: dv}, {ID: 3, V: sv}}
	enc := tm.Encode(v)
	cv := t2j.NewBinaryConv(conv.Options{})
	var out []byte
	if !c.Protect("", func() { out, err = cv.Do(context.Background(), comp.Root, append(make([]byte, 0, len(enc)+16), enc...)) }) {
		return
	}
	if err != nil {
		c.Failf("t2j-error", "%v", err)
		return
	}
	n, perr := jmodel.ParseRaw(out)
	if perr != nil || n.K != jmodel.Obj || len(n.Vals) != 3 {
		c.Failf("bad-json", "%v: %s", perr, head(out))
		return
	}
	for k, e := range n.Vals[0].Elems {
		if e.K != jmodel.Num || e.Num != strconv.FormatInt(cs.Ints[k], 10) {
			c.Failf("int-text", "int64 %d printed as %q, strconv prints %q", cs.Ints[k], e.Num, strconv.FormatInt(cs.Ints[k], 10))
			return
		}
	}
	for k, e := range n.Vals[1].Elems {
		f, ferr := strconv.ParseFloat(e.Num, 64)
		if e.K != jmodel.Num || ferr != nil || math.Float64bits(f) != cs.Doubles[k] {
			c.Failf("float-text", "float64 %v (bits %#x) printed as %q which parses to bits %#x", math.Float64frombits(cs.Doubles[k]), cs.Doubles[k], e.Num, math.Float64bits(f))
			return
		}
	}
	for k, e := range n.Vals[2].Elems {
		if e.K != jmodel.Str || !bytes.Equal([]byte(e.Str), cs.Strs[k]) {
			c.Failf("string-text", "string %q quoted as something that parses back to %q", cs.Strs[k], e.Str)
			return
		}
	}
	c.NonTrivial()
}

var Text = pbt.Register(pbt.Prop[TextCase]{
	Name: "TestScalarText",
	Rule: "batches of int64 (boundaries, powers of two and ten +-1, random), finite float64 bit patterns (class table: zeros, subnormals, extremes, shortest-representation traps, random bits) and valid UTF-8 strings over an escape-relevant alphabet with lengths around 16/32/64/128/256/4096/8192, printed through t2j (list<i64>, list<double>, list<string>); integers must print exactly as strconv.FormatInt, doubles must parse back (strconv.ParseFloat) to the identical bits, strings must parse back (harness JSON reader) to the identical bytes; every case is non-trivial",
	Gen: func(t *rapid.T) TextCase {
		var cs TextCase
		for i, n := 0, rapid.IntRange(1, 40).Draw(t, "nInts"); i < n; i++ {
			cs.Ints = append(cs.Ints, tm.GenInt(t, tm.I64))
		}
		for i, n := 0, rapid.IntRange(1, 40).Draw(t, "nDoubles"); i < n; i++ {
			cs.Doubles = append(cs.Doubles, tm.GenDoubleBits(t, true))
		}
		for i, n := 0, rapid.IntRange(1, 6).Draw(t, "nStrs"); i < n; i++ {
			cs.Strs = append(cs.Strs, tm.GenString(t, true))
		}
		return cs
	},
	Check: checkText,
})

func TestScalarText(t *testing.T) { pbt.Run(t, Text) }

var Sweep = pbt.Register(reqcheck.SweepProp("TestCapacitySweep"))

func TestCapacitySweep(t *testing.T) { pbt.Run(t, Sweep) }

// t2j into caller buffers of every capacity: same text, no panic.
var T2JSweep = pbt.Register(t2jcheck.SweepProp("TestT2JCapacitySweep"))

func TestT2JCapacitySweep(t *testing.T) { pbt.Run(t, T2JSweep) }
