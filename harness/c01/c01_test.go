package c01

import (
	"bytes"
	"fmt"
	"math"
	"testing"
	"unsafe"

	"github.com/cloudwego/dynamicgo/thrift"
	"github.com/cloudwego/dynamicgo/thrift/generic"
	"pgregory.net/rapid"

	"verifharness/pbt"
	tm "verifharness/tmodel"
)

func TestMain(m *testing.M) { pbt.Main(m, "C01") }
func TestReplay(t *testing.T) { pbt.Replay(t) }

type Opts struct {
	ClearDirty      bool `json:"clear_dirty"`
	UseNativeSkip   bool `json:"use_native_skip"`
	MapStructById   bool `json:"map_struct_by_id"`
	CastStrAsBinary bool `json:"cast_str_as_binary"`
	IterByName      bool `json:"iter_by_name"`
	NativeSkipGet   bool `json:"native_skip_for_get"`
}

type Case struct {
	U    *tm.Universe `json:"u"`
	V    *tm.Value    `json:"v"`
	O    Opts         `json:"o"`
	Pick uint64       `json:"pick"` // seed for sub-sampling nodes and drawing absent / wrong-kind paths
}

type lcg uint64

func (l *lcg) n(k int) int {
	*l = *l*6364136223846793005 + 1442695040888963407
	if k <= 0 {
		return 0
	}
	return int((uint64(*l) >> 33) % uint64(k))
}

// ---- path construction

func keyPath(k *tm.Value, variant int) (generic.Path, bool) {
	switch {
	case k.K == tm.STRING && variant == 0:
		return generic.NewPathStrKey(string(k.S)), true
	case k.K.IsInt() && variant == 0:
		ki := int(k.I)
		if k.K == tm.BYTE {
			ki = int(uint8(k.I)) // the generic API models BYTE as uint8 (see TestCastInt8 in the repository)
		}
		return generic.NewPathIntKey(ki), true
	}
	return generic.NewPathBinKey(tm.EncodeValue(k)), true
}

func stepPath(s tm.Step, variant int) generic.Path {
	switch s.Kind {
	case 'f':
		return generic.NewPathFieldId(thrift.FieldID(s.ID))
	case 'i':
		return generic.NewPathIndex(s.Index)
	}
	p, _ := keyPath(s.Key, variant)
	return p
}

func untypedPath(path []tm.Step, variant int) []generic.Path {
	out := make([]generic.Path, len(path))
	for i, s := range path {
		out[i] = stepPath(s, variant)
	}
	return out
}

func fieldKey(fd *tm.FieldDef) string {
	if fd.Alias != "" {
		return fd.Alias
	}
	return fd.Name
}

// namePath: like untypedPath but struct steps by field key (typed API only).
func namePath(u *tm.Universe, root *tm.Type, path []tm.Step) []generic.Path {
	out := make([]generic.Path, len(path))
	ty := root
	for i, s := range path {
		switch s.Kind {
		case 'f':
			fd := u.Struct(ty.Ref).Field(s.ID)
			out[i] = generic.NewPathFieldName(fieldKey(fd))
			ty = fd.T
		default:
			out[i] = stepPath(s, 0)
			ty = ty.Elem
		}
	}
	return out
}

// ---- oracle helpers

type env struct {
	c    *pbt.Ctx
	base uintptr
	buf  []byte
}

func (e *env) window(n generic.Node) (int, int, bool) {
	raw := n.Raw()
	if len(raw) == 0 {
		return 0, 0, false
	}
	off := uintptr(unsafe.Pointer(&raw[0])) - e.base
	return int(off), int(off) + len(raw), true
}

func pathStr(p []generic.Path) string {
	s := ""
	for _, x := range p {
		s += "/" + x.String()
	}
	if s == "" {
		s = "/"
	}
	return s
}

// checkNode verifies that n is exactly the model node m.
func (e *env) checkNode(what string, ps string, n generic.Node, m *tm.Value) {
	c := e.c
	if n.IsError() {
		c.Failf("present-reported-error:"+what, "%s %s: element exists (%s) but result is an error: %v", what, ps, m.Short(), n.Error())
	}
	if n.Type() != thrift.Type(m.K) {
		c.Failf("wrong-type:"+what, "%s %s: type %v want %v", what, ps, n.Type(), m.K)
	}
	s, en, ok := e.window(n)
	if !ok || s != m.Start || en != m.End {
		c.Failf("wrong-span:"+what, "%s %s: byte span [%d,%d) want [%d,%d) (%s)", what, ps, s, en, m.Start, m.End, m.Short())
	}
	switch m.K {
	case tm.LIST, tm.SET:
		if len(m.Elems) > 0 && n.ElemType() != thrift.Type(m.ET) {
			c.Failf("wrong-elemtype:"+what, "%s %s: ElemType %v want %v", what, ps, n.ElemType(), m.ET)
		}
		if l, err := n.Len(); err != nil || l != len(m.Elems) {
			c.Failf("wrong-len:"+what, "%s %s: Len()=%d,%v want %d", what, ps, l, err, len(m.Elems))
		}
	case tm.MAP:
		if len(m.Elems) > 0 && (n.ElemType() != thrift.Type(m.ET) || n.KeyType() != thrift.Type(m.KT)) {
			c.Failf("wrong-elemtype:"+what, "%s %s: Key/ElemType %v,%v want %v,%v", what, ps, n.KeyType(), n.ElemType(), m.KT, m.ET)
		}
		if l, err := n.Len(); err != nil || l != len(m.Elems) {
			c.Failf("wrong-len:"+what, "%s %s: Len()=%d,%v want %d", what, ps, l, err, len(m.Elems))
		}
	case tm.BOOL:
		if v, err := n.Bool(); err != nil || v != m.B {
			c.Failf("wrong-value:"+what, "%s %s: Bool()=%v,%v want %v", what, ps, v, err, m.B)
		}
	case tm.BYTE:
		if v, err := n.Byte(); err != nil || v != byte(m.I) {
			c.Failf("wrong-value:"+what, "%s %s: Byte()=%v,%v want %v", what, ps, v, err, byte(m.I))
		}
		if v, err := n.Int(); err != nil || v != int(uint8(m.I)) {
			c.Failf("wrong-value:"+what, "%s %s: Int()=%v,%v want %v", what, ps, v, err, int(uint8(m.I)))
		}
	case tm.I16, tm.I32, tm.I64:
		if v, err := n.Int(); err != nil || v != int(m.I) {
			c.Failf("wrong-value:"+what, "%s %s: Int()=%v,%v want %v", what, ps, v, err, m.I)
		}
	case tm.DOUBLE:
		if v, err := n.Float64(); err != nil || math.Float64bits(v) != m.F {
			c.Failf("wrong-value:"+what, "%s %s: Float64() bits %x,%v want %x", what, ps, math.Float64bits(v), err, m.F)
		}
	case tm.STRING:
		if v, err := n.String(); err != nil || v != string(m.S) {
			c.Failf("wrong-value:"+what, "%s %s: String()=%q,%v want %q", what, ps, v, err, m.S)
		}
		if v, err := n.Binary(); err != nil || !bytes.Equal(v, m.S) {
			c.Failf("wrong-value:"+what, "%s %s: Binary()=%x,%v want %x", what, ps, v, err, m.S)
		}
	}
}

func (e *env) mustErr(region, what string, ps string, n generic.Node, needNotFound bool) {
	if !n.IsError() {
		e.c.Fail(region, "absent-reported-present:"+what, "%s %s: no such element, but the result is a node of type %v (%d bytes)", what, ps, n.Type(), len(n.Raw()))
		return
	}
	if needNotFound && !n.IsErrNotFound() {
		e.c.Fail(region, "absent-not-notfound:"+what, "%s %s: absent element must be reported as not-found, got: %v", what, ps, n.Error())
	}
}

// ---- the check

type nodeInfo struct {
	path   []tm.Step
	node   *tm.Value
	parent *tm.Value
}

func check(c *pbt.Ctx, cs Case) {
	comp, err := tm.CompileUniverse(cs.U, thrift.Options{})
	if err != nil {
		c.Failf("idl-error", "dynamicgo rejects generated IDL: %v\n%s", err, cs.U.Render())
	}
	v := cs.V
	enc := tm.Encode(v)
	// spare capacity: the library keeps one-past-the-end pointers in not-found nodes (base+len), which must stay inside the allocation
	buf := append(make([]byte, 0, len(enc)+16), enc...)
	e := &env{c: c, base: uintptr(unsafe.Pointer(&buf[0])), buf: buf}
	saved := generic.UseNativeSkipForGet
	generic.UseNativeSkipForGet = cs.O.NativeSkipGet
	defer func() { generic.UseNativeSkipForGet = saved }()
	opts := &generic.Options{ClearDirtyValues: cs.O.ClearDirty, UseNativeSkip: cs.O.UseNativeSkip, MapStructById: cs.O.MapStructById,
		CastStringAsBinary: cs.O.CastStrAsBinary, IterateStructByName: cs.O.IterByName}

	root := generic.NewNode(thrift.Type(v.K), buf)
	troot := generic.NewValue(comp.Root, buf)
	rnd := lcg(cs.Pick | 1)

	var nodes []nodeInfo
	tm.Walk(v, func(p []tm.Step, n *tm.Value, par *tm.Value) {
		nodes = append(nodes, nodeInfo{append([]tm.Step{}, p...), n, par})
	})
	// sub-sample when large: always first, last, deepest
	sel := nodes
	if len(nodes) > 200 {
		sel = []nodeInfo{nodes[0], nodes[len(nodes)-1]}
		deep := nodes[0]
		for _, x := range nodes {
			if len(x.path) > len(deep.path) {
				deep = x
			}
		}
		sel = append(sel, deep)
		for i := 0; i < 150; i++ {
			sel = append(sel, nodes[rnd.n(len(nodes))])
		}
		c.Class("subsampled")
	}
	if tm.Depth(v) >= 2 {
		for _, x := range nodes {
			if x.node.K.IsContainer() && len(x.node.Elems) >= 2 || x.node.K == tm.STRUCT && len(x.node.Fields) >= 2 {
				c.NonTrivial()
				break
			}
		}
	}

	// ---------------- A. every present element
	for _, x := range sel {
		for variant := 0; variant < 2; variant++ {
			up := untypedPath(x.path, variant)
			ps := pathStr(up)
			c.Step("Node.GetByPath %s", ps)
			e.checkNode("Node.GetByPath", ps, root.GetByPath(up...), x.node)
			c.Step("Value.GetByPath %s", ps)
			tv := troot.GetByPath(up...)
			e.checkNode("Value.GetByPath", ps, tv.Node, x.node)
		}
		np := namePath(cs.U, cs.U.Root, x.path)
		c.Step("Value.GetByPath(names) %s", pathStr(np))
		e.checkNode("Value.GetByPath(name)", pathStr(np), troot.GetByPath(np...).Node, x.node)

		// step-wise API along the same path
		cur, tcur := root, troot
		ty := cs.U.Root
		ok := true
		for i, s := range x.path {
			c.Step("stepwise %s step %d", pathStr(untypedPath(x.path, 0)), i)
			switch s.Kind {
			case 'f':
				fd := cs.U.Struct(ty.Ref).Field(s.ID)
				cur = cur.Field(thrift.FieldID(s.ID))
				if rnd.n(2) == 0 {
					tcur = tcur.Field(thrift.FieldID(s.ID))
				} else {
					tcur = tcur.FieldByName(fieldKey(fd))
				}
				ty = fd.T
			case 'i':
				cur = cur.Index(s.Index)
				tcur = tcur.Index(s.Index)
				ty = ty.Elem
			case 'k':
				switch {
				case s.Key.K == tm.STRING && rnd.n(2) == 0:
					cur = cur.GetByStr(string(s.Key.S))
					tcur = tcur.GetByStr(string(s.Key.S))
				case s.Key.K.IsInt() && rnd.n(2) == 0:
					ki := int(s.Key.I)
					if s.Key.K == tm.BYTE {
						ki = int(uint8(s.Key.I))
					}
					cur = cur.GetByInt(ki)
					tcur = tcur.GetByInt(ki)
				default:
					cur = cur.GetByRaw(tm.EncodeValue(s.Key))
					tcur = generic.Value{Node: tcur.GetByRaw(tm.EncodeValue(s.Key)), Desc: tcur.Desc.Elem()} // Value has no GetByRaw of its own
				}
				ty = ty.Elem
			}
			if cur.IsError() || tcur.IsError() {
				c.Failf("present-reported-error:stepwise", "step-wise access along %s fails at step %d: node err=%q value err=%q", pathStr(untypedPath(x.path, 0)), i, cur.Error(), tcur.Error())
				ok = false
				break
			}
		}
		if ok {
			e.checkNode("stepwise(Node)", pathStr(untypedPath(x.path, 0)), cur, x.node)
			e.checkNode("stepwise(Value)", pathStr(untypedPath(x.path, 0)), tcur.Node, x.node)
		}
	}

	// ---------------- B/C. absent and wrong-kind paths below sampled containers
	var conts []nodeInfo
	for _, x := range nodes {
		if x.node.K == tm.STRUCT || x.node.K.IsContainer() {
			conts = append(conts, x)
		}
	}
	for k := 0; k < 12 && len(conts) > 0; k++ {
		x := conts[rnd.n(len(conts))]
		checkAbsent(e, cs, root, troot, x, &rnd)
		checkWrongKind(e, cs, root, troot, x, &rnd)
	}
	// scalars: anything below a scalar is an error
	for k := 0; k < 4; k++ {
		x := nodes[rnd.n(len(nodes))]
		if x.node.K == tm.STRUCT || x.node.K.IsContainer() {
			continue
		}
		c.Class("path-below-scalar")
		for _, extra := range []generic.Path{generic.NewPathFieldId(1), generic.NewPathIndex(0), generic.NewPathStrKey("a"), generic.NewPathIntKey(1), generic.NewPathBinKey([]byte{0})} {
			up := append(untypedPath(x.path, 0), extra)
			ps := pathStr(up)
			c.Step("below scalar %s", ps)
			c.Protect("path-below-scalar", func() {
				e.mustErr("path-below-scalar", "Node.GetByPath", ps, root.GetByPath(up...), false)
			})
			c.Protect("path-below-scalar-typed", func() {
				e.mustErr("path-below-scalar-typed", "Value.GetByPath", ps, troot.GetByPath(up...).Node, false)
			})
		}
	}

	// ---------------- D..G per sampled container
	for k := 0; k < 10 && len(conts) > 0; k++ {
		x := conts[rnd.n(len(conts))]
		if k == 0 {
			x = conts[0]
		}
		up := untypedPath(x.path, 0)
		n := root.GetByPath(up...)
		tv := troot.GetByPath(up...)
		if n.IsError() || tv.IsError() {
			continue // already reported in A
		}
		ty := tm.TypeAt(cs.U, cs.U.Root, x.path)
		checkForeach(e, cs, opts, n, tv, x, ty)
		checkMany(e, cs, opts, n, x, &rnd)
		checkDeepTree(e, cs, opts, n, x, &rnd)
		checkChildren(e, cs, opts, n, x)
		checkInterface(e, cs, opts, n, tv, x)
	}
}

func childCount(m *tm.Value) int {
	if m.K == tm.STRUCT {
		return len(m.Fields)
	}
	return len(m.Elems)
}

// absentStep returns a path step that addresses no element of container m.
func absentStep(m *tm.Value, rnd *lcg) (generic.Path, string, bool) {
	switch m.K {
	case tm.STRUCT:
		used := map[int16]bool{}
		mx := int16(0)
		for _, f := range m.Fields {
			used[f.ID] = true
			if f.ID > mx {
				mx = f.ID
			}
		}
		cands := []int16{mx + 1, 1, 32767, mx / 2, int16(rnd.n(300) + 1)}
		for _, f := range m.Fields {
			cands = append(cands, f.ID+1, f.ID-1)
		}
		for i := 0; i < 8; i++ {
			id := cands[rnd.n(len(cands))]
			if id > 0 && !used[id] {
				return generic.NewPathFieldId(thrift.FieldID(id)), "struct", true
			}
		}
	case tm.LIST, tm.SET:
		idx := len(m.Elems) + []int{0, 0, 1, 5, 1 << 20, math.MaxInt32}[rnd.n(6)]
		return generic.NewPathIndex(idx), "list", true
	case tm.MAP:
		if len(m.Elems) == 0 {
			switch {
			case m.KT == tm.STRING:
				return generic.NewPathStrKey("nope"), "map", true
			case m.KT.IsInt():
				return generic.NewPathIntKey(7), "map", true
			case m.KT == tm.DOUBLE:
				return generic.NewPathBinKey(make([]byte, 8)), "map", true
			case m.KT == tm.BOOL:
				return generic.NewPathBinKey([]byte{1}), "map", true
			}
			return generic.NewPathBinKey([]byte{0}), "map", true
		}
		if (m.KT == tm.BYTE || m.KT == tm.I16 || m.KT == tm.I32) && rnd.n(3) == 0 {
			// an integer outside the key type's range that is congruent to a present key modulo 2^width: no such key
			k := m.Keys[rnd.n(len(m.Keys))]
			width := map[tm.Kind]uint{tm.BYTE: 8, tm.I16: 16, tm.I32: 32}[m.KT]
			v := k.I
			if m.KT == tm.BYTE {
				v = int64(uint8(k.I))
			}
			v += []int64{1, -1, 2, 3}[rnd.n(4)] << width
			return generic.NewPathIntKey(int(v)), "map-key-out-of-range", true
		}
		for i := 0; i < 8; i++ {
			k := m.Keys[rnd.n(len(m.Keys))].Clone()
			switch k.K {
			case tm.STRING:
				k.S = append(k.S, 'x')
			case tm.BYTE:
				k.I = int64(int8(k.I + 1 + int64(rnd.n(5))))
			case tm.I16:
				k.I = int64(int16(k.I + 1 + int64(rnd.n(5))))
			case tm.I32:
				k.I = int64(int32(k.I + 1 + int64(rnd.n(5))))
			case tm.I64:
				k.I = k.I + 1 + int64(rnd.n(5))
			case tm.DOUBLE:
				k.F ^= 1 << uint(rnd.n(52))
			case tm.BOOL:
				k.B = !k.B
			default:
				continue
			}
			if m.KeyIndex(k) < 0 {
				p, _ := keyPath(k, rnd.n(2))
				return p, "map", true
			}
		}
	}
	return generic.Path{}, "", false
}

func checkAbsent(e *env, cs Case, root generic.Node, troot generic.Value, x nodeInfo, rnd *lcg) {
	c := e.c
	ap, kind, ok := absentStep(x.node, rnd)
	if !ok {
		return
	}
	c.Class("absent-last:" + kind)
	up := append(untypedPath(x.path, 0), ap)
	ps := pathStr(up)
	c.Step("absent-last %s", ps)
	region := ""
	if kind == "struct" {
		region = "" // typed: the id is undeclared as well, see wrong-kind (undeclared) below
	}
	e.mustErr(region, "Node.GetByPath", ps, root.GetByPath(up...), true)
	// step-wise getters on the container itself
	n := root.GetByPath(untypedPath(x.path, 0)...)
	if !n.IsError() {
		switch ap.Type() {
		case generic.PathFieldId:
			e.mustErr("", "Node.Field", ps, n.Field(ap.Id()), false)
		case generic.PathIndex:
			e.mustErr("", "Node.Index", ps, n.Index(ap.Int()), false)
		case generic.PathStrKey:
			if x.node.KT == tm.STRING || len(x.node.Elems) == 0 {
				e.mustErr("", "Node.GetByStr", ps, n.GetByStr(ap.Str()), false)
			}
		case generic.PathIntKey:
			e.mustErr("", "Node.GetByInt", ps, n.GetByInt(ap.Int()), false)
		case generic.PathBinKey:
			e.mustErr("", "Node.GetByRaw", ps, n.GetByRaw(ap.Bin()), false)
		}
	}
	// typed: an absent list index / map key is declared by the descriptor, so the typed API must agree
	if kind != "struct" {
		c.Protect("", func() {
			e.mustErr("", "Value.GetByPath", ps, troot.GetByPath(up...).Node, true)
		})
	} else {
		// absent-but-declared field: pick a declared field that the value does not carry
		ty := tm.TypeAt(cs.U, cs.U.Root, x.path)
		if ty != nil && ty.K == tm.STRUCT {
			for _, fd := range cs.U.Struct(ty.Ref).Fields {
				if x.node.Field(fd.ID) == nil {
					c.Class("absent-declared-field")
					p2 := append(untypedPath(x.path, 0), generic.NewPathFieldId(thrift.FieldID(fd.ID)))
					e.mustErr("", "Value.GetByPath", pathStr(p2), troot.GetByPath(p2...).Node, true)
					p3 := append(namePath(cs.U, cs.U.Root, x.path), generic.NewPathFieldName(fieldKey(&fd)))
					e.mustErr("", "Value.GetByPath(name)", pathStr(p3), troot.GetByPath(p3...).Node, true)
					tv := troot.GetByPath(untypedPath(x.path, 0)...)
					if !tv.IsError() {
						e.mustErr("", "Value.FieldByName", pathStr(p3), tv.FieldByName(fieldKey(&fd)).Node, false)
						e.mustErr("", "Value.Field", pathStr(p2), tv.Field(thrift.FieldID(fd.ID)).Node, false)
					}
					break
				}
			}
		}
	}
	// absent-inner: continue below the absent element
	c.Class("absent-inner")
	for _, extra := range []generic.Path{generic.NewPathFieldId(1), generic.NewPathIndex(0), generic.NewPathStrKey("a")} {
		up2 := append(append([]generic.Path{}, up...), extra)
		c.Step("absent-inner %s", pathStr(up2))
		c.Protect("absent-inner", func() {
			e.mustErr("absent-inner", "Node.GetByPath", pathStr(up2), root.GetByPath(up2...), false)
		})
	}
}

func checkWrongKind(e *env, cs Case, root generic.Node, troot generic.Value, x nodeInfo, rnd *lcg) {
	c := e.c
	m := x.node
	var wrong []generic.Path
	var names []string
	add := func(name string, p generic.Path) { wrong = append(wrong, p); names = append(names, name) }
	switch m.K {
	case tm.STRUCT:
		add("index-on-struct", generic.NewPathIndex(0))
		add("strkey-on-struct", generic.NewPathStrKey("a"))
		add("intkey-on-struct", generic.NewPathIntKey(1))
		add("binkey-on-struct", generic.NewPathBinKey([]byte{0, 0, 0, 1}))
	case tm.LIST, tm.SET:
		add("field-on-list", generic.NewPathFieldId(1))
		add("strkey-on-list", generic.NewPathStrKey("a"))
		add("intkey-on-list", generic.NewPathIntKey(0))
		add("negative-index", generic.NewPathIndex(-1-rnd.n(3)))
	case tm.MAP:
		add("field-on-map", generic.NewPathFieldId(1))
		add("index-on-map", generic.NewPathIndex(0))
		if len(m.Elems) > 0 && m.KT != tm.STRING {
			add("strkey-on-nonstr-map", generic.NewPathStrKey("a"))
		}
		if len(m.Elems) > 0 && !m.KT.IsInt() {
			add("intkey-on-nonint-map", generic.NewPathIntKey(1))
		}
	}
	for i, wp := range wrong {
		c.Class("wrong-kind:" + names[i])
		up := append(untypedPath(x.path, 0), wp)
		ps := pathStr(up)
		regionU := "wrongkind-untyped:" + names[i]
		regionT := "wrongkind-typed:" + names[i]
		c.Step("wrong-kind %s (%s)", ps, names[i])
		c.Protect(regionU, func() {
			e.mustErr(regionU, "Node.GetByPath", ps, root.GetByPath(up...), false)
		})
		c.Protect(regionT, func() {
			e.mustErr(regionT, "Value.GetByPath", ps, troot.GetByPath(up...).Node, false)
		})
		// step-wise getters of the wrong kind on the container
		n := root.GetByPath(untypedPath(x.path, 0)...)
		if n.IsError() {
			continue
		}
		regionS := "wrongkind-stepwise:" + names[i]
		c.Protect(regionS, func() {
			switch wp.Type() {
			case generic.PathFieldId:
				e.mustErr(regionS, "Node.Field", ps, n.Field(wp.Id()), false)
			case generic.PathIndex:
				e.mustErr(regionS, "Node.Index", ps, n.Index(wp.Int()), false)
			case generic.PathStrKey:
				e.mustErr(regionS, "Node.GetByStr", ps, n.GetByStr(wp.Str()), false)
			case generic.PathIntKey:
				e.mustErr(regionS, "Node.GetByInt", ps, n.GetByInt(wp.Int()), false)
			}
		})
	}
	// typed API: names / ids the descriptor does not declare
	if m.K == tm.STRUCT {
		ty := tm.TypeAt(cs.U, cs.U.Root, x.path)
		if ty == nil || ty.K != tm.STRUCT {
			return
		}
		sd := cs.U.Struct(ty.Ref)
		c.Class("wrong-kind:undeclared")
		np := append(namePath(cs.U, cs.U.Root, x.path), generic.NewPathFieldName("no_such_field_name"))
		c.Protect("typed-undeclared-name", func() {
			e.mustErr("typed-undeclared-name", "Value.GetByPath(name)", pathStr(np), troot.GetByPath(np...).Node, false)
		})
		for id := int16(1); id < 400; id++ {
			if sd.Field(id) == nil {
				ip := append(untypedPath(x.path, 0), generic.NewPathFieldId(thrift.FieldID(id)))
				c.Step("typed undeclared id %s", pathStr(ip))
				c.Protect("typed-undeclared-id", func() {
					e.mustErr("typed-undeclared-id", "Value.GetByPath", pathStr(ip), troot.GetByPath(ip...).Node, false)
				})
				tv := troot.GetByPath(untypedPath(x.path, 0)...)
				if !tv.IsError() {
					c.Protect("typed-undeclared-id-field", func() {
						e.mustErr("typed-undeclared-id-field", "Value.Field", pathStr(ip), tv.Field(thrift.FieldID(id)).Node, false)
					})
					c.Protect("typed-undeclared-name-field", func() {
						e.mustErr("typed-undeclared-name-field", "Value.FieldByName", pathStr(np), tv.FieldByName("no_such_field_name").Node, false)
					})
				}
				break
			}
		}
	}
}

// modelChildren lists the children of a container in wire order with their expected path.
type mchild struct {
	step tm.Step
	node *tm.Value
}

func modelChildren(m *tm.Value) []mchild {
	var out []mchild
	switch m.K {
	case tm.STRUCT:
		for i := range m.Fields {
			out = append(out, mchild{tm.Step{Kind: 'f', ID: m.Fields[i].ID, Index: i}, m.Fields[i].V})
		}
	case tm.LIST, tm.SET:
		for i, el := range m.Elems {
			out = append(out, mchild{tm.Step{Kind: 'i', Index: i}, el})
		}
	case tm.MAP:
		for i, el := range m.Elems {
			out = append(out, mchild{tm.Step{Kind: 'k', Index: i, Key: m.Keys[i]}, el})
		}
	}
	return out
}

// pathMatches checks a path delivered by iteration against the model step.
func pathMatches(p generic.Path, s tm.Step, fd *tm.FieldDef, byName bool) bool {
	switch s.Kind {
	case 'f':
		if byName && fd != nil {
			return p.Type() == generic.PathFieldName && p.Str() == fd.Name
		}
		return p.Type() == generic.PathFieldId && p.Id() == thrift.FieldID(s.ID)
	case 'i':
		return p.Type() == generic.PathIndex && p.Int() == s.Index
	}
	k := s.Key
	switch {
	case k.K == tm.STRING:
		return p.Type() == generic.PathStrKey && p.Str() == string(k.S)
	case k.K.IsInt():
		ki := int(k.I)
		if k.K == tm.BYTE {
			ki = int(uint8(k.I))
		}
		return p.Type() == generic.PathIntKey && p.Int() == ki
	}
	return p.Type() == generic.PathBinKey && bytes.Equal(p.Bin(), tm.EncodeValue(k))
}

func checkForeach(e *env, cs Case, opts *generic.Options, n generic.Node, tv generic.Value, x nodeInfo, ty *tm.Type) {
	c := e.c
	kids := modelChildren(x.node)
	ps := pathStr(untypedPath(x.path, 0))
	c.Class("foreach:" + x.node.K.String())
	// untyped, full
	i := 0
	c.Step("Node.Foreach %s", ps)
	err := n.Foreach(func(p generic.Path, ch generic.Node) bool {
		if i >= len(kids) {
			c.Failf("foreach-extra", "Node.Foreach %s delivers more than %d children", ps, len(kids))
		}
		if !pathMatches(p, kids[i].step, nil, false) {
			c.Failf("foreach-path", "Node.Foreach %s child %d: path %s does not address the %dth child in wire order", ps, i, p.String(), i)
		}
		e.checkNode("Node.Foreach", ps+"/"+p.String(), ch, kids[i].node)
		i++
		return true
	}, opts)
	if err != nil || i != len(kids) {
		c.Failf("foreach-count", "Node.Foreach %s: visited %d of %d children, err=%v", ps, i, len(kids), err)
	}
	// early stop
	if len(kids) >= 2 {
		stopAt := len(kids) / 2
		j := 0
		n.Foreach(func(p generic.Path, ch generic.Node) bool { j++; return j <= stopAt }, opts)
		if j != stopAt+1 {
			c.Failf("foreach-stop", "Node.Foreach %s: handler returned false at call %d but %d calls were made", ps, stopAt+1, j)
		}
	}
	// typed
	var sd *tm.StructDef
	if ty != nil && ty.K == tm.STRUCT {
		sd = cs.U.Struct(ty.Ref)
	}
	i = 0
	c.Step("Value.Foreach %s", ps)
	err = tv.Foreach(func(p generic.Path, ch generic.Value) bool {
		if i >= len(kids) {
			c.Failf("foreach-extra", "Value.Foreach %s delivers more than %d children", ps, len(kids))
		}
		var fd *tm.FieldDef
		if sd != nil {
			fd = sd.Field(kids[i].step.ID)
		}
		if !pathMatches(p, kids[i].step, fd, opts.IterateStructByName) {
			c.Failf("foreach-path", "Value.Foreach %s child %d: path %s (byName=%v)", ps, i, p.String(), opts.IterateStructByName)
		}
		e.checkNode("Value.Foreach", ps+"/"+p.String(), ch.Node, kids[i].node)
		i++
		return true
	}, opts)
	if err != nil || i != len(kids) {
		c.Failf("foreach-count", "Value.Foreach %s: visited %d of %d children, err=%v", ps, i, len(kids), err)
	}
	if x.node.K == tm.MAP {
		i = 0
		c.Step("Node.ForeachKV %s", ps)
		err = n.ForeachKV(func(k generic.Node, ch generic.Node) bool {
			if i >= len(kids) {
				c.Failf("foreach-extra", "Node.ForeachKV %s delivers more than %d entries", ps, len(kids))
			}
			e.checkNode("Node.ForeachKV(key)", ps, k, kids[i].step.Key)
			e.checkNode("Node.ForeachKV(val)", ps, ch, kids[i].node)
			i++
			return true
		}, opts)
		if err != nil || i != len(kids) {
			c.Failf("foreach-count", "Node.ForeachKV %s: visited %d of %d, err=%v", ps, i, len(kids), err)
		}
		i = 0
		err = tv.ForeachKV(func(k generic.Value, ch generic.Value) bool {
			if i < len(kids) {
				e.checkNode("Value.ForeachKV(key)", ps, k.Node, kids[i].step.Key)
				e.checkNode("Value.ForeachKV(val)", ps, ch.Node, kids[i].node)
			}
			i++
			return true
		}, opts)
		if err != nil || i != len(kids) {
			c.Failf("foreach-count", "Value.ForeachKV %s: visited %d of %d, err=%v", ps, i, len(kids), err)
		}
	}
}

func checkMany(e *env, cs Case, opts *generic.Options, n generic.Node, x nodeInfo, rnd *lcg) {
	c := e.c
	kids := modelChildren(x.node)
	ps := pathStr(untypedPath(x.path, 0))
	// draw a subset mixing present and absent children
	var pn []generic.PathNode
	var want []*tm.Value
	variant := rnd.n(2)
	nreq := 1 + rnd.n(5)
	usedIdx := map[int]bool{}
	for i := 0; i < nreq; i++ {
		if len(kids) > 0 && rnd.n(4) != 0 {
			j := rnd.n(len(kids))
			if i == 0 && rnd.n(2) == 0 {
				j = len(kids) - 1
			}
			if usedIdx[j] {
				continue
			}
			usedIdx[j] = true
			pn = append(pn, generic.PathNode{Path: stepPath(kids[j].step, variant)})
			want = append(want, kids[j].node)
		} else if ap, _, ok := absentStep(x.node, rnd); ok {
			dup := false
			for _, q := range pn {
				if q.Path.String() == ap.String() {
					dup = true
				}
			}
			if dup {
				continue
			}
			pn = append(pn, generic.PathNode{Path: ap})
			want = append(want, nil)
		}
	}
	if len(pn) == 0 {
		return
	}
	// GetMany dispatches on the kind of the first path: keep the kinds homogeneous for maps
	if x.node.K == tm.MAP {
		t0 := pn[0].Path.Type()
		var pn2 []generic.PathNode
		var want2 []*tm.Value
		for i := range pn {
			if pn[i].Path.Type() == t0 {
				pn2 = append(pn2, pn[i])
				want2 = append(want2, want[i])
			}
		}
		pn, want = pn2, want2
	}
	marker := generic.NewNodeString("dirty-slot")
	region := ""
	if x.node.K == tm.MAP && len(pn) >= 2 {
		region = "gets-map-multi-key"
	}
	c.Class(fmt.Sprintf("getmany:%v:n=%d", x.node.K, len(pn)))
	if len(pn) >= 2 {
		c.Class("getmany>=2keys")
	}
	verify := func(label string, call func([]generic.PathNode) error) bool {
		for i := range pn {
			pn[i].Node = marker
		}
		c.Step("%s %s %d paths", label, ps, len(pn))
		err := call(pn)
		if err != nil {
			if c.Fail(region, "getmany-error", "%s %s: %v", label, ps, err) {
				return false
			}
		}
		for i := range pn {
			got := pn[i].Node
			if want[i] != nil {
				if got.IsError() || got.IsEmpty() || got.Raw() == nil || (len(got.Raw()) == len(marker.Raw()) && &got.Raw()[0] == &marker.Raw()[0]) {
					if c.Fail(region, "getmany-missed-present", "%s %s: present child %s not delivered (slot: type %v)", label, ps, pn[i].Path.String(), got.Type()) {
						return false
					}
				}
				s, en, _ := e.window(got)
				if got.Type() != thrift.Type(want[i].K) || s != want[i].Start || en != want[i].End {
					if c.Fail(region, "getmany-wrong-node", "%s %s: child %s delivered as type %v span [%d,%d), want %v [%d,%d)", label, ps, pn[i].Path.String(), got.Type(), s, en, want[i].K, want[i].Start, want[i].End) {
						return false
					}
				}
			} else {
				dirty := len(got.Raw()) == len(marker.Raw()) && len(got.Raw()) > 0 && &got.Raw()[0] == &marker.Raw()[0]
				if opts.ClearDirtyValues {
					if !got.IsEmpty() {
						if c.Fail(region, "getmany-absent-not-cleared", "%s %s: absent child %s: slot not empty with ClearDirtyValues (type %v)", label, ps, pn[i].Path.String(), got.Type()) {
							return false
						}
					}
				} else if !dirty {
					if c.Fail(region, "getmany-absent-touched", "%s %s: absent child %s: slot was modified (type %v)", label, ps, pn[i].Path.String(), got.Type()) {
						return false
					}
				}
			}
		}
		return true
	}
	if !verify("Node.GetMany", func(p []generic.PathNode) error { return n.GetMany(p, opts) }) {
		return
	}
	// the per-kind bulk getters called directly, on the slice that still holds the previous results
	switch x.node.K {
	case tm.STRUCT:
		if !verify("Node.Fields", func(p []generic.PathNode) error { return n.Fields(p, opts) }) {
			return
		}
	case tm.LIST, tm.SET:
		if !verify("Node.Indexes", func(p []generic.PathNode) error { return n.Indexes(p, opts) }) {
			return
		}
	case tm.MAP:
		if !verify("Node.Gets", func(p []generic.PathNode) error { return n.Gets(p, opts) }) {
			return
		}
	}
	// GetTree with the same children one level deep
	tree := generic.PathNode{Next: make([]generic.PathNode, len(pn))}
	for i := range pn {
		tree.Next[i].Path = pn[i].Path
	}
	c.Step("Node.GetTree %s", ps)
	if err := n.GetTree(&tree, opts); err != nil {
		if c.Fail(region, "gettree-error", "Node.GetTree %s: %v", ps, err) {
			return
		}
	}
	for i := range pn {
		got := tree.Next[i].Node
		if want[i] != nil {
			s, en, _ := e.window(got)
			if got.IsError() || got.Type() != thrift.Type(want[i].K) || s != want[i].Start || en != want[i].End {
				if c.Fail(region, "gettree-wrong-node", "Node.GetTree %s: child %s delivered as type %v span [%d,%d), want %v [%d,%d)", ps, pn[i].Path.String(), got.Type(), s, en, want[i].K, want[i].Start, want[i].End) {
					return
				}
			}
		} else if !got.IsEmpty() {
			if c.Fail(region, "gettree-absent-filled", "Node.GetTree %s: absent child %s has a node of type %v", ps, pn[i].Path.String(), got.Type()) {
				return
			}
		}
	}
}

func checkChildren(e *env, cs Case, opts *generic.Options, n generic.Node, x nodeInfo) {
	c := e.c
	ps := pathStr(untypedPath(x.path, 0))
	for _, recurse := range []bool{false, true} {
		var out []generic.PathNode
		c.Step("Node.Children %s recurse=%v", ps, recurse)
		if err := n.Children(&out, recurse, opts); err != nil {
			c.Failf("children-error", "Node.Children %s: %v", ps, err)
		}
		cmpChildren(e, ps, out, x.node, recurse)
	}
}

func cmpChildren(e *env, ps string, out []generic.PathNode, m *tm.Value, recurse bool) {
	c := e.c
	kids := modelChildren(m)
	if len(out) != len(kids) {
		c.Failf("children-count", "Node.Children %s: %d children, model has %d", ps, len(out), len(kids))
	}
	for i := range kids {
		if !pathMatches(out[i].Path, kids[i].step, nil, false) {
			c.Failf("children-path", "Node.Children %s: child %d has path %s", ps, i, out[i].Path.String())
		}
		e.checkNode("Node.Children", ps+"/"+out[i].Path.String(), out[i].Node, kids[i].node)
		k := kids[i].node
		if recurse && (k.K == tm.STRUCT || k.K.IsContainer()) {
			cmpChildren(e, ps+"/"+out[i].Path.String(), out[i].Next, k, true)
		}
	}
}

func checkInterface(e *env, cs Case, opts *generic.Options, n generic.Node, tv generic.Value, x nodeInfo) {
	c := e.c
	ps := pathStr(untypedPath(x.path, 0))
	sh := tm.GoShape{AllIntAsInt: true, ByteAsUint8: true, ByteKeyU8: true, StrAsBinary: opts.CastStringAsBinary, StructAsInt: !opts.MapStructById}
	want := tm.ToGo(x.node, nil, nil, sh)
	c.Step("Node.Interface %s", ps)
	got, err := n.Interface(opts)
	if err != nil {
		c.Failf("interface-error", "Node.Interface %s: %v", ps, err)
	}
	if d := tm.GoEqual(got, want); d != "" {
		c.Failf("interface-mismatch", "Node.Interface %s differs: %s", ps, d)
	}
	got2, err := tv.Interface(opts)
	if err != nil {
		c.Failf("interface-error", "Value.Interface %s: %v", ps, err)
	}
	if d := tm.GoEqual(got2, want); d != "" {
		c.Failf("interface-mismatch", "Value.Interface %s differs: %s", ps, d)
	}
	switch x.node.K {
	case tm.LIST, tm.SET:
		l, err := n.List(opts)
		if err != nil || tm.GoEqual(l, want) != "" {
			c.Failf("interface-mismatch", "Node.List %s: err=%v diff=%s", ps, err, tm.GoEqual(l, want))
		}
	case tm.MAP:
		if len(x.node.Elems) == 0 {
			return
		}
		switch {
		case x.node.KT == tm.STRING:
			mm, err := n.StrMap(opts)
			if err != nil || tm.GoEqual(mm, want) != "" {
				c.Failf("interface-mismatch", "Node.StrMap %s: err=%v diff=%s", ps, err, tm.GoEqual(mm, want))
			}
		case x.node.KT.IsInt():
			mm, err := n.IntMap(opts)
			if err != nil || tm.GoEqual(mm, want) != "" {
				c.Failf("interface-mismatch", "Node.IntMap %s: err=%v diff=%s", ps, err, tm.GoEqual(mm, want))
			}
		default:
			mm, err := n.InterfaceMap(opts)
			if err != nil || tm.GoEqual(mm, want) != "" {
				c.Failf("interface-mismatch", "Node.InterfaceMap %s: err=%v diff=%s", ps, err, tm.GoEqual(mm, want))
			}
		}
	}
}

var genCfg = tm.GenCfg{MaxDepth: 4, BigSizes: true, BigIDs: true, WireOrder: true, Aliases: true, Reqs: true, Recursive: true,
	KeyKinds: []tm.Kind{tm.STRING, tm.STRING, tm.BYTE, tm.I16, tm.I32, tm.I64, tm.DOUBLE, tm.BOOL, tm.STRUCT}}

var Prop = pbt.Register(pbt.Prop[Case]{
	Name: "TestReads",
	Rule: "generated IDL universe (structs with ids 1..32767 in any wire order, list/set/map with string/int/double/bool/struct keys, binary, aliases, recursion) + conforming value encoded by the reference codec with a span table; every read API (GetByPath id/name/bin-key variants, Field/FieldByName/Index/GetByStr/GetByInt/GetByRaw chains, Foreach/ForeachKV, GetMany/GetTree with dirty slots, Children, Interface/List/*Map) on Node and Value compared with the span table; absent and wrong-kind paths (incl. integer keys outside the key type's range that are congruent to a present key) must give error results; options drawn per case; non-trivial = depth >= 2 and a container with >= 2 children",
	Gen: func(t *rapid.T) Case {
		u := tm.GenUniverse(t, genCfg)
		v := tm.GenValue(t, u, u.Root, genCfg)
		tm.SanitizeDoubleKeys(v)
		return Case{U: u, V: v, Pick: rapid.Uint64().Draw(t, "pick"), O: Opts{
			ClearDirty: rapid.Bool().Draw(t, "clearDirty"), UseNativeSkip: rapid.Bool().Draw(t, "useNativeSkip"), MapStructById: rapid.Bool().Draw(t, "mapStructById"),
			CastStrAsBinary: rapid.Bool().Draw(t, "castStrBin"), IterByName: rapid.Bool().Draw(t, "iterByName"), NativeSkipGet: rapid.Bool().Draw(t, "nativeSkipGet")}}
	},
	Check: check,
})

func TestReads(t *testing.T) { pbt.Run(t, Prop) }
