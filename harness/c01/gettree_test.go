package c01

import (
	"fmt"

	"github.com/cloudwego/dynamicgo/thrift"
	"github.com/cloudwego/dynamicgo/thrift/generic"

	tm "verifharness/tmodel"
)

// Deep GetTree: a tree of paths up to four levels deep, each level mixing present and absent children; at
// most one node of the tree carries children whose path kind does not fit it (index below a struct, field
// id below a list, anything below a scalar). GetTree must resolve every level exactly (present -> the
// element's span, absent -> empty slot) and must return an error when an ill-fitting level is reachable.

type tspec struct {
	path generic.Path
	m    *tm.Value // nil: absent (or ill-fitting)
	kids []*tspec
}

type treePlan struct {
	rnd       *lcg
	expectErr bool
	depthSeen int
	nodes     int
}

func wrongKindFor(m *tm.Value, rnd *lcg) generic.Path {
	switch m.K {
	case tm.STRUCT:
		return []generic.Path{generic.NewPathIndex(0), generic.NewPathStrKey("a"), generic.NewPathIntKey(1)}[rnd.n(3)]
	case tm.LIST, tm.SET:
		return []generic.Path{generic.NewPathFieldId(1), generic.NewPathStrKey("a"), generic.NewPathIntKey(0)}[rnd.n(3)]
	case tm.MAP:
		return []generic.Path{generic.NewPathFieldId(1), generic.NewPathIndex(0)}[rnd.n(2)]
	}
	return []generic.Path{generic.NewPathFieldId(1), generic.NewPathIndex(0), generic.NewPathStrKey("a"), generic.NewPathIntKey(1)}[rnd.n(4)]
}

func (tp *treePlan) build(m *tm.Value, depth int, reachable bool) []*tspec {
	rnd := tp.rnd
	if depth == 0 {
		return nil
	}
	isCont := m.K == tm.STRUCT || m.K.IsContainer()
	if !isCont {
		// a level below a scalar: never fits
		if reachable && !tp.expectErr && rnd.n(12) == 0 {
			tp.expectErr = true
			return []*tspec{{path: wrongKindFor(m, rnd)}}
		}
		return nil
	}
	if reachable && !tp.expectErr && rnd.n(10) == 0 {
		tp.expectErr = true
		out := []*tspec{{path: wrongKindFor(m, rnd)}}
		return out
	}
	kids := modelChildren(m)
	variant := rnd.n(2)
	var out []*tspec
	used := map[string]bool{}
	nreq := 1 + rnd.n(4)
	for i := 0; i < nreq; i++ {
		if len(kids) > 0 && rnd.n(4) != 0 {
			j := rnd.n(len(kids))
			p := stepPath(kids[j].step, variant)
			if used[p.String()] {
				continue
			}
			used[p.String()] = true
			out = append(out, &tspec{path: p, m: kids[j].node})
		} else if ap, _, ok := absentStep(m, rnd); ok {
			if used[ap.String()] {
				continue
			}
			used[ap.String()] = true
			out = append(out, &tspec{path: ap})
		}
	}
	if m.K == tm.MAP && len(out) > 0 {
		// the bulk getter dispatches on the kind of the first path: keep the kinds homogeneous
		t0 := out[0].path.Type()
		var o2 []*tspec
		for _, s := range out {
			if s.path.Type() == t0 {
				o2 = append(o2, s)
			}
		}
		out = o2
	}
	for _, s := range out {
		tp.nodes++
		if s.m != nil {
			s.kids = tp.build(s.m, depth-1, reachable)
		} else if rnd.n(4) == 0 {
			// children below an absent slot are never looked at
			s.kids = []*tspec{{path: generic.NewPathFieldId(1)}}
		}
	}
	if len(out) > 0 && 5-depth > tp.depthSeen {
		tp.depthSeen = 5 - depth
	}
	return out
}

func toPathNodes(specs []*tspec) []generic.PathNode {
	if len(specs) == 0 {
		return nil
	}
	out := make([]generic.PathNode, len(specs))
	for i, s := range specs {
		out[i].Path = s.path
		out[i].Next = toPathNodes(s.kids)
	}
	return out
}

func showSpecs(specs []*tspec) string {
	s := "["
	for i, k := range specs {
		if i > 0 {
			s += " "
		}
		s += k.path.String()
		if k.m == nil {
			s += "?"
		}
		if len(k.kids) > 0 {
			s += showSpecs(k.kids)
		}
	}
	return s + "]"
}

func checkDeepTree(e *env, cs Case, opts *generic.Options, n generic.Node, x nodeInfo, rnd *lcg) {
	c := e.c
	tp := &treePlan{rnd: rnd}
	specs := tp.build(x.node, 4, true)
	if len(specs) == 0 {
		return
	}
	ps := pathStr(untypedPath(x.path, 0)) + " " + showSpecs(specs)
	tree := generic.PathNode{Next: toPathNodes(specs)}
	c.Step("Node.GetTree (deep) %s", ps)
	var err error
	if !c.Protect("gettree-deep", func() { err = n.GetTree(&tree, opts) }) {
		return
	}
	c.Class(fmt.Sprintf("gettree-deep:levels=%d", tp.depthSeen))
	if tp.expectErr {
		c.Class("gettree-deep:ill-fitting-level")
		if err == nil {
			c.Fail("gettree-deep", "gettree-error-swallowed", "Node.GetTree %s: a level of the tree does not fit the value it is applied to, GetTree returned no error", ps)
		}
		return
	}
	if err != nil {
		if c.Fail("gettree-deep", "gettree-error", "Node.GetTree %s: %v", ps, err) {
			return
		}
	}
	var walk func(specs []*tspec, got []generic.PathNode, looked bool) bool
	walk = func(specs []*tspec, got []generic.PathNode, looked bool) bool {
		for i, s := range specs {
			g := got[i].Node
			switch {
			case s.m != nil && looked:
				st, en, _ := e.window(g)
				if g.IsError() || g.IsEmpty() || g.Type() != thrift.Type(s.m.K) || st != s.m.Start || en != s.m.End {
					if c.Fail("gettree-deep", "gettree-wrong-node", "Node.GetTree %s: %s delivered as type %v span [%d,%d), want %v [%d,%d)", ps, s.path.String(), g.Type(), st, en, s.m.K, s.m.Start, s.m.End) {
						return false
					}
				}
			default:
				if !g.IsEmpty() {
					if c.Fail("gettree-deep", "gettree-absent-filled", "Node.GetTree %s: absent %s has a node of type %v", ps, s.path.String(), g.Type()) {
						return false
					}
				}
			}
			if len(s.kids) > 0 && !walk(s.kids, got[i].Next, looked && s.m != nil) {
				return false
			}
		}
		return true
	}
	walk(specs, tree.Next, true)
}
