package pmodel

import (
	"bytes"
	"context"
	"crypto/sha1"
	"fmt"
	"math"
	"sort"
	"strings"
	"sync"

	dproto "github.com/cloudwego/dynamicgo/proto"
	"github.com/jhump/protoreflect/desc"
	"github.com/jhump/protoreflect/desc/protoparse"
	"google.golang.org/protobuf/proto"
	"google.golang.org/protobuf/reflect/protodesc"
	"google.golang.org/protobuf/reflect/protoreflect"
	"google.golang.org/protobuf/reflect/protoregistry"
	"google.golang.org/protobuf/types/descriptorpb"
	"google.golang.org/protobuf/types/dynamicpb"
	"pgregory.net/rapid"
)

// Compiled is a schema understood by both the reference stack and dynamicgo.
type Compiled struct {
	Files  map[string]string
	Main   string
	JFile  *desc.FileDescriptor        // jhump view of the main file
	RFiles *protoregistry.Files        // protobuf-go view
	RFile  protoreflect.FileDescriptor // main file
	Svc    *dproto.ServiceDescriptor   // dynamicgo view (default options)
	SvcErr error
}

var (
	ccMu    sync.Mutex
	ccCache = map[string]*Compiled{}
	ccOrder []string
)

func cacheKey(files map[string]string, main string, mode int) string {
	h := sha1.New()
	names := make([]string, 0, len(files))
	for n := range files {
		names = append(names, n)
	}
	sort.Strings(names)
	for _, n := range names {
		fmt.Fprintf(h, "%s\x00%s\x00", n, files[n])
	}
	fmt.Fprintf(h, "main=%s mode=%d", main, mode)
	return string(h.Sum(nil))
}

// Compile parses the files with the reference parser and with dynamicgo.
func Compile(files map[string]string, main string) (*Compiled, error) {
	key := cacheKey(files, main, 0)
	ccMu.Lock()
	if c, ok := ccCache[key]; ok {
		ccMu.Unlock()
		return c, nil
	}
	ccMu.Unlock()
	p := protoparse.Parser{Accessor: protoparse.FileContentsFromMap(files), ImportPaths: []string{""}}
	fds, err := p.ParseFiles(main)
	if err != nil {
		return nil, fmt.Errorf("reference parser rejects schema: %w", err)
	}
	c := &Compiled{Files: files, Main: main, JFile: fds[0]}
	set := &descriptorpb.FileDescriptorSet{}
	seen := map[string]bool{}
	var add func(fd *desc.FileDescriptor)
	add = func(fd *desc.FileDescriptor) {
		if seen[fd.GetName()] {
			return
		}
		seen[fd.GetName()] = true
		for _, d := range fd.GetDependencies() {
			add(d)
		}
		set.File = append(set.File, fd.AsFileDescriptorProto())
	}
	add(fds[0])
	rf, err := protodesc.NewFiles(set)
	if err != nil {
		return nil, fmt.Errorf("protodesc rejects schema: %w", err)
	}
	c.RFiles = rf
	c.RFile, err = rf.FindFileByPath(main)
	if err != nil {
		return nil, err
	}
	inc := map[string]string{}
	for k, v := range files {
		inc[k] = v
	}
	c.Svc, c.SvcErr = dproto.NewDescritorFromContent(context.Background(), main, files[main], inc)
	ccMu.Lock()
	ccCache[key] = c
	ccOrder = append(ccOrder, key)
	if len(ccOrder) > 64 {
		delete(ccCache, ccOrder[0])
		ccOrder = ccOrder[1:]
	}
	ccMu.Unlock()
	return c, nil
}

// Msg looks up a message descriptor by full name in the reference registry.
func (c *Compiled) Msg(full string) protoreflect.MessageDescriptor {
	d, err := c.RFiles.FindDescriptorByName(protoreflect.FullName(full))
	if err != nil {
		return nil
	}
	md, _ := d.(protoreflect.MessageDescriptor)
	return md
}

// ---------------------------------------------------------------------------
// value generators

var i64Bounds = []int64{0, 1, -1, 2, 63, 64, 127, 128, 129, 255, 256, 16383, 16384, 16385, 2097151, 2097152, 268435455, 268435456,
	math.MaxInt32, math.MaxInt32 + 1, math.MinInt32, math.MinInt32 - 1, math.MaxUint32, math.MaxUint32 + 1,
	1 << 35, 1<<35 - 1, 1 << 42, 1<<42 - 1, 1 << 49, 1<<49 - 1, 1 << 56, 1<<56 - 1, math.MaxInt64, math.MinInt64, math.MaxInt64 - 1, math.MinInt64 + 1,
	-128, -129, -16384, -16385, 1 << 53, 1<<53 + 1}

func GenInt64(t *rapid.T) int64 {
	switch rapid.IntRange(0, 3).Draw(t, "i64class") {
	case 0:
		return i64Bounds[rapid.IntRange(0, len(i64Bounds)-1).Draw(t, "i64b")]
	case 1:
		return int64(rapid.IntRange(-100, 100).Draw(t, "i64small"))
	case 2:
		sh := rapid.IntRange(0, 63).Draw(t, "shift")
		d := int64(rapid.IntRange(-2, 2).Draw(t, "delta"))
		v := int64(uint64(1)<<uint(sh)) + d
		if rapid.Bool().Draw(t, "neg") {
			v = -v
		}
		return v
	}
	return rapid.Int64().Draw(t, "i64")
}

func GenInt32(t *rapid.T) int32 {
	switch rapid.IntRange(0, 3).Draw(t, "i32class") {
	case 0:
		b := []int32{0, 1, -1, 127, 128, 255, 256, 16383, 16384, 2097151, 2097152, 268435455, 268435456, math.MaxInt32, math.MinInt32, math.MaxInt32 - 1, math.MinInt32 + 1, -128, -129}
		return b[rapid.IntRange(0, len(b)-1).Draw(t, "i32b")]
	case 1:
		return int32(rapid.IntRange(-100, 100).Draw(t, "i32small"))
	}
	return rapid.Int32().Draw(t, "i32")
}

func GenUint64(t *rapid.T) uint64 {
	if rapid.IntRange(0, 3).Draw(t, "u64class") == 0 {
		b := []uint64{0, 1, 127, 128, 1<<63 - 1, 1 << 63, 1<<63 + 1, math.MaxUint64, math.MaxUint64 - 1, math.MaxUint32, math.MaxUint32 + 1, 1 << 31, 1<<31 - 1}
		return b[rapid.IntRange(0, len(b)-1).Draw(t, "u64b")]
	}
	return uint64(GenInt64(t))
}

func GenUint32(t *rapid.T) uint32 {
	if rapid.IntRange(0, 3).Draw(t, "u32class") == 0 {
		b := []uint32{0, 1, 127, 128, 1<<31 - 1, 1 << 31, 1<<31 + 1, math.MaxUint32, math.MaxUint32 - 1}
		return b[rapid.IntRange(0, len(b)-1).Draw(t, "u32b")]
	}
	return uint32(GenInt32(t))
}

var f64Class = []uint64{0, 1 << 63, 1, 0x000fffffffffffff, 0x0010000000000000, 0x7fefffffffffffff, 0x7ff0000000000000, 0xfff0000000000000,
	0x7ff8000000000001, 0xfff8000000000000, 0x7ff0000000000001, math.Float64bits(1), math.Float64bits(-1), math.Float64bits(0.1), math.Float64bits(1e21), math.Float64bits(1e-7),
	math.Float64bits(9007199254740993), math.Float64bits(1e300), math.Float64bits(5e-324), math.Float64bits(123456789.125)}

// doubles at integer-type boundaries (where an integer fast path or cast would change the value)
var f64IntBounds = []uint64{math.Float64bits(9223372036854775808), math.Float64bits(-9223372036854775808), math.Float64bits(9223372036854774784), math.Float64bits(-9223372036854777856),
	math.Float64bits(18446744073709551616), math.Float64bits(18446744073709549568), math.Float64bits(1e19), math.Float64bits(-1e19), math.Float64bits(9007199254740992), math.Float64bits(-9007199254740992),
	math.Float64bits(9007199254740991), math.Float64bits(4294967296), math.Float64bits(4294967295), math.Float64bits(2147483648), math.Float64bits(-2147483648), math.Float64bits(-2147483649),
	math.Float64bits(2147483647), math.Float64bits(1e16), math.Float64bits(1e17), math.Float64bits(1e18), math.Float64bits(-1e18), math.Float64bits(65536), math.Float64bits(-32769), math.Float64bits(255), math.Float64bits(-129)}

func init() { f64Class = append(f64Class, f64IntBounds...) }

// GenF64Bits returns float64 bit patterns by class. finiteOnly excludes NaN/Inf.
func GenF64Bits(t *rapid.T, finiteOnly bool) uint64 {
	for {
		var b uint64
		switch rapid.IntRange(0, 3).Draw(t, "f64class") {
		case 0:
			b = f64Class[rapid.IntRange(0, len(f64Class)-1).Draw(t, "f64c")]
		case 1:
			b = math.Float64bits(float64(rapid.IntRange(-1000, 1000).Draw(t, "f64int")) / float64(rapid.IntRange(1, 16).Draw(t, "f64den")))
		default:
			b = rapid.Uint64().Draw(t, "f64bits")
		}
		f := math.Float64frombits(b)
		if finiteOnly && (math.IsNaN(f) || math.IsInf(f, 0)) {
			continue
		}
		return b
	}
}

func GenF32Bits(t *rapid.T, finiteOnly bool) uint32 {
	for {
		var b uint32
		switch rapid.IntRange(0, 2).Draw(t, "f32class") {
		case 0:
			c := []uint32{0, 1 << 31, 1, 0x007fffff, 0x00800000, 0x7f7fffff, 0x7f800000, 0xff800000, 0x7fc00001, 0xffc00000, math.Float32bits(1), math.Float32bits(-1.5), math.Float32bits(0.1), math.Float32bits(16777217),
				math.Float32bits(2147483648), math.Float32bits(-2147483648), math.Float32bits(9223372036854775808), math.Float32bits(-9223372036854775808), math.Float32bits(18446744073709551616), math.Float32bits(4294967296), math.Float32bits(1e10), math.Float32bits(1e19)}
			b = c[rapid.IntRange(0, len(c)-1).Draw(t, "f32c")]
		case 1:
			b = math.Float32bits(float32(rapid.IntRange(-1000, 1000).Draw(t, "f32int")) / 8)
		default:
			b = rapid.Uint32().Draw(t, "f32bits")
		}
		f := math.Float32frombits(b)
		if finiteOnly && (f != f || math.IsInf(float64(f), 0)) {
			continue
		}
		return b
	}
}

var strAlphabet = []string{"a", "b", "Z", "0", " ", "\"", "\\", "/", "\n", "\t", "\x00", "\x1f", "\x7f", "é", "ß", "中", "\u2028", "\u2029", "😀", "𝄞", "<", ">", "&", "'", "\r", "\b", "\f", "\x01", "\ufffd", "\u00a0", "\u0080", "\ufeff", "\U0010ffff", "\ud7ff", "\ue000"}

// GenUTF8 draws a valid UTF-8 string over an escape-relevant alphabet with length classes.
func GenUTF8(t *rapid.T) string {
	var n int
	switch rapid.IntRange(0, 29).Draw(t, "strLenClass") {
	case 0, 1, 2:
		n = 0
	case 3, 4, 5, 6, 7, 8, 9, 10, 11, 12, 13, 14, 15, 16, 17:
		n = rapid.IntRange(1, 8).Draw(t, "strLen")
	case 18, 19, 20, 21, 22, 23:
		n = rapid.IntRange(9, 40).Draw(t, "strLen")
	case 24, 25, 26:
		n = []int{15, 16, 17, 31, 32, 33, 63, 64, 65, 127, 128, 129}[rapid.IntRange(0, 11).Draw(t, "strLenB")]
	case 27:
		// around the converters' 4096-byte buffers: one drawn unit repeated (keeps the draw count small)
		n = []int{4090, 4095, 4096, 4097, 8191, 8192, 8193, 12289}[rapid.IntRange(0, 7).Draw(t, "strLenPage")]
		unit := strAlphabet[rapid.IntRange(0, len(strAlphabet)-1).Draw(t, "unit")]
		return strings.Repeat(unit, n/len(unit))
	default:
		n = rapid.IntRange(100, 300).Draw(t, "strLen")
	}
	plain := rapid.IntRange(0, 3).Draw(t, "strPlain") == 0
	b := make([]byte, 0, n)
	for len(b) < n {
		if plain {
			b = append(b, byte('a'+rapid.IntRange(0, 25).Draw(t, "ch")))
		} else {
			b = append(b, strAlphabet[rapid.IntRange(0, len(strAlphabet)-1).Draw(t, "ch")]...)
		}
	}
	return string(b)
}

func GenBytes(t *rapid.T) []byte {
	n := 0
	switch rapid.IntRange(0, 23).Draw(t, "binLenClass") {
	case 0, 1, 2, 3:
		n = 0
	case 4, 5, 6, 7, 8, 9, 10, 11, 12, 13, 14, 15:
		n = rapid.IntRange(1, 8).Draw(t, "binLen")
	case 16, 17, 18:
		n = rapid.IntRange(9, 70).Draw(t, "binLen")
	case 19:
		n = []int{4095, 4096, 4097, 4098, 8191, 8192, 8193, 12289}[rapid.IntRange(0, 7).Draw(t, "binLenPage")]
		unit := make([]byte, 7)
		for i := range unit {
			unit[i] = byte(rapid.IntRange(0, 255).Draw(t, "byte"))
		}
		return bytes.Repeat(unit, n/7+1)[:n]
	default:
		n = rapid.IntRange(120, 140).Draw(t, "binLen")
	}
	b := make([]byte, n)
	for i := range b {
		b[i] = byte(rapid.IntRange(0, 255).Draw(t, "byte"))
	}
	return b
}

// MsgOpts steer message generation.
type MsgOpts struct {
	MaxDepth   int  // nesting depth of sub-messages (default 3)
	MaxElems   int  // elements per repeated/map field (default 4)
	FiniteOnly bool // no NaN / Inf
	FillAll    bool // set every field (else each field present with p=0.7)
}

func genScalar(t *rapid.T, fd protoreflect.FieldDescriptor, o MsgOpts) protoreflect.Value {
	switch fd.Kind() {
	case protoreflect.BoolKind:
		return protoreflect.ValueOfBool(rapid.Bool().Draw(t, "bool"))
	case protoreflect.Int32Kind, protoreflect.Sint32Kind, protoreflect.Sfixed32Kind:
		return protoreflect.ValueOfInt32(GenInt32(t))
	case protoreflect.Int64Kind, protoreflect.Sint64Kind, protoreflect.Sfixed64Kind:
		return protoreflect.ValueOfInt64(GenInt64(t))
	case protoreflect.Uint32Kind, protoreflect.Fixed32Kind:
		return protoreflect.ValueOfUint32(GenUint32(t))
	case protoreflect.Uint64Kind, protoreflect.Fixed64Kind:
		return protoreflect.ValueOfUint64(GenUint64(t))
	case protoreflect.FloatKind:
		return protoreflect.ValueOfFloat32(math.Float32frombits(GenF32Bits(t, o.FiniteOnly)))
	case protoreflect.DoubleKind:
		return protoreflect.ValueOfFloat64(math.Float64frombits(GenF64Bits(t, o.FiniteOnly)))
	case protoreflect.StringKind:
		return protoreflect.ValueOfString(GenUTF8(t))
	case protoreflect.BytesKind:
		return protoreflect.ValueOfBytes(GenBytes(t))
	case protoreflect.EnumKind:
		vs := fd.Enum().Values()
		return protoreflect.ValueOfEnum(vs.Get(rapid.IntRange(0, vs.Len()-1).Draw(t, "enum")).Number())
	}
	panic("genScalar: kind " + fd.Kind().String())
}

// GenMessage draws a message of the given type.
func GenMessage(t *rapid.T, md protoreflect.MessageDescriptor, o MsgOpts) *dynamicpb.Message {
	if o.MaxDepth == 0 {
		o.MaxDepth = 3
	}
	if o.MaxElems == 0 {
		o.MaxElems = 4
	}
	return genMessage(t, md, o, 0)
}

func genMessage(t *rapid.T, md protoreflect.MessageDescriptor, o MsgOpts, depth int) *dynamicpb.Message {
	m := dynamicpb.NewMessage(md)
	fds := md.Fields()
	for i := 0; i < fds.Len(); i++ {
		fd := fds.Get(i)
		if !o.FillAll && rapid.IntRange(0, 9).Draw(t, "present") >= 7 {
			continue
		}
		isMsg := fd.Kind() == protoreflect.MessageKind
		switch {
		case fd.IsMap():
			vd := fd.MapValue()
			if vd.Kind() == protoreflect.MessageKind && depth >= o.MaxDepth {
				continue
			}
			n := rapid.IntRange(0, o.MaxElems).Draw(t, "mapLen")
			mp := m.Mutable(fd).Map()
			for j := 0; j < n; j++ {
				k := genScalar(t, fd.MapKey(), o).MapKey()
				var v protoreflect.Value
				if vd.Kind() == protoreflect.MessageKind {
					v = protoreflect.ValueOfMessage(genMessage(t, vd.Message(), o, depth+1))
				} else {
					v = genScalar(t, vd, o)
				}
				mp.Set(k, v)
			}
		case fd.IsList():
			if isMsg && depth >= o.MaxDepth {
				continue
			}
			n := rapid.IntRange(0, o.MaxElems).Draw(t, "listLen")
			l := m.Mutable(fd).List()
			for j := 0; j < n; j++ {
				if isMsg {
					l.Append(protoreflect.ValueOfMessage(genMessage(t, fd.Message(), o, depth+1)))
				} else {
					l.Append(genScalar(t, fd, o))
				}
			}
		case isMsg:
			if depth >= o.MaxDepth {
				continue
			}
			m.Set(fd, protoreflect.ValueOfMessage(genMessage(t, fd.Message(), o, depth+1)))
		default:
			m.Set(fd, genScalar(t, fd, o))
		}
	}
	return m
}

// Marshal encodes with the reference implementation (deterministic map order).
func Marshal(m proto.Message) []byte {
	b, err := proto.MarshalOptions{Deterministic: true}.Marshal(m)
	if err != nil {
		panic(err)
	}
	return b
}

// Unmarshal decodes with the reference implementation.
func Unmarshal(md protoreflect.MessageDescriptor, b []byte) (*dynamicpb.Message, error) {
	m := dynamicpb.NewMessage(md)
	err := proto.UnmarshalOptions{DiscardUnknown: false}.Unmarshal(b, m)
	return m, err
}
