package pmodel

import (
	"bytes"
	"fmt"
	"math"
	"reflect"
	"sort"

	dproto "github.com/cloudwego/dynamicgo/proto"
	"google.golang.org/protobuf/reflect/protoreflect"
)

// Go-value shapes of dynamicgo's descriptor-driven proto reader/writer
// (proto/binary ReadAnyWithDesc / WriteAnyWithDesc, generic Interface()).

const (
	MapFormIface = 0 // map[interface{}]interface{} with keys of the key kind's Go type
	MapFormStr   = 1 // map[string]interface{} for string keys (else falls back to iface)
	MapFormInt   = 2 // map[int]interface{} for integer keys (else falls back to iface)
)

// ScalarToDynGo converts a reference scalar to the Go type dynamicgo's
// descriptor-driven reader returns for that kind.
func ScalarToDynGo(fd protoreflect.FieldDescriptor, v protoreflect.Value) interface{} {
	switch fd.Kind() {
	case protoreflect.BoolKind:
		return v.Bool()
	case protoreflect.EnumKind:
		return dproto.EnumNumber(v.Enum())
	case protoreflect.Int32Kind, protoreflect.Sint32Kind, protoreflect.Sfixed32Kind:
		return int32(v.Int())
	case protoreflect.Uint32Kind:
		return uint32(v.Uint())
	case protoreflect.Fixed32Kind:
		return int32(uint32(v.Uint()))
	case protoreflect.Int64Kind, protoreflect.Sint64Kind, protoreflect.Sfixed64Kind:
		return v.Int()
	case protoreflect.Uint64Kind:
		return v.Uint()
	case protoreflect.Fixed64Kind:
		return int64(v.Uint())
	case protoreflect.FloatKind:
		return float32(v.Float())
	case protoreflect.DoubleKind:
		return v.Float()
	case protoreflect.StringKind:
		return v.String()
	case protoreflect.BytesKind:
		return append([]byte{}, v.Bytes()...)
	}
	panic("ScalarToDynGo: " + fd.Kind().String())
}

// ToDynGo converts a reference message into dynamicgo's Go-value shape.
// Only populated fields are included; empty lists/maps are omitted (they are
// not on the wire).
func ToDynGo(m protoreflect.Message, useFieldName bool, mapForm int) interface{} {
	byName := map[string]interface{}{}
	byNum := map[dproto.FieldNumber]interface{}{}
	m.Range(func(fd protoreflect.FieldDescriptor, v protoreflect.Value) bool {
		var gv interface{}
		switch {
		case fd.IsMap():
			if v.Map().Len() == 0 {
				return true
			}
			gv = mapToDynGo(fd, v.Map(), useFieldName, mapForm)
		case fd.IsList():
			l := v.List()
			if l.Len() == 0 {
				return true
			}
			out := make([]interface{}, 0, l.Len())
			for i := 0; i < l.Len(); i++ {
				if fd.Kind() == protoreflect.MessageKind {
					out = append(out, ToDynGo(l.Get(i).Message(), useFieldName, mapForm))
				} else {
					out = append(out, ScalarToDynGo(fd, l.Get(i)))
				}
			}
			gv = out
		case fd.Kind() == protoreflect.MessageKind:
			gv = ToDynGo(v.Message(), useFieldName, mapForm)
		default:
			gv = ScalarToDynGo(fd, v)
		}
		if useFieldName {
			byName[string(fd.Name())] = gv
		} else {
			byNum[dproto.FieldNumber(fd.Number())] = gv
		}
		return true
	})
	if useFieldName {
		return byName
	}
	return byNum
}

func mapToDynGo(fd protoreflect.FieldDescriptor, mp protoreflect.Map, useFieldName bool, mapForm int) interface{} {
	kd, vd := fd.MapKey(), fd.MapValue()
	conv := func(v protoreflect.Value) interface{} {
		if vd.Kind() == protoreflect.MessageKind {
			return ToDynGo(v.Message(), useFieldName, mapForm)
		}
		return ScalarToDynGo(vd, v)
	}
	switch {
	case mapForm == MapFormStr && kd.Kind() == protoreflect.StringKind:
		out := map[string]interface{}{}
		mp.Range(func(k protoreflect.MapKey, v protoreflect.Value) bool { out[k.String()] = conv(v); return true })
		return out
	case mapForm == MapFormInt && (kd.Kind() == protoreflect.Int32Kind || kd.Kind() == protoreflect.Int64Kind || kd.Kind() == protoreflect.Sint32Kind || kd.Kind() == protoreflect.Sint64Kind || kd.Kind() == protoreflect.Sfixed32Kind || kd.Kind() == protoreflect.Sfixed64Kind):
		out := map[int]interface{}{}
		mp.Range(func(k protoreflect.MapKey, v protoreflect.Value) bool { out[int(k.Int())] = conv(v); return true })
		return out
	}
	out := map[interface{}]interface{}{}
	mp.Range(func(k protoreflect.MapKey, v protoreflect.Value) bool {
		out[ScalarToDynGo(kd, k.Value())] = conv(v)
		return true
	})
	return out
}

// NormalizeDynGo rewrites map[string]/map[int] containers that stand for proto
// maps into map[interface{}]interface{} with keys typed as the reader returns
// them, so that a written value can be compared with what is read back.
// It needs the descriptor to know which maps are proto maps.
func NormalizeDynGo(md protoreflect.MessageDescriptor, v interface{}) interface{} {
	get := func(fd protoreflect.FieldDescriptor) (interface{}, bool) {
		switch mm := v.(type) {
		case map[string]interface{}:
			x, ok := mm[string(fd.Name())]
			return x, ok
		case map[dproto.FieldNumber]interface{}:
			x, ok := mm[dproto.FieldNumber(fd.Number())]
			return x, ok
		}
		return nil, false
	}
	set := func(fd protoreflect.FieldDescriptor, x interface{}) {
		switch mm := v.(type) {
		case map[string]interface{}:
			mm[string(fd.Name())] = x
		case map[dproto.FieldNumber]interface{}:
			mm[dproto.FieldNumber(fd.Number())] = x
		}
	}
	fds := md.Fields()
	for i := 0; i < fds.Len(); i++ {
		fd := fds.Get(i)
		x, ok := get(fd)
		if !ok || x == nil {
			continue
		}
		switch {
		case fd.IsMap():
			out := map[interface{}]interface{}{}
			kd, vd := fd.MapKey(), fd.MapValue()
			put := func(k interface{}, e interface{}) {
				if vd.Kind() == protoreflect.MessageKind && e != nil {
					e = NormalizeDynGo(vd.Message(), e)
				}
				out[k] = e
			}
			switch mm := x.(type) {
			case map[string]interface{}:
				for k, e := range mm {
					put(k, e)
				}
			case map[int]interface{}:
				for k, e := range mm {
					switch kd.Kind() {
					case protoreflect.Int32Kind, protoreflect.Sint32Kind, protoreflect.Sfixed32Kind:
						put(int32(k), e)
					default:
						put(int64(k), e)
					}
				}
			case map[interface{}]interface{}:
				for k, e := range mm {
					put(k, e)
				}
			}
			set(fd, out)
		case fd.IsList():
			if fd.Kind() == protoreflect.MessageKind {
				l := x.([]interface{})
				for j := range l {
					if l[j] != nil {
						l[j] = NormalizeDynGo(fd.Message(), l[j])
					}
				}
			}
		case fd.Kind() == protoreflect.MessageKind:
			set(fd, NormalizeDynGo(fd.Message(), x))
		}
	}
	return v
}

// DynGoEqual compares two Go values of dynamicgo's shape: floats by bit
// pattern, []byte by content, nil and an empty message map are the same empty
// message.
func DynGoEqual(a, b interface{}) (bool, string) {
	return dynEq(a, b, "$")
}

func isEmptyMsg(v interface{}) bool {
	switch m := v.(type) {
	case nil:
		return true
	case map[string]interface{}:
		return len(m) == 0
	case map[dproto.FieldNumber]interface{}:
		return len(m) == 0
	}
	return false
}

func dynEq(a, b interface{}, path string) (bool, string) {
	if isEmptyMsg(a) && isEmptyMsg(b) {
		return true, ""
	}
	if a == nil || b == nil {
		return false, fmt.Sprintf("%s: %#v vs %#v", path, a, b)
	}
	if reflect.TypeOf(a) != reflect.TypeOf(b) {
		return false, fmt.Sprintf("%s: type %T vs %T (%v vs %v)", path, a, b, a, b)
	}
	switch x := a.(type) {
	case float32:
		if math.Float32bits(x) != math.Float32bits(b.(float32)) {
			return false, fmt.Sprintf("%s: float32 bits %#x vs %#x", path, math.Float32bits(x), math.Float32bits(b.(float32)))
		}
		return true, ""
	case float64:
		if math.Float64bits(x) != math.Float64bits(b.(float64)) {
			return false, fmt.Sprintf("%s: float64 bits %#x vs %#x", path, math.Float64bits(x), math.Float64bits(b.(float64)))
		}
		return true, ""
	case []byte:
		if !bytes.Equal(x, b.([]byte)) {
			return false, fmt.Sprintf("%s: bytes %x vs %x", path, x, b.([]byte))
		}
		return true, ""
	case []interface{}:
		y := b.([]interface{})
		if len(x) != len(y) {
			return false, fmt.Sprintf("%s: list len %d vs %d", path, len(x), len(y))
		}
		for i := range x {
			if ok, m := dynEq(x[i], y[i], fmt.Sprintf("%s[%d]", path, i)); !ok {
				return false, m
			}
		}
		return true, ""
	case map[string]interface{}:
		y := b.(map[string]interface{})
		if len(x) != len(y) {
			return false, fmt.Sprintf("%s: message/map size %d vs %d (%v vs %v)", path, len(x), len(y), keysOf(x), keysOf(y))
		}
		for k, v := range x {
			w, ok := y[k]
			if !ok {
				return false, fmt.Sprintf("%s: key %q missing", path, k)
			}
			if ok, m := dynEq(v, w, path+"."+k); !ok {
				return false, m
			}
		}
		return true, ""
	case map[dproto.FieldNumber]interface{}:
		y := b.(map[dproto.FieldNumber]interface{})
		if len(x) != len(y) {
			return false, fmt.Sprintf("%s: message size %d vs %d", path, len(x), len(y))
		}
		for k, v := range x {
			w, ok := y[k]
			if !ok {
				return false, fmt.Sprintf("%s: field %d missing", path, k)
			}
			if ok, m := dynEq(v, w, fmt.Sprintf("%s.#%d", path, k)); !ok {
				return false, m
			}
		}
		return true, ""
	case map[interface{}]interface{}:
		y := b.(map[interface{}]interface{})
		if len(x) != len(y) {
			return false, fmt.Sprintf("%s: map size %d vs %d", path, len(x), len(y))
		}
		for k, v := range x {
			w, ok := y[k]
			if !ok {
				return false, fmt.Sprintf("%s: map key %#v (%T) missing", path, k, k)
			}
			if ok, m := dynEq(v, w, fmt.Sprintf("%s{%v}", path, k)); !ok {
				return false, m
			}
		}
		return true, ""
	}
	if a != b {
		return false, fmt.Sprintf("%s: %#v vs %#v", path, a, b)
	}
	return true, ""
}

func keysOf(m map[string]interface{}) []string {
	ks := make([]string, 0, len(m))
	for k := range m {
		ks = append(ks, k)
	}
	sort.Strings(ks)
	return ks
}
