// Package pmodel: proto3 schema model + generator, reference descriptors
// (protoparse -> protodesc) and reference messages (dynamicpb).
package pmodel

import (
	"fmt"
	"sort"
	"strings"

	"pgregory.net/rapid"
)

// Scalar kinds in proto spelling.
var ScalarKinds = []string{"double", "float", "int32", "int64", "uint32", "uint64", "sint32", "sint64",
	"fixed32", "fixed64", "sfixed32", "sfixed64", "bool", "string", "bytes"}

// MapKeyKinds are the legal proto map key kinds.
var MapKeyKinds = []string{"int32", "int64", "uint32", "uint64", "sint32", "sint64", "fixed32", "fixed64", "sfixed32", "sfixed64", "bool", "string"}

type Field struct {
	Name    string `json:"name"`
	Num     int32  `json:"num"`
	Kind    string `json:"kind"`            // scalar kind, "message" or "enum"
	Label   string `json:"label,omitempty"` // "", "repeated", "map"
	KeyKind string `json:"key,omitempty"`   // for maps
	Ref     string `json:"ref,omitempty"`   // type reference as written in the file
	JSON    string `json:"json,omitempty"`  // explicit json_name option
	// Unpacked: a repeated numeric field declared [packed = false] (proto3 packs them by default)
	Unpacked bool `json:"unpacked,omitempty"`
}

type EnumVal struct {
	Name string `json:"name"`
	Num  int32  `json:"num"`
}

type Enum struct {
	Name   string    `json:"name"`
	Values []EnumVal `json:"values"`
}

type Msg struct {
	Name   string  `json:"name"`
	Fields []Field `json:"fields"`
	Nested []Msg   `json:"nested,omitempty"`
	Enums  []Enum  `json:"enums,omitempty"`
}

type Method struct {
	Name string `json:"name"`
	In   string `json:"in"`
	Out  string `json:"out"`
	CS   bool   `json:"cs,omitempty"`
	SS   bool   `json:"ss,omitempty"`
}

type Svc struct {
	Name    string   `json:"name"`
	Methods []Method `json:"methods"`
}

type File struct {
	Name    string   `json:"name"`
	Package string   `json:"package,omitempty"`
	Imports []string `json:"imports,omitempty"`
	Msgs    []Msg    `json:"msgs,omitempty"`
	Enums   []Enum   `json:"enums,omitempty"`
	Svcs    []Svc    `json:"svcs,omitempty"`
}

type Schema struct {
	Files []File `json:"files"`
	Main  string `json:"main"`
}

func renderEnum(b *strings.Builder, ind string, e Enum) {
	fmt.Fprintf(b, "%senum %s {\n", ind, e.Name)
	seen := map[int32]bool{}
	alias := false
	for _, v := range e.Values {
		if seen[v.Num] {
			alias = true
		}
		seen[v.Num] = true
	}
	if alias {
		fmt.Fprintf(b, "%s  option allow_alias = true;\n", ind)
	}
	for _, v := range e.Values {
		fmt.Fprintf(b, "%s  %s = %d;\n", ind, v.Name, v.Num)
	}
	fmt.Fprintf(b, "%s}\n", ind)
}

func renderMsg(b *strings.Builder, ind string, m Msg) {
	fmt.Fprintf(b, "%smessage %s {\n", ind, m.Name)
	for _, e := range m.Enums {
		renderEnum(b, ind+"  ", e)
	}
	for _, n := range m.Nested {
		renderMsg(b, ind+"  ", n)
	}
	for _, f := range m.Fields {
		ty := f.Kind
		if f.Kind == "message" || f.Kind == "enum" {
			ty = f.Ref
		}
		opt := ""
		switch {
		case f.JSON != "" && f.Unpacked:
			opt = fmt.Sprintf(" [json_name = %q, packed = false]", f.JSON)
		case f.JSON != "":
			opt = fmt.Sprintf(" [json_name = %q]", f.JSON)
		case f.Unpacked:
			opt = " [packed = false]"
		}
		switch f.Label {
		case "repeated":
			fmt.Fprintf(b, "%s  repeated %s %s = %d%s;\n", ind, ty, f.Name, f.Num, opt)
		case "map":
			fmt.Fprintf(b, "%s  map<%s, %s> %s = %d%s;\n", ind, f.KeyKind, ty, f.Name, f.Num, opt)
		default:
			fmt.Fprintf(b, "%s  %s %s = %d%s;\n", ind, ty, f.Name, f.Num, opt)
		}
	}
	fmt.Fprintf(b, "%s}\n", ind)
}

// Render produces the proto3 source texts, by file name.
func (s Schema) Render() map[string]string {
	out := map[string]string{}
	for _, f := range s.Files {
		var b strings.Builder
		b.WriteString("syntax = \"proto3\";\n")
		if f.Package != "" {
			fmt.Fprintf(&b, "package %s;\n", f.Package)
		}
		for _, im := range f.Imports {
			fmt.Fprintf(&b, "import \"%s\";\n", im)
		}
		for _, e := range f.Enums {
			renderEnum(&b, "", e)
		}
		for _, m := range f.Msgs {
			renderMsg(&b, "", m)
		}
		for _, sv := range f.Svcs {
			fmt.Fprintf(&b, "service %s {\n", sv.Name)
			for _, m := range sv.Methods {
				in, out := m.In, m.Out
				if m.CS {
					in = "stream " + in
				}
				if m.SS {
					out = "stream " + out
				}
				fmt.Fprintf(&b, "  rpc %s(%s) returns (%s);\n", m.Name, in, out)
			}
			b.WriteString("}\n")
		}
		out[f.Name] = b.String()
	}
	return out
}

// ---------------------------------------------------------------------------
// generator

// GenOpts steer the schema generator.
type GenOpts struct {
	MaxMsgs      int  // number of top-level message types besides the root (default 3)
	MaxFields    int  // fields per message (default 7)
	AllKinds     bool // root message gets one singular field of every scalar kind
	NoMaps       bool
	NoRepeated   bool
	BigNumbers   bool     // allow field numbers up to 70000
	OnlyStrIntKV bool     // restrict map keys to string/int32/int64 (the subset generic path lookup can address)
	KeyKinds     []string // allowed map key kinds (default: every legal kind)
	Unpacked     bool     // a quarter of the repeated numeric fields are declared [packed = false]
	JSONNames    bool     // a sixth of the fields carry an explicit json_name (punctuation, non-ASCII, control characters, quotes)
}

// SupportedKeyKinds is the map-key subset the properties name as supported: map<int*|uint*|string, ...>.
var SupportedKeyKinds = []string{"string", "int32", "int64", "uint32", "uint64", "string"}

var fieldNumClasses = []int32{1, 2, 3, 7, 14, 15, 16, 17, 100, 127, 128, 2047, 2048, 2049}

func genFieldNum(t *rapid.T, used map[int32]bool, big bool) int32 {
	for i := 0; ; i++ {
		var n int32
		c := rapid.IntRange(0, 9).Draw(t, "numClass")
		switch {
		case c < 5:
			n = int32(rapid.IntRange(1, 20).Draw(t, "num"))
		case c < 8:
			n = fieldNumClasses[rapid.IntRange(0, len(fieldNumClasses)-1).Draw(t, "numIdx")]
		case c == 8 || !big:
			n = int32(rapid.IntRange(1, 3000).Draw(t, "num"))
		default:
			n = int32(rapid.IntRange(3000, 70000).Draw(t, "num"))
		}
		if n >= 19000 && n <= 19999 {
			continue
		}
		if !used[n] {
			used[n] = true
			return n
		}
		if i > 50 {
			for k := int32(1); ; k++ {
				if !used[k] {
					used[k] = true
					return k
				}
			}
		}
	}
}

// what an explicit json_name may hold besides letters: characters JSON must escape (and Go quotes differently), punctuation, non-ASCII
var jsonNameTails = []string{"", "_x", "-x", ".x", " x", "\"", "\\", "/", "\x7f", "\a", "\v", "\x01", "\n", "\t", "é", "中", "\u2028", "😀", "\U000e0001", "<", "&", "'"}

var nameParts = []string{"a", "b", "id", "foo", "bar", "val", "x1", "data", "item", "key", "msg", "n"}

func genFieldName(t *rapid.T, used map[string]bool) string {
	for i := 0; ; i++ {
		n := rapid.IntRange(1, 3).Draw(t, "nameParts")
		ps := make([]string, n)
		for j := range ps {
			ps[j] = nameParts[rapid.IntRange(0, len(nameParts)-1).Draw(t, "namePart")]
		}
		name := strings.Join(ps, "_")
		if i > 20 {
			name = fmt.Sprintf("%s_%d", name, i)
		}
		js := jsonName(name)
		if !used[name] && !used[js] {
			used[name] = true
			used[js] = true
			return name
		}
	}
}

func jsonName(n string) string {
	var b strings.Builder
	up := false
	for _, r := range n {
		if r == '_' {
			up = true
			continue
		}
		if up && r >= 'a' && r <= 'z' {
			r = r - 'a' + 'A'
		}
		up = false
		b.WriteRune(r)
	}
	return b.String()
}

// GenSchema draws a single-file schema whose service method "Call" takes the
// root message "Root". Message types M0..Mk reference each other freely
// (including recursion); one enum type "E0" and a nested enum are available.
func GenSchema(t *rapid.T, o GenOpts) Schema {
	if o.MaxMsgs == 0 {
		o.MaxMsgs = 3
	}
	if o.MaxFields == 0 {
		o.MaxFields = 7
	}
	nm := rapid.IntRange(0, o.MaxMsgs).Draw(t, "nMsgs")
	names := []string{"Root"}
	for i := 0; i < nm; i++ {
		names = append(names, fmt.Sprintf("M%d", i))
	}
	enum := Enum{Name: "E0", Values: []EnumVal{{"E0_ZERO", 0}, {"E0_ONE", 1}, {"E0_TWO", 2}, {"E0_NEG", -1}, {"E0_BIG", 2147483647}, {"E0_K", 300}}}
	var msgs []Msg
	for mi, name := range names {
		m := Msg{Name: name}
		usedN := map[int32]bool{}
		usedS := map[string]bool{}
		if mi == 0 && o.AllKinds {
			for _, k := range ScalarKinds {
				m.Fields = append(m.Fields, Field{Name: genFieldName(t, usedS), Num: genFieldNum(t, usedN, o.BigNumbers), Kind: k})
			}
		}
		nf := rapid.IntRange(1, o.MaxFields).Draw(t, "nFields")
		for fi := 0; fi < nf; fi++ {
			f := Field{Name: genFieldName(t, usedS), Num: genFieldNum(t, usedN, o.BigNumbers && mi == 0)}
			kc := rapid.IntRange(0, 9).Draw(t, "kindClass")
			switch {
			case kc < 6:
				f.Kind = ScalarKinds[rapid.IntRange(0, len(ScalarKinds)-1).Draw(t, "scalar")]
			case kc == 6:
				f.Kind = "enum"
				f.Ref = "E0"
			default:
				f.Kind = "message"
				f.Ref = names[rapid.IntRange(0, len(names)-1).Draw(t, "ref")]
			}
			lc := rapid.IntRange(0, 9).Draw(t, "labelClass")
			switch {
			case lc < 5:
			case lc < 8 && !o.NoRepeated:
				f.Label = "repeated"
				if o.Unpacked && f.Kind != "string" && f.Kind != "bytes" && f.Kind != "message" && rapid.IntRange(0, 3).Draw(t, "unpacked") == 0 {
					f.Unpacked = true
				}
			case lc >= 8 && !o.NoMaps:
				f.Label = "map"
				if len(o.KeyKinds) > 0 {
					f.KeyKind = o.KeyKinds[rapid.IntRange(0, len(o.KeyKinds)-1).Draw(t, "keyKind")]
				} else if o.OnlyStrIntKV {
					f.KeyKind = []string{"string", "int32", "int64", "string"}[rapid.IntRange(0, 3).Draw(t, "keyKind")]
				} else {
					f.KeyKind = MapKeyKinds[rapid.IntRange(0, len(MapKeyKinds)-1).Draw(t, "keyKind")]
				}
			}
			if o.JSONNames && rapid.IntRange(0, 5).Draw(t, "jsonName") == 0 {
				// unique per message through the running number; never equal to a default (camel-cased) name, which has no digit-led tail after 'j'
				f.JSON = fmt.Sprintf("j%d", len(m.Fields)) + jsonNameTails[rapid.IntRange(0, len(jsonNameTails)-1).Draw(t, "jsonTail")]
				if rapid.Bool().Draw(t, "jsonHead") {
					f.JSON = jsonNameTails[rapid.IntRange(0, len(jsonNameTails)-1).Draw(t, "jsonHeadTail")] + f.JSON
				}
			}
			m.Fields = append(m.Fields, f)
		}
		sort.SliceStable(m.Fields, func(i, j int) bool { return false }) // keep drawn order
		msgs = append(msgs, m)
	}
	f := File{Name: "main.proto", Package: "pkg", Msgs: msgs, Enums: []Enum{enum},
		Svcs: []Svc{{Name: "Svc", Methods: []Method{{Name: "Call", In: "Root", Out: "Root"}}}}}
	return Schema{Files: []File{f}, Main: "main.proto"}
}
