package pmodel

import (
	"bytes"
	"fmt"

	"google.golang.org/protobuf/encoding/protowire"
	"google.golang.org/protobuf/reflect/protoreflect"
)

// WField is one top-level field occurrence of an encoded message.
type WField struct {
	Num   protowire.Number
	Typ   protowire.Type
	Start int // offset of the tag
	VOff  int // offset of the value (after tag; for bytes type: after the length prefix)
	End   int // end of the field
}

// Walk splits a well-formed message into its field occurrences.
func Walk(b []byte) ([]WField, error) {
	var out []WField
	off := 0
	for off < len(b) {
		num, typ, n := protowire.ConsumeTag(b[off:])
		if n < 0 {
			return nil, fmt.Errorf("bad tag at %d", off)
		}
		f := WField{Num: num, Typ: typ, Start: off}
		m := protowire.ConsumeFieldValue(num, typ, b[off+n:])
		if m < 0 {
			return nil, fmt.Errorf("bad value at %d", off+n)
		}
		f.VOff = off + n
		if typ == protowire.BytesType {
			_, ln := protowire.ConsumeVarint(b[off+n:])
			f.VOff = off + n + ln
		}
		f.End = off + n + m
		out = append(out, f)
		off = f.End
	}
	return out, nil
}

type lcg uint64

func (l *lcg) next(n int) int {
	*l = *l*6364136223846793005 + 1442695040888963407
	return int((uint64(*l) >> 33) % uint64(n))
}

// Shuffle re-encodes a reference-encoded message with the fields of every
// message level in a pseudo-random order derived from seed. Occurrences of the
// same field number stay contiguous and keep their relative order (what a
// writer that emits fields in arbitrary order produces).
func Shuffle(md protoreflect.MessageDescriptor, b []byte, seed uint64) []byte {
	l := lcg(seed | 1)
	return shuffle(md, b, &l)
}

func shuffle(md protoreflect.MessageDescriptor, b []byte, l *lcg) []byte {
	fs, err := Walk(b)
	if err != nil {
		return b
	}
	var order []protowire.Number
	groups := map[protowire.Number][][]byte{}
	for _, f := range fs {
		raw := b[f.Start:f.End]
		fd := md.Fields().ByNumber(f.Num)
		if fd != nil && f.Typ == protowire.BytesType && fd.Kind() == protoreflect.MessageKind {
			var inner []byte
			if fd.IsMap() {
				// keep key-then-value order inside the entry (what every writer emits); permute inside a message value
				inner = append([]byte{}, b[f.VOff:f.End]...)
				if vd := fd.MapValue(); vd.Kind() == protoreflect.MessageKind {
					if efs, err := Walk(inner); err == nil {
						var re []byte
						for _, ef := range efs {
							if ef.Num == 2 && ef.Typ == protowire.BytesType {
								re = protowire.AppendTag(re, 2, protowire.BytesType)
								re = protowire.AppendBytes(re, shuffle(vd.Message(), inner[ef.VOff:ef.End], l))
							} else {
								re = append(re, inner[ef.Start:ef.End]...)
							}
						}
						inner = re
					}
				}
			} else {
				inner = shuffle(fd.Message(), b[f.VOff:f.End], l)
			}
			raw = protowire.AppendTag(nil, f.Num, f.Typ)
			raw = protowire.AppendBytes(raw, inner)
		}
		if _, ok := groups[f.Num]; !ok {
			order = append(order, f.Num)
		}
		groups[f.Num] = append(groups[f.Num], raw)
	}
	for i := len(order) - 1; i > 0; i-- {
		j := l.next(i + 1)
		order[i], order[j] = order[j], order[i]
	}
	out := make([]byte, 0, len(b))
	for _, n := range order {
		for _, r := range groups[n] {
			out = append(out, r...)
		}
	}
	return out
}

// InjectUnknown re-encodes a reference-encoded message with extra fields whose numbers the
// schema does not declare, inserted at pseudo-random positions of every message level
// (between fields; occurrences of a repeated field are kept contiguous). The declared content
// is unchanged, so the reference decoder still yields the same known fields.
func InjectUnknown(md protoreflect.MessageDescriptor, b []byte, seed uint64) []byte {
	l := lcg(seed | 1)
	return injectUnknown(md, b, &l)
}

func unknownField(md protoreflect.MessageDescriptor, l *lcg) []byte {
	var num protowire.Number
	for i := 0; i < 50; i++ {
		num = protowire.Number(1 + l.next(3000))
		if md.Fields().ByNumber(num) == nil && (num < 19000 || num > 19999) {
			break
		}
	}
	if md.Fields().ByNumber(num) != nil {
		num = 18999
	}
	switch l.next(4) {
	case 0:
		return protowire.AppendVarint(protowire.AppendTag(nil, num, protowire.VarintType), uint64(l.next(1<<20)))
	case 1:
		return protowire.AppendFixed64(protowire.AppendTag(nil, num, protowire.Fixed64Type), uint64(l.next(1<<30)))
	case 2:
		return protowire.AppendFixed32(protowire.AppendTag(nil, num, protowire.Fixed32Type), uint32(l.next(1<<30)))
	}
	payload := make([]byte, l.next(6))
	for i := range payload {
		payload[i] = byte(l.next(256))
	}
	return protowire.AppendBytes(protowire.AppendTag(nil, num, protowire.BytesType), payload)
}

func injectUnknown(md protoreflect.MessageDescriptor, b []byte, l *lcg) []byte {
	fs, err := Walk(b)
	if err != nil {
		return b
	}
	out := make([]byte, 0, len(b)+16)
	maybe := func() {
		if l.next(3) == 0 {
			out = append(out, unknownField(md, l)...)
		}
	}
	var prev protowire.Number = -1
	for _, f := range fs {
		if f.Num != prev {
			maybe()
		}
		prev = f.Num
		raw := b[f.Start:f.End]
		fd := md.Fields().ByNumber(f.Num)
		if fd != nil && f.Typ == protowire.BytesType && fd.Kind() == protoreflect.MessageKind {
			var inner []byte
			if fd.IsMap() {
				inner = append([]byte{}, b[f.VOff:f.End]...)
				if vd := fd.MapValue(); vd.Kind() == protoreflect.MessageKind {
					if efs, err := Walk(inner); err == nil {
						var re []byte
						for _, ef := range efs {
							if ef.Num == 2 && ef.Typ == protowire.BytesType {
								re = protowire.AppendTag(re, 2, protowire.BytesType)
								re = protowire.AppendBytes(re, injectUnknown(vd.Message(), inner[ef.VOff:ef.End], l))
							} else {
								re = append(re, inner[ef.Start:ef.End]...)
							}
						}
						inner = re
					}
				}
			} else {
				inner = injectUnknown(fd.Message(), b[f.VOff:f.End], l)
			}
			raw = protowire.AppendBytes(protowire.AppendTag(nil, f.Num, f.Typ), inner)
		}
		out = append(out, raw...)
	}
	maybe()
	return out
}

// Zap returns a copy of m in which every string and bytes value (not map keys) holds the same number of
// 'Z' bytes: a message of the same shape whose encodings differ from m's wherever m carries text.
func Zap(m protoreflect.Message) protoreflect.Message {
	out := m.New()
	m.Range(func(fd protoreflect.FieldDescriptor, v protoreflect.Value) bool {
		zs := func(fd protoreflect.FieldDescriptor, v protoreflect.Value) protoreflect.Value {
			switch fd.Kind() {
			case protoreflect.StringKind:
				return protoreflect.ValueOfString(string(bytes.Repeat([]byte{'Z'}, len(v.String()))))
			case protoreflect.BytesKind:
				return protoreflect.ValueOfBytes(bytes.Repeat([]byte{'Z'}, len(v.Bytes())))
			case protoreflect.MessageKind, protoreflect.GroupKind:
				return protoreflect.ValueOfMessage(Zap(v.Message()))
			}
			return v
		}
		switch {
		case fd.IsMap():
			mp := out.Mutable(fd).Map()
			v.Map().Range(func(k protoreflect.MapKey, e protoreflect.Value) bool {
				mp.Set(k, zs(fd.MapValue(), e))
				return true
			})
		case fd.IsList():
			l := out.Mutable(fd).List()
			for i := 0; i < v.List().Len(); i++ {
				l.Append(zs(fd, v.List().Get(i)))
			}
		default:
			out.Set(fd, zs(fd, v))
		}
		return true
	})
	return out
}
