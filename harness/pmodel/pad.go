package pmodel

import (
	"google.golang.org/protobuf/proto"
	"google.golang.org/protobuf/reflect/protoreflect"
	"pgregory.net/rapid"
)

// BoundarySizes are encoded sizes around the 1->2->3 byte length-prefix boundaries.
var BoundarySizes = []int{0, 1, 126, 127, 128, 129, 130, 255, 256, 16382, 16383, 16384, 16385}

// PadToBoundary picks a nested message (depth >= 1) with a singular string/bytes field and pads that
// field so that the encoded size of that message is exactly one of BoundarySizes. Returns the size hit (or -1).
func PadToBoundary(t *rapid.T, root protoreflect.Message) int {
	type cand struct {
		m  protoreflect.Message
		fd protoreflect.FieldDescriptor
	}
	var cands []cand
	var walk func(m protoreflect.Message, depth int)
	walk = func(m protoreflect.Message, depth int) {
		if depth > 0 {
			fds := m.Descriptor().Fields()
			for i := 0; i < fds.Len(); i++ {
				fd := fds.Get(i)
				if (fd.Kind() == protoreflect.StringKind || fd.Kind() == protoreflect.BytesKind) && !fd.IsList() && !fd.IsMap() {
					cands = append(cands, cand{m, fd})
				}
			}
		}
		m.Range(func(fd protoreflect.FieldDescriptor, v protoreflect.Value) bool {
			if fd.Kind() != protoreflect.MessageKind {
				return true
			}
			switch {
			case fd.IsMap():
				if fd.MapValue().Kind() == protoreflect.MessageKind {
					v.Map().Range(func(_ protoreflect.MapKey, e protoreflect.Value) bool { walk(e.Message(), depth+1); return true })
				}
			case fd.IsList():
				for i := 0; i < v.List().Len(); i++ {
					walk(v.List().Get(i).Message(), depth+1)
				}
			default:
				walk(v.Message(), depth+1)
			}
			return true
		})
	}
	walk(root, 0)
	if len(cands) == 0 {
		return -1
	}
	c := cands[rapid.IntRange(0, len(cands)-1).Draw(t, "padCand")]
	want := BoundarySizes[rapid.IntRange(2, len(BoundarySizes)-1).Draw(t, "padSize")]
	for iter := 0; iter < 4; iter++ {
		cur := proto.Size(c.m.Interface())
		if cur == want {
			return want
		}
		var have int
		if c.fd.Kind() == protoreflect.StringKind {
			have = len(c.m.Get(c.fd).String())
		} else {
			have = len(c.m.Get(c.fd).Bytes())
		}
		n := have + want - cur
		if n < 0 {
			return -1
		}
		pad := make([]byte, n)
		for i := range pad {
			pad[i] = 'p'
		}
		if c.fd.Kind() == protoreflect.StringKind {
			c.m.Set(c.fd, protoreflect.ValueOfString(string(pad)))
		} else {
			c.m.Set(c.fd, protoreflect.ValueOfBytes(pad))
		}
	}
	if proto.Size(c.m.Interface()) == want {
		return want
	}
	return -1
}
