// Package basecheck: EnableThriftBase — the request base comes from the context (j2t), the response base goes to the context (t2j).
package basecheck

import (
	"bytes"
	"context"
	"fmt"
	"sort"

	"github.com/cloudwego/dynamicgo/conv"
	"github.com/cloudwego/dynamicgo/conv/j2t"
	"github.com/cloudwego/dynamicgo/conv/t2j"
	"github.com/cloudwego/dynamicgo/thrift"
	"github.com/cloudwego/dynamicgo/thrift/base"
	gbase "github.com/cloudwego/gopkg/protocol/thrift/base"
	"pgregory.net/rapid"

	"verifharness/jmodel"
	"verifharness/pbt"
	tm "verifharness/tmodel"
)

const baseIDL = `namespace go base
struct TrafficEnv { 1: bool Open = false, 2: string Env = "" }
struct Base { 1: string LogID = "", 2: string Caller = "", 3: string Addr = "", 4: string Client = "", 5: optional TrafficEnv TrafficEnv, 6: optional map<string, string> Extra }
struct BaseResp { 1: string StatusMessage = "", 2: i32 StatusCode = 0, 3: optional map<string, string> Extra }
`

func mainIDL(reqBase, respBase string) string {
	return fmt.Sprintf(`include "base.thrift"
struct Inner { 1: i32 a, 255: base.Base Base }
struct Req { 1: string msg, 2: i64 n, 3: optional Inner inner, 255: %sbase.Base Base }
struct Resp { 1: string msg, 2: optional Inner inner, 255: %sbase.BaseResp BaseResp }
service Svc { Resp Call(1: Req req) }
`, reqBase, respBase)
}

type BaseVal struct {
	LogID, Caller, Addr, Client string
	HasEnv                      bool
	Open                        bool
	Env                         string
	Extra                       map[string]string // at most one entry (map order)
}

type ReqCase struct {
	Req       string   `json:"base_requiredness"` // "", "required ", "optional "
	Base      *BaseVal `json:"ctx_base"`          // nil: nothing in the context
	Enable    bool     `json:"enable_thrift_base"`
	WR        bool     `json:"write_require"`
	Msg       string   `json:"msg"`
	N         int64    `json:"n"`
	WithInner bool     `json:"with_inner"`
	BufMode   int      `json:"buf_mode"` // DoInto capacity: 0 total+rel, 1 rel mod (total+8), 2 len(base)+rel
	BufRel    int      `json:"buf_rel"`
}

var (
	compiled = map[string]*thrift.ServiceDescriptor{}
)

func compile(reqBase, respBase string) (*thrift.ServiceDescriptor, error) {
	k := reqBase + "|" + respBase
	if s, ok := compiled[k]; ok {
		return s, nil
	}
	s, err := thrift.Options{EnableThriftBase: true}.NewDescritorFromContent(context.Background(), "main.thrift", mainIDL(reqBase, respBase), map[string]string{"base.thrift": baseIDL}, true)
	if err == nil {
		compiled[k] = s
	}
	return s, err
}

func str(s string) *tm.Value { return &tm.Value{K: tm.STRING, S: []byte(s)} }

func strMap(m map[string]string) *tm.Value {
	v := &tm.Value{K: tm.MAP, KT: tm.STRING, ET: tm.STRING}
	keys := make([]string, 0, len(m))
	for k := range m {
		keys = append(keys, k)
	}
	sort.Strings(keys)
	for _, k := range keys {
		v.Keys = append(v.Keys, str(k))
		v.Elems = append(v.Elems, str(m[k]))
	}
	return v
}

func baseValue(b *BaseVal) *tm.Value {
	v := &tm.Value{K: tm.STRUCT, Fields: []tm.FieldVal{{ID: 1, V: str(b.LogID)}, {ID: 2, V: str(b.Caller)}, {ID: 3, V: str(b.Addr)}, {ID: 4, V: str(b.Client)}}}
	if b.HasEnv {
		v.Fields = append(v.Fields, tm.FieldVal{ID: 5, V: &tm.Value{K: tm.STRUCT, Fields: []tm.FieldVal{{ID: 1, V: &tm.Value{K: tm.BOOL, B: b.Open}}, {ID: 2, V: str(b.Env)}}}})
	}
	if b.Extra != nil {
		v.Fields = append(v.Fields, tm.FieldVal{ID: 6, V: strMap(b.Extra)})
	}
	return v
}

func checkReq(c *pbt.Ctx, cs ReqCase) {
	svc, err := compile(cs.Req, "")
	if err != nil {
		c.Failf("harness-idl", "%v", err)
	}
	desc := svc.Functions()["Call"].Request().Struct().FieldById(1).Type()
	doc := fmt.Sprintf(`{"msg":%q,"n":%d`, cs.Msg, cs.N)
	want := &tm.Value{K: tm.STRUCT, Fields: []tm.FieldVal{{ID: 1, V: str(cs.Msg)}, {ID: 2, V: &tm.Value{K: tm.I64, I: cs.N}}}}
	if cs.WithInner {
		// a base struct below the root is an ordinary field
		doc += `,"inner":{"a":7,"Base":{"LogID":"inner-log","Caller":"","Addr":"","Client":""}}`
		want.Fields = append(want.Fields, tm.FieldVal{ID: 3, V: &tm.Value{K: tm.STRUCT, Fields: []tm.FieldVal{{ID: 1, V: &tm.Value{K: tm.I32, I: 7}},
			{ID: 255, V: baseValue(&BaseVal{LogID: "inner-log"})}}}})
	}
	doc += "}"
	ctx := context.Background()
	if cs.Base != nil {
		b := &base.Base{LogID: cs.Base.LogID, Caller: cs.Base.Caller, Addr: cs.Base.Addr, Client: cs.Base.Client, Extra: cs.Base.Extra}
		if cs.Base.HasEnv {
			b.TrafficEnv = &gbase.TrafficEnv{Open: cs.Base.Open, Env: cs.Base.Env}
		}
		ctx = context.WithValue(ctx, conv.CtxKeyThriftReqBase, b)
	}
	switch {
	case cs.Enable && cs.Base != nil:
		want.Fields = append(want.Fields, tm.FieldVal{ID: 255, V: baseValue(cs.Base)})
	case cs.Enable && cs.WR && cs.Req == "required ":
		want.Fields = append(want.Fields, tm.FieldVal{ID: 255, V: baseValue(&BaseVal{})})
	}
	cv := j2t.NewBinaryConv(conv.Options{EnableThriftBase: cs.Enable, WriteRequireField: cs.WR})
	var out []byte
	c.Step("j2t with request base")
	if !c.Protect("", func() { out, err = cv.Do(ctx, desc, []byte(doc)) }) {
		return
	}
	if err != nil {
		c.Failf("unexpected-error", "j2t fails: %v\ndocument %s", err, doc)
		return
	}
	got, derr := tm.DecodeStrict(tm.STRUCT, out)
	if derr != nil {
		c.Failf("bad-output", "output is not well-formed Thrift: %v\n%x", derr, out)
		return
	}
	if d := tm.DiffFieldsByID(want, got); d != "" {
		c.Failf("wrong-fields", "output differs (want vs got): %s\ndocument %s, ctx base %+v, opts enable=%v wr=%v, field declared %q", d, doc, cs.Base, cs.Enable, cs.WR, cs.Req)
		return
	}
	// DoInto with a capacity around the output size / the base's size: same bytes, nothing written past the capacity
	capacity := len(out) + cs.BufRel
	switch cs.BufMode {
	case 1:
		capacity = ((cs.BufRel % (len(out) + 8)) + len(out) + 8) % (len(out) + 8)
	case 2:
		if cs.Base != nil {
			capacity = len(tm.EncodeValue(baseValue(cs.Base))) + cs.BufRel
		}
	}
	if capacity < 0 {
		capacity = 0
	}
	buf, guard := pbt.GuardedBuf(capacity)
	c.Step("j2t.DoInto cap=%d (output %d bytes)", capacity, len(out))
	var err2 error
	if !c.Protect("", func() { err2 = cv.DoInto(ctx, desc, []byte(doc), &buf) }) {
		return
	}
	if g := guard(buf); g != "" {
		c.Failf("buffer-overflow", "DoInto(cap=%d): %s", capacity, g)
		return
	}
	if err2 != nil || !bytes.Equal(buf, out) {
		c.Failf("dointo-differs", "DoInto(cap=%d): err=%v, output differs from Do's\n got  %x\n want %x\ndocument %s", capacity, err2, buf, out, doc)
		return
	}
	if cs.Enable && cs.Base != nil {
		c.NonTrivial()
		if capacity < len(out) {
			c.Class("dointo:cap<output")
		}
	}
}

var safe = []string{"", "a", "log-1", "127.0.0.1:8888", "svc.name", "x y", "\"q\"", "中"}

func genBase(t *rapid.T) *BaseVal {
	p := func(l string) string { return safe[rapid.IntRange(0, len(safe)-1).Draw(t, l)] }
	b := &BaseVal{LogID: p("logid"), Caller: p("caller"), Addr: p("addr"), Client: p("client"), HasEnv: rapid.Bool().Draw(t, "hasEnv")}
	if b.HasEnv {
		b.Open, b.Env = rapid.Bool().Draw(t, "open"), p("env")
	}
	switch rapid.IntRange(0, 2).Draw(t, "extra") {
	case 1:
		b.Extra = map[string]string{}
	case 2:
		b.Extra = map[string]string{p("extraK"): p("extraV")}
	}
	return b
}

// ReqProp: the request base.
func ReqProp(name string) pbt.Prop[ReqCase] {
	return pbt.Prop[ReqCase]{
		Name: name,
		Rule: "request struct with a root-level base.Base field (declared default / required / optional) parsed with EnableThriftBase, and a nested struct that also has a base.Base field; the base is supplied through the context (or not) x conv EnableThriftBase x WriteRequireField x DoInto with a capacity around the output size and around the base's size (same bytes, nothing written past the capacity); expected: the root base field is the context's base exactly (all four strings, TrafficEnv and Extra iff set), an empty base only when required and WriteRequireField, absent otherwise; the nested base comes from the JSON like any field; non-trivial = base supplied and option on",
		Gen: func(t *rapid.T) ReqCase {
			cs := ReqCase{Req: []string{"", "required ", "optional "}[rapid.IntRange(0, 2).Draw(t, "req")], Enable: rapid.IntRange(0, 3).Draw(t, "enable") != 0,
				WR: rapid.Bool().Draw(t, "wr"), Msg: safe[rapid.IntRange(0, len(safe)-1).Draw(t, "msg")], N: tm.GenInt(t, tm.I64), WithInner: rapid.Bool().Draw(t, "inner")}
			if rapid.IntRange(0, 3).Draw(t, "hasBase") != 0 {
				cs.Base = genBase(t)
			}
			cs.BufMode = []int{0, 0, 1, 2}[rapid.IntRange(0, 3).Draw(t, "bufMode")]
			cs.BufRel = rapid.IntRange(-8, 4).Draw(t, "bufRel")
			if cs.BufMode == 1 {
				cs.BufRel = rapid.IntRange(0, 400).Draw(t, "bufAbs")
			}
			return cs
		},
		Check: checkReq,
	}
}

// ---------------------------------------------------------------------------

type RespCase struct {
	Req     string            `json:"base_requiredness"`
	Status  string            `json:"status_message"`
	Code    int32             `json:"status_code"`
	Extra   map[string]string `json:"extra"`
	Present bool              `json:"present"` // the message carries the BaseResp field
	Enable  bool              `json:"enable_thrift_base"`
	Ctx     bool              `json:"ctx_has_receiver"`
	Msg     string            `json:"msg"`
}

func checkResp(c *pbt.Ctx, cs RespCase) {
	svc, err := compile("", cs.Req)
	if err != nil {
		c.Failf("harness-idl", "%v", err)
	}
	desc := svc.Functions()["Call"].Response().Struct().FieldById(0).Type()
	v := &tm.Value{K: tm.STRUCT, Fields: []tm.FieldVal{{ID: 1, V: str(cs.Msg)}}}
	if cs.Present {
		bv := &tm.Value{K: tm.STRUCT, Fields: []tm.FieldVal{{ID: 1, V: str(cs.Status)}, {ID: 2, V: &tm.Value{K: tm.I32, I: int64(cs.Code)}}}}
		if cs.Extra != nil {
			bv.Fields = append(bv.Fields, tm.FieldVal{ID: 3, V: strMap(cs.Extra)})
		}
		v.Fields = append(v.Fields, tm.FieldVal{ID: 255, V: bv})
	}
	enc := tm.Encode(v)
	ctx := context.Background()
	recv := &base.BaseResp{}
	if cs.Ctx {
		ctx = context.WithValue(ctx, conv.CtxKeyThriftRespBase, recv)
	}
	cv := t2j.NewBinaryConv(conv.Options{EnableThriftBase: cs.Enable})
	var out []byte
	c.Step("t2j with response base")
	if !c.Protect("", func() { out, err = cv.Do(ctx, desc, append(make([]byte, 0, len(enc)+16), enc...)) }) {
		return
	}
	if err != nil {
		c.Failf("unexpected-error", "t2j fails: %v", err)
		return
	}
	n, perr := jmodel.ParseRaw(out)
	if perr != nil || n.K != jmodel.Obj {
		c.Failf("bad-json", "%v: %s", perr, out)
		return
	}
	extracted := cs.Enable && cs.Ctx && cs.Present
	if m := n.Get("msg"); m == nil || m.K != jmodel.Str || m.Str != cs.Msg {
		c.Failf("wrong-json", "member msg wrong: %s", out)
		return
	}
	b := n.Get("BaseResp")
	if extracted {
		if b != nil {
			c.Failf("base-in-json", "the response base was extracted into the context but still appears in the JSON: %s", out)
			return
		}
		if recv.StatusMessage != cs.Status || recv.StatusCode != cs.Code || len(recv.Extra) != len(cs.Extra) || (cs.Extra != nil && fmt.Sprint(recv.Extra) != fmt.Sprint(cs.Extra)) {
			c.Failf("wrong-base", "context base = %+v, the message carries status %q code %d extra %v", *recv, cs.Status, cs.Code, cs.Extra)
			return
		}
		c.NonTrivial()
	} else {
		if cs.Present {
			if b == nil || b.K != jmodel.Obj || b.Get("StatusMessage") == nil || b.Get("StatusMessage").Str != cs.Status {
				c.Failf("wrong-json", "BaseResp must stay in the JSON body: %s", out)
				return
			}
			if code, ok := b.Get("StatusCode").Int(false); !ok || code.Int64() != int64(cs.Code) {
				c.Failf("wrong-json", "BaseResp.StatusCode wrong: %s", out)
				return
			}
		} else if b != nil {
			c.Failf("wrong-json", "BaseResp appears although absent: %s", out)
			return
		}
		if recv.StatusMessage != "" || recv.StatusCode != 0 || recv.Extra != nil {
			c.Failf("wrong-base", "the context base was written (%+v) although extraction does not apply (enable=%v ctx=%v present=%v)", *recv, cs.Enable, cs.Ctx, cs.Present)
			return
		}
	}
}

// RespProp: the response base.
func RespProp(name string) pbt.Prop[RespCase] {
	return pbt.Prop[RespCase]{
		Name: name,
		Rule: "response struct with a root-level base.BaseResp field parsed with EnableThriftBase; message with / without that field x conv EnableThriftBase x a *base.BaseResp receiver in the context or none; expected: with option, receiver and field present the receiver holds exactly the message's status message, code and extra map and the JSON has no BaseResp member; otherwise the member stays in the JSON (if present) and the receiver is untouched; non-trivial = extraction applies",
		Gen: func(t *rapid.T) RespCase {
			cs := RespCase{Req: []string{"", "required ", "optional "}[rapid.IntRange(0, 2).Draw(t, "req")], Status: safe[rapid.IntRange(0, len(safe)-1).Draw(t, "status")],
				Code: int32(tm.GenInt(t, tm.I32)), Present: rapid.IntRange(0, 4).Draw(t, "present") != 0, Enable: rapid.IntRange(0, 3).Draw(t, "enable") != 0,
				Ctx: rapid.IntRange(0, 3).Draw(t, "ctx") != 0, Msg: safe[rapid.IntRange(0, len(safe)-1).Draw(t, "msg")]}
			switch rapid.IntRange(0, 2).Draw(t, "extra") {
			case 1:
				cs.Extra = map[string]string{}
			case 2:
				cs.Extra = map[string]string{"k": safe[rapid.IntRange(0, len(safe)-1).Draw(t, "extraV")]}
			}
			if cs.Req == "required " {
				cs.Present = true
			}
			return cs
		},
		Check: checkResp,
	}
}
