// Package c14: generator of multi-file Thrift IDLs together with the model of what they declare.
package c14

import (
	"fmt"
	"strings"

	"pgregory.net/rapid"

	tm "verifharness/tmodel"
)

// Ty is a resolved type (typedefs and enums resolved).
type Ty struct {
	K      tm.Kind `json:"k"`
	Bin    bool    `json:"bin,omitempty"`
	Key    *Ty     `json:"key,omitempty"`
	Elem   *Ty     `json:"elem,omitempty"`
	Struct string  `json:"struct,omitempty"` // "file.Name"
	Enum   bool    `json:"enum,omitempty"`   // I32 (or I64 under ParseEnumAsInt64)
	Void   bool    `json:"void,omitempty"`
}

type Def struct {
	Kind string  `json:"kind"` // bool int double string enum
	B    bool    `json:"b,omitempty"`
	I    int64   `json:"i,omitempty"`
	F    float64 `json:"f,omitempty"`
	S    string  `json:"s,omitempty"`
	Ref  string  `json:"ref,omitempty"` // the default is written as a reference to this constant
}

type Fld struct {
	ID      int    `json:"id"`
	Name    string `json:"name"`
	Alias   string `json:"alias,omitempty"`
	Body    string `json:"body,omitempty"`     // api.body annotation (changes the alias only at the root of a request / response, under ApiBodyFastPath)
	Tag     string `json:"tag,omitempty"`      // go.tag = 'json:"<Tag>"' next to an explicit api.key (which is the declared alias, wherever it is written)
	KeyLast bool   `json:"key_last,omitempty"` // api.key is written after the other annotations
	// RootBase: a base.Base / base.BaseResp field of a struct that only ever is the root of a request / response:
	// under EnableThriftBase its requires bit is cleared (the base travels through the context), everything else stays as declared
	RootBase bool   `json:"root_base,omitempty"`
	Req      int    `json:"req,omitempty"`
	T        *Ty    `json:"t"`
	Text     string `json:"text"` // type as written
	Def      *Def   `json:"def,omitempty"`
}

type Str struct {
	Full   string `json:"full"`
	Kind   string `json:"kind"` // struct union exception
	Fields []Fld  `json:"fields"`
}

type Throw struct {
	ID   int    `json:"id"`
	Name string `json:"name"`
	T    *Ty    `json:"t"`
	Text string `json:"text"`
}

type Fn struct {
	Name    string `json:"name"`
	Oneway  bool   `json:"oneway,omitempty"`
	ArgID   int    `json:"arg_id"`
	ArgName string `json:"arg_name"`
	Arg     *Ty    `json:"arg"`
	ArgText string `json:"arg_text"`
	Ret     *Ty    `json:"ret"`
	RetText string `json:"ret_text"`
	Throw   *Throw `json:"throw,omitempty"`
}

type Svc struct {
	File    string `json:"file"`
	Name    string `json:"name"`
	Extends string `json:"extends,omitempty"` // as written ("Parent" or "inc.Base")
	Fns     []Fn   `json:"fns"`
}

type Model struct {
	Files   map[string]string `json:"files"`
	Structs map[string]*Str   `json:"structs"`
	Svcs    []Svc             `json:"svcs"` // all services; those of main.thrift in file order
}

// ---------------------------------------------------------------------------

// texpr is a type expression usable in one file: text + resolution.
type texpr struct {
	text string
	ty   *Ty
	key  bool // usable as map key / set element (scalars, typedefs of scalars, enums)
}

type constRef struct {
	ref string
	def Def
}

type fileCtx struct {
	consts map[string][]constRef // by "bool" "int" "double" "string" "enum:<type text>"
	name   string
	scalar []texpr // scalars, typedefs of scalars, enums
	all    []texpr // + structs, typedef'd containers / structs
}

var scalarTexts = []texpr{
	{"bool", &Ty{K: tm.BOOL}, true}, {"byte", &Ty{K: tm.BYTE}, true}, {"i8", &Ty{K: tm.BYTE}, true}, {"i16", &Ty{K: tm.I16}, true}, {"i32", &Ty{K: tm.I32}, true},
	{"i64", &Ty{K: tm.I64}, true}, {"double", &Ty{K: tm.DOUBLE}, true}, {"string", &Ty{K: tm.STRING}, true}, {"binary", &Ty{K: tm.STRING, Bin: true}, true},
}

func st(full string) *Ty { return &Ty{K: tm.STRUCT, Struct: full} }

func (fc *fileCtx) genType(t *rapid.T, depth int) texpr {
	c := rapid.IntRange(0, 9).Draw(t, "tyClass")
	if depth >= 2 && c >= 7 {
		c = 0
	}
	switch {
	case c < 4:
		return fc.scalar[rapid.IntRange(0, len(fc.scalar)-1).Draw(t, "scalarTy")]
	case c < 7:
		return fc.all[rapid.IntRange(0, len(fc.all)-1).Draw(t, "anyTy")]
	case c == 7:
		e := fc.genType(t, depth+1)
		return texpr{text: "list<" + e.text + ">", ty: &Ty{K: tm.LIST, Elem: e.ty}}
	case c == 8:
		e := fc.scalar[rapid.IntRange(0, len(fc.scalar)-1).Draw(t, "setElem")]
		return texpr{text: "set<" + e.text + ">", ty: &Ty{K: tm.SET, Elem: e.ty}}
	}
	k := fc.scalar[rapid.IntRange(0, len(fc.scalar)-1).Draw(t, "mapKey")]
	e := fc.genType(t, depth+1)
	return texpr{text: "map<" + k.text + "," + e.text + ">", ty: &Ty{K: tm.MAP, Key: k.ty, Elem: e.ty}}
}

var nameParts = []string{"a", "b", "c", "id", "foo", "Bar", "val", "x1", "data", "Item", "key", "msg", "n", "req_z", "UP"}

// DJBZero are identifiers whose 32-bit DJB hash is 0 (the open-addressing map uses hash 0 as its empty marker).
var DJBZero = []string{"f_abg_ajos", "f_hn_oanun", "f_rprcbbir"}

func genFieldName(t *rapid.T, used map[string]bool, mode int, i int) string {
	for try := 0; ; try++ {
		var s string
		switch {
		case mode == 1: // low dispersion: names over {a,b}, equal length -> hash map instead of trie
			n := rapid.IntRange(0, 63).Draw(t, "binName")
			s = ""
			for b := 5; b >= 0; b-- {
				s += string(rune('a' + (n>>uint(b))&1))
			}
		case mode == 2 && try == 0 && i == 0:
			s = DJBZero[rapid.IntRange(0, len(DJBZero)-1).Draw(t, "djbZero")]
		default:
			n := rapid.IntRange(1, 3).Draw(t, "nameLen")
			s = "f"
			for j := 0; j < n; j++ {
				s += "_" + nameParts[rapid.IntRange(0, len(nameParts)-1).Draw(t, "namePart")]
			}
			if rapid.IntRange(0, 30).Draw(t, "longName") == 0 {
				s += strings.Repeat("x", rapid.IntRange(50, 300).Draw(t, "longLen"))
			}
		}
		if try > 8 {
			s = fmt.Sprintf("%s%d", s, try)
		}
		if !used[s] {
			used[s] = true
			return s
		}
	}
}

// bytes an api.key may hold besides identifier characters (no quote, no backslash: the IDL literal stays plain)
var aliasPunct = []byte(" !#$%&'()*+,-./:;<=>?@[]^`{|}~")

var forcedIDs = []int{1, 2, 63, 64, 65, 127, 128, 255, 256, 257, 1000, 32767}

func (fc *fileCtx) genFields(t *rapid.T, n int, mode int, enums map[string][]enumVal) []Fld {
	usedN := map[string]bool{}
	usedA := map[string]bool{}
	usedID := map[int]bool{}
	var out []Fld
	for i := 0; i < n; i++ {
		f := Fld{Name: genFieldName(t, usedN, mode, i)}
		for {
			switch c := rapid.IntRange(0, 9).Draw(t, "idClass"); {
			case c < 7:
				f.ID = rapid.IntRange(1, 40+4*n).Draw(t, "id")
			case c < 9:
				f.ID = forcedIDs[rapid.IntRange(0, len(forcedIDs)-1).Draw(t, "idForced")]
			default:
				f.ID = rapid.IntRange(1, 32767).Draw(t, "idBig")
			}
			if !usedID[f.ID] {
				usedID[f.ID] = true
				break
			}
		}
		f.Req = rapid.IntRange(0, 2).Draw(t, "req")
		te := fc.genType(t, 0)
		f.T, f.Text = te.ty, te.text
		if rapid.IntRange(0, 3).Draw(t, "hasAlias") == 0 {
			a := "k_" + nameParts[rapid.IntRange(0, len(nameParts)-1).Draw(t, "aliasPart")] + fmt.Sprint(i)
			switch rapid.IntRange(0, 5).Draw(t, "aliasShape") {
			case 0:
				// JSON-style keys with punctuation (bytes below '.', where the trie index wraps, and above 'z');
				// aliases of this shape differ from each other in that one byte only
				a = "k" + string(aliasPunct[rapid.IntRange(0, len(aliasPunct)-1).Draw(t, "aliasPunct")]) + "x"
			case 1:
				a = nameParts[rapid.IntRange(0, len(nameParts)-1).Draw(t, "aliasPart2")] + string(aliasPunct[rapid.IntRange(0, len(aliasPunct)-1).Draw(t, "aliasPunct")]) + "id"
			}
			if !usedA[a] {
				usedA[a] = true
				f.Alias = a
				// the explicit api.key is the declared alias, also next to a go.tag that would yield another key and wherever it is written
				if rapid.IntRange(0, 2).Draw(t, "withTag") == 0 {
					f.Tag = fmt.Sprintf("t_%s%d", nameParts[rapid.IntRange(0, len(nameParts)-1).Draw(t, "tagPart")], i)
				}
				f.KeyLast = rapid.Bool().Draw(t, "keyLast")
			}
		}
		constKind := ""
		switch {
		case f.T.Enum:
			constKind = "enum:" + te.text
		case f.T.K == tm.BOOL:
			constKind = "bool"
		case f.T.K.IsInt():
			constKind = "int"
		case f.T.K == tm.DOUBLE:
			constKind = "double"
		case f.T.K == tm.STRING && !f.T.Bin:
			constKind = "string"
		}
		if cands := fc.consts[constKind]; len(cands) > 0 && rapid.IntRange(0, 5).Draw(t, "constDefault") == 0 {
			c := cands[rapid.IntRange(0, len(cands)-1).Draw(t, "constRef")]
			if !(f.T.K == tm.BYTE && (c.def.I > 127 || c.def.I < -128)) {
				d := c.def
				d.Ref = c.ref
				f.Def = &d
			}
		} else if rapid.IntRange(0, 2).Draw(t, "hasDefault") == 0 {
			switch {
			case f.T.Enum:
				vals := enums[te.text]
				if len(vals) > 0 {
					v := vals[rapid.IntRange(0, len(vals)-1).Draw(t, "defEnum")]
					f.Def = &Def{Kind: "enum", I: v.num, S: v.ref}
				}
			case f.T.K == tm.BOOL:
				f.Def = &Def{Kind: "bool", B: rapid.Bool().Draw(t, "defBool")}
			case f.T.K.IsInt():
				f.Def = &Def{Kind: "int", I: tm.GenInt(t, f.T.K)}
			case f.T.K == tm.DOUBLE:
				f.Def = &Def{Kind: "double", F: []float64{0, 1.5, -2.25, 100, 0.001, -7, 123456.789}[rapid.IntRange(0, 6).Draw(t, "defDouble")]}
			case f.T.K == tm.STRING && !f.T.Bin:
				f.Def = &Def{Kind: "string", S: []string{"", "x", "default value", "a/b"}[rapid.IntRange(0, 3).Draw(t, "defString")]}
			}
		}
		out = append(out, f)
	}
	if mode == 1 && len(out) >= 3 && rapid.Bool().Draw(t, "djbTwin") {
		// two declared names with the same 32-bit DJB hash: (..., 'a', 'b') and (..., 'b', 'A') since 33*'a'+'b' == 33*'b'+'A'
		for i := 1; i < len(out); i++ {
			if strings.HasSuffix(out[i].Name, "ab") {
				twin := out[i].Name[:len(out[i].Name)-2] + "bA"
				j := i%(len(out)-1) + 1
				if j != i && !usedN[twin] {
					delete(usedN, out[j].Name)
					out[j].Name = twin
					usedN[twin] = true
				}
				break
			}
		}
	}
	return out
}

type enumVal struct {
	ref string // as written in a default: Color.RED / inc.Color.RED
	num int64
}

func renderFields(b *strings.Builder, fs []Fld) {
	for _, f := range fs {
		req := ""
		switch f.Req {
		case tm.ReqRequired:
			req = "required "
		case tm.ReqOptional:
			req = "optional "
		}
		fmt.Fprintf(b, "  %d: %s%s %s", f.ID, req, f.Text, f.Name)
		if f.Def != nil && f.Def.Ref != "" {
			fmt.Fprintf(b, " = %s", f.Def.Ref)
		} else if f.Def != nil {
			switch f.Def.Kind {
			case "bool":
				fmt.Fprintf(b, " = %v", f.Def.B)
			case "int":
				fmt.Fprintf(b, " = %d", f.Def.I)
			case "double":
				s := fmt.Sprintf("%v", f.Def.F)
				if !strings.Contains(s, ".") {
					s += ".0"
				}
				fmt.Fprintf(b, " = %s", s)
			case "string":
				fmt.Fprintf(b, " = %q", f.Def.S)
			case "enum":
				fmt.Fprintf(b, " = %s", f.Def.S)
			}
		}
		var annos []string
		if f.Body != "" {
			annos = append(annos, fmt.Sprintf("api.body = %q", f.Body))
		}
		if f.Tag != "" {
			annos = append(annos, fmt.Sprintf("go.tag = 'json:\"%s\"'", f.Tag))
		}
		if f.Alias != "" {
			if f.KeyLast {
				annos = append(annos, fmt.Sprintf("api.key = %q", f.Alias))
			} else {
				annos = append([]string{fmt.Sprintf("api.key = %q", f.Alias)}, annos...)
			}
		}
		if len(annos) > 0 {
			fmt.Fprintf(b, " (%s)", strings.Join(annos, ", "))
		}
		b.WriteString(",\n")
	}
}

// GenModel draws two files: inc.thrift (namespace, enum, typedefs, structs incl. a self-recursive one, union, exception, a base service)
// and main.thrift (include, typedefs over included types, an enum and a struct whose simple names repeat those of inc.thrift,
// mutually recursive structs, a low-dispersion struct, services with same-file and cross-file inheritance).
func GenModel(t *rapid.T) *Model {
	m := &Model{Files: map[string]string{}, Structs: map[string]*Str{}}

	addStruct := func(fc *fileCtx, b *strings.Builder, kind, name string, n int, mode int, enums map[string][]enumVal) {
		s := &Str{Full: fc.name + "." + name, Kind: kind, Fields: fc.genFields(t, n, mode, enums)}
		if kind == "union" {
			for i := range s.Fields {
				s.Fields[i].Req = tm.ReqOptional // union members are implicitly optional
				s.Fields[i].Def = nil
			}
		}
		m.Structs[s.Full] = s
		fmt.Fprintf(b, "%s %s {\n", kind, name)
		renderFields(b, s.Fields)
		b.WriteString("}\n\n")
	}
	genFns := func(fc *fileCtx, prefix string, n int, reqs, rets, errs []texpr) []Fn {
		var fns []Fn
		for i := 0; i < n; i++ {
			a := reqs[rapid.IntRange(0, len(reqs)-1).Draw(t, "fnArg")]
			f := Fn{Name: fmt.Sprintf("%s%d", prefix, i), ArgID: []int{1, 1, 1, 2, 255}[rapid.IntRange(0, 4).Draw(t, "argID")], ArgName: []string{"req", "request", "r"}[rapid.IntRange(0, 2).Draw(t, "argName")],
				Arg: a.ty, ArgText: a.text}
			switch rapid.IntRange(0, 5).Draw(t, "retClass") {
			case 0:
				f.Ret, f.RetText = &Ty{Void: true}, "void"
				f.Oneway = rapid.Bool().Draw(t, "oneway")
			default:
				r := rets[rapid.IntRange(0, len(rets)-1).Draw(t, "fnRet")]
				f.Ret, f.RetText = r.ty, r.text
			}
			if !f.Oneway && len(errs) > 0 && rapid.IntRange(0, 2).Draw(t, "throws") == 0 {
				e := errs[rapid.IntRange(0, len(errs)-1).Draw(t, "fnErr")]
				f.Throw = &Throw{ID: []int{1, 2, 100}[rapid.IntRange(0, 2).Draw(t, "throwID")], Name: "err", T: e.ty, Text: e.text}
			}
			fns = append(fns, f)
		}
		return fns
	}
	renderSvc := func(b *strings.Builder, s Svc) {
		fmt.Fprintf(b, "service %s", s.Name)
		if s.Extends != "" {
			fmt.Fprintf(b, " extends %s", s.Extends)
		}
		b.WriteString(" {\n")
		for _, f := range s.Fns {
			ow := ""
			if f.Oneway {
				ow = "oneway "
			}
			fmt.Fprintf(b, "  %s%s %s(%d: %s %s)", ow, f.RetText, f.Name, f.ArgID, f.ArgText, f.ArgName)
			if f.Throw != nil {
				fmt.Fprintf(b, " throws (%d: %s %s)", f.Throw.ID, f.Throw.Text, f.Throw.Name)
			}
			b.WriteString(",\n")
		}
		b.WriteString("}\n\n")
	}

	// ---- root.thrift (included by inc.thrift only)
	rootEnums := map[string][]enumVal{"Color": {{"Color.CYAN", 11}}}
	rc := &fileCtx{name: "root", consts: map[string][]constRef{"int": {{"C_INT", Def{Kind: "int", I: 1001}}}, "string": {{"C_STR", Def{Kind: "string", S: "root-greeting"}}}}}
	rc.scalar = append(rc.scalar, scalarTexts...)
	rc.scalar = append(rc.scalar, texpr{"Color", &Ty{K: tm.I32, Enum: true}, true})
	rc.all = append(rc.all, texpr{"Item", st("root.Item"), false})
	var rb strings.Builder
	rb.WriteString("namespace go root\n\nenum Color { CYAN = 11 }\n\nconst i64 C_INT = 1001\nconst string C_STR = \"root-greeting\"\n\n")
	addStruct(rc, &rb, "struct", "Item", rapid.IntRange(1, 4).Draw(t, "nRootItem"), 0, rootEnums)
	rootStructs := []texpr{{"Item", st("root.Item"), false}}
	rootSvc := Svc{File: "root", Name: "Root", Fns: genFns(rc, "root", rapid.IntRange(1, 2).Draw(t, "nRootFns"), rootStructs, append(rootStructs, rc.scalar...), nil)}
	renderSvc(&rb, rootSvc)
	m.Svcs = append(m.Svcs, rootSvc)
	m.Files["root.thrift"] = rb.String()

	// ---- inc.thrift
	incEnums := map[string][]enumVal{"Color": {{"Color.RED", 0}, {"Color.GREEN", 5}, {"Color.NEG", -3}, {"Color.BIG", 2147483647}}}
	inc := &fileCtx{name: "inc", consts: map[string][]constRef{
		"int":        {{"C_INT", Def{Kind: "int", I: 7}}, {"C_CHAIN", Def{Kind: "int", I: 7}}, {"root.C_INT", Def{Kind: "int", I: 1001}}},
		"string":     {{"C_STR", Def{Kind: "string", S: "hello"}}, {"root.C_STR", Def{Kind: "string", S: "root-greeting"}}},
		"enum:Color": {{"C_COL", Def{Kind: "enum", I: 5}}},
		"double":     {{"C_DBL", Def{Kind: "double", F: 2.5}}},
		"bool":       {{"C_BOOL", Def{Kind: "bool", B: true}}}}}
	inc.scalar = append(inc.scalar, scalarTexts...)
	inc.scalar = append(inc.scalar, texpr{"Id", &Ty{K: tm.I64}, true}, texpr{"Str", &Ty{K: tm.STRING}, true}, texpr{"Blob", &Ty{K: tm.STRING, Bin: true}, true}, texpr{"Color", &Ty{K: tm.I32, Enum: true}, true})
	inc.all = append(inc.all, texpr{"Item", st("inc.Item"), false}, texpr{"Node", st("inc.Node"), false}, texpr{"U", st("inc.U"), false}, texpr{"Err", st("inc.Err"), false},
		texpr{"Items", &Ty{K: tm.LIST, Elem: st("inc.Item")}, false}, texpr{"Sub", st("inc.Sub"), false}, texpr{"root.Item", st("root.Item"), false})
	inc.scalar = append(inc.scalar, texpr{"root.Color", &Ty{K: tm.I32, Enum: true}, true})
	var ib strings.Builder
	ib.WriteString("namespace go inc\ninclude \"root.thrift\"\n\nenum Color { RED = 0, GREEN = 5, NEG = -3, BIG = 2147483647 }\n\ntypedef i64 Id\ntypedef string Str\ntypedef binary Blob\ntypedef list<Item> Items\n\n" +
		"const i64 C_INT = 7\nconst i64 C_CHAIN = C_INT\nconst string C_STR = \"hello\"\nconst Color C_COL = Color.GREEN\nconst double C_DBL = 2.5\nconst bool C_BOOL = true\n\n")
	addStruct(inc, &ib, "struct", "Sub", rapid.IntRange(0, 3).Draw(t, "nIncSub"), 0, incEnums)
	addStruct(inc, &ib, "struct", "Item", rapid.IntRange(1, 6).Draw(t, "nIncItem"), 0, incEnums)
	addStruct(inc, &ib, "struct", "Node", rapid.IntRange(1, 4).Draw(t, "nNode"), 0, incEnums)
	addStruct(inc, &ib, "union", "U", rapid.IntRange(1, 3).Draw(t, "nU"), 0, incEnums)
	addStruct(inc, &ib, "exception", "Err", rapid.IntRange(1, 3).Draw(t, "nErr"), 0, incEnums)
	incStructs := []texpr{{"Item", st("inc.Item"), false}, {"Node", st("inc.Node"), false}, {"Sub", st("inc.Sub"), false}}
	incErrs := []texpr{{"Err", st("inc.Err"), false}}
	base := Svc{File: "inc", Name: "Base", Extends: []string{"", "root.Root", "root.Root"}[rapid.IntRange(0, 2).Draw(t, "baseExtends")], Fns: genFns(inc, "base", rapid.IntRange(1, 2).Draw(t, "nBaseFns"), incStructs, append(incStructs, inc.scalar...), incErrs)}
	renderSvc(&ib, base)
	m.Svcs = append(m.Svcs, base)
	m.Files["inc.thrift"] = ib.String()

	// ---- main.thrift
	mainEnums := map[string][]enumVal{"Color": {{"Color.BLUE", 1}, {"Color.BLACK", 7}}, "inc.Color": {{"inc.Color.RED", 0}, {"inc.Color.GREEN", 5}, {"inc.Color.NEG", -3}},
		"Kind": {{"Kind.K0", 0}, {"Kind.K9", 9}}}
	mc := &fileCtx{name: "main", consts: map[string][]constRef{
		"int":            {{"C_INT", Def{Kind: "int", I: 99}}, {"C_LOCAL", Def{Kind: "int", I: 99}}, {"inc.C_INT", Def{Kind: "int", I: 7}}, {"inc.C_CHAIN", Def{Kind: "int", I: 7}}},
		"string":         {{"C_STR", Def{Kind: "string", S: "main-greeting"}}, {"inc.C_STR", Def{Kind: "string", S: "hello"}}},
		"enum:inc.Color": {{"inc.C_COL", Def{Kind: "enum", I: 5}}},
		"double":         {{"inc.C_DBL", Def{Kind: "double", F: 2.5}}},
		"bool":           {{"inc.C_BOOL", Def{Kind: "bool", B: true}}}}}
	mc.scalar = append(mc.scalar, scalarTexts...)
	mc.scalar = append(mc.scalar, texpr{"inc.Id", &Ty{K: tm.I64}, true}, texpr{"inc.Str", &Ty{K: tm.STRING}, true}, texpr{"inc.Blob", &Ty{K: tm.STRING, Bin: true}, true},
		texpr{"inc.Color", &Ty{K: tm.I32, Enum: true}, true}, texpr{"Color", &Ty{K: tm.I32, Enum: true}, true}, texpr{"Kind", &Ty{K: tm.I32, Enum: true}, true},
		texpr{"MyId", &Ty{K: tm.I64}, true}, texpr{"MyBlob", &Ty{K: tm.STRING, Bin: true}, true})
	mc.all = append(mc.all, texpr{"A", st("main.A"), false}, texpr{"B", st("main.B"), false}, texpr{"Item", st("main.Item"), false}, texpr{"inc.Item", st("inc.Item"), false},
		texpr{"inc.Node", st("inc.Node"), false}, texpr{"inc.U", st("inc.U"), false}, texpr{"XItem", st("inc.Item"), false}, texpr{"XItem2", st("inc.Item"), false},
		texpr{"inc.Items", &Ty{K: tm.LIST, Elem: st("inc.Item")}, false}, texpr{"M", &Ty{K: tm.MAP, Key: &Ty{K: tm.STRING}, Elem: &Ty{K: tm.I64}}, false},
		texpr{"LocalU", st("main.LocalU"), false}, texpr{"Wide", st("main.Wide"), false}, texpr{"inc.Sub", st("inc.Sub"), false}, texpr{"Sub", st("main.Sub"), false})
	var mb strings.Builder
	// base.thrift: the request / response base structs of the framework
	m.Files["base.thrift"] = "namespace go base\n\nstruct TrafficEnv {\n  1: bool Open = false,\n  2: string Env = \"\",\n}\n\nstruct Base {\n  1: string LogID = \"\",\n  2: string Caller = \"\",\n  3: string Addr = \"\",\n  4: string Client = \"\",\n  5: optional TrafficEnv TrafficEnv,\n  6: optional map<string, string> Extra,\n}\n\nstruct BaseResp {\n  1: string StatusMessage = \"\",\n  2: i32 StatusCode = 0,\n  3: optional map<string, string> Extra,\n}\n"
	{
		sdef := func(s string) *Def { return &Def{Kind: "string", S: s} }
		strT, mapT := &Ty{K: tm.STRING}, &Ty{K: tm.MAP, Key: &Ty{K: tm.STRING}, Elem: &Ty{K: tm.STRING}}
		m.Structs["base.TrafficEnv"] = &Str{Full: "base.TrafficEnv", Kind: "struct", Fields: []Fld{
			{ID: 1, Name: "Open", T: &Ty{K: tm.BOOL}, Text: "bool", Def: &Def{Kind: "bool"}}, {ID: 2, Name: "Env", T: strT, Text: "string", Def: sdef("")}}}
		m.Structs["base.Base"] = &Str{Full: "base.Base", Kind: "struct", Fields: []Fld{
			{ID: 1, Name: "LogID", T: strT, Text: "string", Def: sdef("")}, {ID: 2, Name: "Caller", T: strT, Text: "string", Def: sdef("")},
			{ID: 3, Name: "Addr", T: strT, Text: "string", Def: sdef("")}, {ID: 4, Name: "Client", T: strT, Text: "string", Def: sdef("")},
			{ID: 5, Name: "TrafficEnv", Req: tm.ReqOptional, T: st("base.TrafficEnv"), Text: "TrafficEnv"}, {ID: 6, Name: "Extra", Req: tm.ReqOptional, T: mapT, Text: "map<string, string>"}}}
		m.Structs["base.BaseResp"] = &Str{Full: "base.BaseResp", Kind: "struct", Fields: []Fld{
			{ID: 1, Name: "StatusMessage", T: strT, Text: "string", Def: sdef("")}, {ID: 2, Name: "StatusCode", T: &Ty{K: tm.I32}, Text: "i32", Def: &Def{Kind: "int"}},
			{ID: 3, Name: "Extra", Req: tm.ReqOptional, T: mapT, Text: "map<string, string>"}}}
	}
	mb.WriteString("namespace go main\ninclude \"inc.thrift\"\ninclude \"base.thrift\"\n\nenum Color { BLUE = 1, BLACK = 7 }\nenum Kind { K0 = 0, K9 = 9 }\n\ntypedef inc.Id MyId\ntypedef inc.Blob MyBlob\ntypedef inc.Item XItem\ntypedef XItem XItem2\ntypedef map<string, inc.Id> M\n\nconst i64 C_INT = 99\nconst string C_STR = \"main-greeting\"\nconst i64 C_LOCAL = C_INT\n\n")
	addStruct(mc, &mb, "struct", "Sub", rapid.IntRange(0, 3).Draw(t, "nMainSub"), 0, mainEnums)
	addStruct(mc, &mb, "struct", "Item", rapid.IntRange(1, 5).Draw(t, "nMainItem"), 0, mainEnums)
	addStruct(mc, &mb, "struct", "A", rapid.IntRange(1, 7).Draw(t, "nA"), 0, mainEnums)
	addStruct(mc, &mb, "struct", "B", rapid.IntRange(1, 5).Draw(t, "nB"), rapid.IntRange(0, 2).Draw(t, "modeB"), mainEnums)
	addStruct(mc, &mb, "union", "LocalU", rapid.IntRange(1, 3).Draw(t, "nLocalU"), 0, mainEnums)
	addStruct(mc, &mb, "exception", "LocalErr", rapid.IntRange(1, 3).Draw(t, "nLocalErr"), 0, mainEnums)
	wideMode := 1
	if rapid.IntRange(0, 3).Draw(t, "wideWithDJBZero") == 0 {
		wideMode = 2
	}
	nWide := rapid.IntRange(12, 60).Draw(t, "nWide")
	if wideMode == 2 {
		// one zero-hash name + low-dispersion names
		s := &Str{Full: "main.Wide", Kind: "struct"}
		fs := mc.genFields(t, nWide, 1, mainEnums)
		fs[0].Name = DJBZero[rapid.IntRange(0, len(DJBZero)-1).Draw(t, "djbZeroName")]
		s.Fields = fs
		m.Structs[s.Full] = s
		mb.WriteString("struct Wide {\n")
		renderFields(&mb, s.Fields)
		mb.WriteString("}\n\n")
	} else {
		addStruct(mc, &mb, "struct", "Wide", nWide, 1, mainEnums)
	}
	// Elem is never the root struct of a request or response: it only occurs as the element of a list argument / result;
	// its fields carry api.body, which must not touch their alias there (ApiBodyFastPath renames root fields only)
	{
		s := &Str{Full: "main.Elem", Kind: "struct"}
		fs := mc.genFields(t, rapid.IntRange(1, 4).Draw(t, "nElem"), 0, mainEnums)
		for i := range fs {
			fs[i].Alias, fs[i].Tag = "", ""
			fs[i].Body = "b_" + fs[i].Name
		}
		s.Fields = fs
		m.Structs[s.Full] = s
		mb.WriteString("struct Elem {\n")
		renderFields(&mb, s.Fields)
		mb.WriteString("}\n\n")
	}
	// NReq / NResp / NErr each occur in one role only (argument, result, thrown exception) and declare a field annotated api.none:
	// such a field is left out of a response descriptor and nowhere else, so the model of NResp does not list it
	for _, x := range []string{"NReq", "NResp", "NErr"} {
		kind := "struct"
		if x == "NErr" {
			kind = "exception"
		}
		all := []Fld{{ID: 1, Name: "keep_a", T: &Ty{K: tm.STRING}, Text: "string"}, {ID: 2, Name: "gone", T: &Ty{K: tm.I32}, Text: "i32"}, {ID: 3, Name: "keep_c", Req: tm.ReqRequired, T: &Ty{K: tm.I64}, Text: "i64"}}
		s := &Str{Full: "main." + x, Kind: kind, Fields: all}
		if x == "NResp" {
			s.Fields = []Fld{all[0], all[2]}
		}
		m.Structs[s.Full] = s
		fmt.Fprintf(&mb, "%s %s {\n  1: string keep_a,\n  2: i32 gone (api.none = \"true\"),\n  3: required i64 keep_c,\n}\n\n", kind, x)
	}
	// BReq / BResp only ever are the root of a request / response and carry the framework's base structs
	for _, x := range []struct{ name, ty, fld string }{{"BReq", "base.Base", "Base"}, {"BResp", "base.BaseResp", "BaseResp"}} {
		s := &Str{Full: "main." + x.name, Kind: "struct", Fields: []Fld{
			{ID: 1, Name: "msg", T: &Ty{K: tm.STRING}, Text: "string"},
			{ID: 255, Name: x.fld, Req: rapid.IntRange(0, 2).Draw(t, "baseReq"), T: st(x.ty), Text: x.ty, RootBase: true}}}
		m.Structs[s.Full] = s
		fmt.Fprintf(&mb, "struct %s {\n", x.name)
		renderFields(&mb, s.Fields)
		mb.WriteString("}\n\n")
	}
	mainStructs := []texpr{{"A", st("main.A"), false}, {"B", st("main.B"), false}, {"Item", st("main.Item"), false}, {"inc.Item", st("inc.Item"), false}, {"XItem", st("inc.Item"), false},
		{"Wide", st("main.Wide"), false}, {"inc.Node", st("inc.Node"), false}}
	mainErrs := []texpr{{"LocalErr", st("main.LocalErr"), false}, {"inc.Err", st("inc.Err"), false}}
	rets := append(append([]texpr{}, mainStructs...), mc.scalar...)
	rets = append(rets, texpr{"list<A>", &Ty{K: tm.LIST, Elem: st("main.A")}, false}, texpr{"M", &Ty{K: tm.MAP, Key: &Ty{K: tm.STRING}, Elem: &Ty{K: tm.I64}}, false})
	nsvc := rapid.IntRange(1, 3).Draw(t, "nSvc")
	for i := 0; i < nsvc; i++ {
		// (a service other than the first may have an empty body: it only inherits)
		nf := rapid.IntRange(1, 3).Draw(t, "nFns")
		if i > 0 && rapid.IntRange(0, 2).Draw(t, "emptyBody") == 0 {
			nf = 0
		}
		s := Svc{File: "main", Name: fmt.Sprintf("Svc%d", i), Fns: genFns(mc, fmt.Sprintf("s%dm", i), nf, mainStructs, rets, mainErrs)}
		switch rapid.IntRange(0, 3).Draw(t, "extends") {
		case 1:
			s.Extends = "inc.Base"
		case 2:
			if i > 0 {
				s.Extends = fmt.Sprintf("Svc%d", i-1)
			}
		}
		if i == 0 {
			le := &Ty{K: tm.LIST, Elem: st("main.Elem")}
			s.Fns = append(s.Fns, Fn{Name: "elems", ArgID: 1, ArgName: "req", Arg: le, ArgText: "list<Elem>", Ret: le, RetText: "list<Elem>"})
			s.Fns = append(s.Fns, Fn{Name: "none", ArgID: 1, ArgName: "req", Arg: st("main.NReq"), ArgText: "NReq", Ret: st("main.NResp"), RetText: "NResp",
				Throw: &Throw{ID: 1, Name: "err", T: st("main.NErr"), Text: "NErr"}})
			s.Fns = append(s.Fns, Fn{Name: "withbase", ArgID: 1, ArgName: "req", Arg: st("main.BReq"), ArgText: "BReq", Ret: st("main.BResp"), RetText: "BResp"})
		}
		renderSvc(&mb, s)
		m.Svcs = append(m.Svcs, s)
	}
	m.Files["main.thrift"] = mb.String()
	return m
}
