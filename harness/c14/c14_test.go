package c14

import (
	"bytes"
	"context"
	"errors"
	"fmt"
	"math"
	"sort"
	"strings"
	"testing"

	"github.com/cloudwego/dynamicgo/conv"
	"github.com/cloudwego/dynamicgo/conv/j2t"
	"github.com/cloudwego/dynamicgo/meta"
	"github.com/cloudwego/dynamicgo/thrift"
	_ "github.com/cloudwego/dynamicgo/thrift/annotation"
	"pgregory.net/rapid"

	"verifharness/jmodel"
	"verifharness/pbt"
	tm "verifharness/tmodel"
)

func TestMain(m *testing.M)   { pbt.Main(m, "C14") }
func TestReplay(t *testing.T) { pbt.Replay(t) }

type Opts struct {
	ServiceMode       int    `json:"service_mode"`
	ServiceName       string `json:"service_name,omitempty"`
	MapFieldWay       int    `json:"map_field_way"`
	EnumAsInt64       bool   `json:"enum_as_int64,omitempty"`
	SetOptionalBitmap bool   `json:"set_optional_bitmap,omitempty"`
	UseDefaultValue   bool   `json:"use_default_value,omitempty"`
	FunctionMode      int    `json:"function_mode"`
	ApiBodyFastPath   bool   `json:"api_body_fast_path,omitempty"`
	EnableThriftBase  bool   `json:"enable_thrift_base,omitempty"`
}

type Case struct {
	M         *Model `json:"m"`
	O         Opts   `json:"o"`
	FullSweep bool   `json:"full_sweep,omitempty"` // FieldById over all 65536 ids (else a boundary/neighbour sample)
	KeySeed   uint64 `json:"key_seed"`
}

type walker struct {
	c     *pbt.Ctx
	cs    Case
	seen  map[string]bool
	descs map[string]*thrift.TypeDescriptor // one descriptor per reached struct (for the native lookups)
}

func (w *walker) fail(sym, format string, a ...interface{}) {
	w.c.Failf(sym, format, a...)
}

func (w *walker) ty(path string, d *thrift.TypeDescriptor, t *Ty) {
	if d == nil {
		w.fail("nil-type", "%s: nil type descriptor", path)
		return
	}
	if t.Void {
		if d.Type() != thrift.VOID {
			w.fail("wrong-type", "%s: declared void, descriptor type %v", path, d.Type())
		}
		return
	}
	want := thrift.Type(t.K)
	if t.Enum && w.cs.O.EnumAsInt64 {
		want = thrift.I64
	}
	if d.Type() != want {
		w.fail("wrong-type", "%s: descriptor type %v, declared %v (enum=%v)", path, d.Type(), want, t.Enum)
		return
	}
	switch t.K {
	case tm.STRING:
		if d.IsBinary() != t.Bin {
			w.fail("wrong-binary-flag", "%s: IsBinary()=%v, declared binary=%v", path, d.IsBinary(), t.Bin)
		}
	case tm.LIST, tm.SET:
		w.ty(path+"[elem]", d.Elem(), t.Elem)
	case tm.MAP:
		w.ty(path+"{key}", d.Key(), t.Key)
		w.ty(path+"{value}", d.Elem(), t.Elem)
	case tm.STRUCT:
		w.strct(path, d, t.Struct)
	}
}

func wantBit(f *Fld, o Opts) bool {
	if f.RootBase && o.EnableThriftBase {
		return false // the base of a request / response travels through the context: never owed by the message
	}
	return f.Req != tm.ReqOptional || o.SetOptionalBitmap
}

func keysOf(f *Fld, way int) []string {
	alias := f.Alias
	if alias == "" {
		alias = f.Name
	}
	switch meta.MapFieldWay(way) {
	case meta.MapFieldUseAlias:
		return []string{alias}
	case meta.MapFieldUseFieldName:
		return []string{f.Name}
	}
	return []string{alias, f.Name}
}

func (w *walker) strct(path string, d *thrift.TypeDescriptor, full string) {
	st := d.Struct()
	if st == nil {
		w.fail("nil-struct", "%s: no struct descriptor for %s", path, full)
		return
	}
	key := fmt.Sprintf("%p|%s", st, full)
	if w.seen[key] {
		return
	}
	w.seen[key] = true
	if _, ok := w.descs[full]; !ok {
		w.descs[full] = d
	}
	decl := w.cs.M.Structs[full]
	simple := full[strings.Index(full, ".")+1:]
	if st.Name() != simple {
		w.fail("wrong-struct", "%s: struct descriptor is %q, the IDL names %s", path, st.Name(), full)
		return
	}
	if st.Len() != len(decl.Fields) || len(st.Fields()) != len(decl.Fields) {
		w.fail("field-count", "%s (%s): Len()=%d, %d fields listed, %d declared", path, full, st.Len(), len(st.Fields()), len(decl.Fields))
		return
	}
	byID := map[int]*Fld{}
	byKey := map[string]*Fld{}
	for i := range decl.Fields {
		f := &decl.Fields[i]
		byID[f.ID] = f
		for _, k := range keysOf(f, w.cs.O.MapFieldWay) {
			byKey[k] = f
		}
	}
	req := st.Requires()
	for i := range decl.Fields {
		f := &decl.Fields[i]
		fp := fmt.Sprintf("%s.%s", path, f.Name)
		fd := st.FieldById(thrift.FieldID(f.ID))
		if fd == nil {
			w.fail("declared-id-missing", "%s (%s): FieldById(%d) is nil, declared %q", path, full, f.ID, f.Name)
			return
		}
		alias := f.Alias
		if alias == "" {
			alias = f.Name
		}
		if int(fd.ID()) != f.ID || fd.Name() != f.Name || fd.Alias() != alias {
			w.fail("wrong-field-identity", "%s: id/name/alias = %d/%q/%q, declared %d/%q/%q", fp, fd.ID(), fd.Name(), fd.Alias(), f.ID, f.Name, alias)
			return
		}
		wantReq := map[int]thrift.Requireness{tm.ReqDefault: thrift.DefaultRequireness, tm.ReqRequired: thrift.RequiredRequireness, tm.ReqOptional: thrift.OptionalRequireness}[f.Req]
		if fd.Required() != wantReq {
			w.fail("wrong-requiredness", "%s: Required()=%v, declared %v", fp, fd.Required(), wantReq)
			return
		}
		if f.ID/64 >= len(req) {
			if wantBit(f, w.cs.O) {
				w.fail("wrong-bitmap", "%s: requires bitmap has %d words, field id %d owes a bit", fp, len(req), f.ID)
				return
			}
		} else if req.IsSet(thrift.FieldID(f.ID)) != wantBit(f, w.cs.O) {
			w.fail("wrong-bitmap", "%s: requires bit %v, expected %v (req=%d, SetOptionalBitmap=%v)", fp, req.IsSet(thrift.FieldID(f.ID)), wantBit(f, w.cs.O), f.Req, w.cs.O.SetOptionalBitmap)
			return
		}
		w.defaultValue(fp, fd, f)
		for _, k := range keysOf(f, w.cs.O.MapFieldWay) {
			if g := st.FieldByKey(k); g != fd {
				w.c.Fail(regionForKey(k, st), "declared-key-missing", "%s (%s): FieldByKey(%q) does not return field %d", path, full, k, f.ID)
				return
			}
		}
		w.ty(fp, fd.Type(), f.T)
	}
	// no bit for undeclared ids
	for wi, word := range req {
		for b := 0; b < 64; b++ {
			if word&(1<<uint(b)) != 0 && byID[wi*64+b] == nil {
				w.fail("wrong-bitmap", "%s (%s): requires bit set for undeclared id %d", path, full, wi*64+b)
				return
			}
		}
	}
	// id sweep
	check := func(id int) bool {
		fd := st.FieldById(thrift.FieldID(id))
		if (fd != nil) != (byID[id] != nil) {
			w.fail("id-lookup", "%s (%s): FieldById(%d) found=%v, declared=%v", path, full, id, fd != nil, byID[id] != nil)
			return false
		}
		return true
	}
	if w.cs.FullSweep {
		for id := 0; id <= 65535; id++ {
			if !check(id) {
				return
			}
		}
	} else {
		ids := []int{0, 32766, 32767, 32768, 65534, 65535}
		for id := 0; id <= 1100; id++ {
			ids = append(ids, id)
		}
		for id := range byID {
			ids = append(ids, id-1, id+1, id+64, id+256, id^0x8000)
		}
		for _, id := range ids {
			if id >= 0 && id <= 65535 && !check(id) {
				return
			}
		}
	}
	// key sweep
	for _, k := range keyFamily(decl, w.cs.O.MapFieldWay) {
		got := st.FieldByKey(k)
		want := byKey[k]
		if (got != nil) != (want != nil) || (got != nil && int(got.ID()) != want.ID) {
			w.fail("key-lookup", "%s (%s): FieldByKey(%q) found=%v, declared=%v", path, full, trunc(k), got != nil, want != nil)
			return
		}
	}
}

func regionForKey(k string, st *thrift.StructDescriptor) string {
	for _, z := range DJBZero {
		if k == z {
			return "djb-zero-key"
		}
	}
	return ""
}

func trunc(s string) string {
	if len(s) > 80 {
		return fmt.Sprintf("%s...(%d bytes)", s[:80], len(s))
	}
	return s
}

func (w *walker) defaultValue(fp string, fd *thrift.FieldDescriptor, f *Fld) {
	dv := fd.DefaultValue()
	if !w.cs.O.UseDefaultValue || f.Def == nil {
		if dv != nil {
			w.fail("unexpected-default", "%s: DefaultValue() is set (%v) although UseDefaultValue=%v / declared default=%v", fp, dv.GoValue(), w.cs.O.UseDefaultValue, f.Def != nil)
		}
		return
	}
	if dv == nil {
		w.fail("missing-default", "%s: declared default %+v not parsed", fp, *f.Def)
		return
	}
	var goWant interface{}
	var val *tm.Value
	switch f.Def.Kind {
	case "bool":
		goWant, val = f.Def.B, &tm.Value{K: tm.BOOL, B: f.Def.B}
	case "int":
		goWant, val = f.Def.I, &tm.Value{K: f.T.K, I: f.Def.I}
	case "enum":
		k := tm.I32
		if w.cs.O.EnumAsInt64 {
			k = tm.I64
		}
		goWant, val = f.Def.I, &tm.Value{K: k, I: f.Def.I}
	case "double":
		goWant, val = f.Def.F, &tm.Value{K: tm.DOUBLE, F: math.Float64bits(f.Def.F)}
	case "string":
		goWant, val = f.Def.S, &tm.Value{K: tm.STRING, S: []byte(f.Def.S)}
	}
	if dv.GoValue() != goWant {
		w.fail("wrong-default", "%s: default GoValue %#v, declared %#v", fp, dv.GoValue(), goWant)
		return
	}
	if enc := tm.EncodeValue(val); dv.ThriftBinary() != string(enc) {
		w.fail("wrong-default", "%s: default ThriftBinary %x, the declared default encodes as %x", fp, dv.ThriftBinary(), enc)
		return
	}
	n, err := jmodel.ParseRaw([]byte(dv.JSONValue()))
	ok := err == nil
	if ok {
		switch f.Def.Kind {
		case "bool":
			ok = n.K == jmodel.Bool && n.B == f.Def.B
		case "int", "enum":
			i, iok := n.Int(false)
			ok = iok && i.IsInt64() && i.Int64() == f.Def.I
		case "double":
			g, gok := n.Float()
			ok = gok && g == f.Def.F
		case "string":
			ok = n.K == jmodel.Str && n.Str == f.Def.S
		}
	}
	if !ok {
		w.fail("wrong-default", "%s: default JSONValue %q does not denote the declared default %+v", fp, dv.JSONValue(), *f.Def)
	}
}

// keyFamily: declared keys, their prefixes, one-byte extensions, single-position substitutions (incl. bytes < '.' and >= 0x80),
// same-length DJB-hash collisions, case variants, empty and very long keys.
func keyFamily(decl *Str, way int) []string {
	set := map[string]bool{"": true, "a": true, "_": true, strings.Repeat("k", 5000): true, "\x00": true, "\xff": true, "-": true, ".": true, "/": true}
	subs := []byte{0x00, 0x01, ' ', '+', '-', '.', '/', '0', 'A', '_', 'a', 'b', 0x7f, 0x80, 0xc3, 0xff}
	for i := range decl.Fields {
		f := &decl.Fields[i]
		for _, nm := range []string{f.Name, f.Alias} {
			if nm == "" {
				continue
			}
			set[nm] = true
			for j := 0; j <= len(nm) && j < 24; j++ {
				set[nm[:j]] = true
			}
			for _, b := range subs {
				set[nm+string([]byte{b})] = true
				set[string([]byte{b})+nm] = true
			}
			for j := 0; j < len(nm) && j < 16; j++ {
				for _, b := range subs {
					x := []byte(nm)
					x[j] = b
					set[string(x)] = true
				}
			}
			// DJB collisions of the same length: (c_i + 1, c_{i+1} - 33) keeps 33*c_i + c_{i+1}
			for j := 0; j+1 < len(nm) && j < 16; j++ {
				x := []byte(nm)
				if x[j] < 255 && x[j+1] >= 33 {
					x[j]++
					x[j+1] -= 33
					set[string(x)] = true
				}
			}
			set[strings.ToUpper(nm)] = true
			set[strings.ToLower(nm)] = true
			set[nm+nm] = true
		}
	}
	out := make([]string, 0, len(set))
	for k := range set {
		out = append(out, k)
	}
	sort.Strings(out)
	return out
}

func quoteKey(k string) []byte {
	b := []byte{'"'}
	for i := 0; i < len(k); i++ {
		c := k[i]
		switch {
		case c == '"' || c == '\\':
			b = append(b, '\\', c)
		case c < 0x20:
			b = append(b, fmt.Sprintf("\\u%04x", c)...)
		default:
			b = append(b, c)
		}
	}
	return append(b, '"')
}

type lcg uint64

func (l *lcg) n(k int) int {
	*l = *l*6364136223846793005 + 1442695040888963407
	return int((uint64(*l) >> 33) % uint64(k))
}

// nativeLookups asks the JSON->Thrift converter (native code on amd64) whether a key names a field:
// {"<key>": null} under DisallowUnknownField fails with ErrUnknownField exactly for undeclared keys.
func (w *walker) nativeLookups() {
	cv := j2t.NewBinaryConv(conv.Options{DisallowUnknownField: true, WriteRequireField: true})
	rnd := lcg(w.cs.KeySeed)
	names := make([]string, 0, len(w.descs))
	for n := range w.descs {
		names = append(names, n)
	}
	sort.Strings(names)
	for _, full := range names {
		d := w.descs[full]
		decl := w.cs.M.Structs[full]
		byKey := map[string]bool{}
		for i := range decl.Fields {
			for _, k := range keysOf(&decl.Fields[i], w.cs.O.MapFieldWay) {
				byKey[k] = true
			}
		}
		fam := keyFamily(decl, w.cs.O.MapFieldWay)
		var keys []string
		for k := range byKey {
			keys = append(keys, k)
		}
		sort.Strings(keys)
		for i := 0; i < 60 && len(fam) > 0; i++ {
			keys = append(keys, fam[rnd.n(len(fam))])
		}
		for _, k := range keys {
			if len(k) > 2000 {
				continue
			}
			doc := append([]byte("{"), quoteKey(k)...)
			doc = append(doc, ":null}"...)
			var err error
			w.c.Step("j2t lookup of key %q in %s", trunc(k), full)
			if !w.c.Protect("", func() { _, err = cv.Do(context.Background(), d, doc) }) {
				return
			}
			unknown := false
			for e := err; e != nil; e = errors.Unwrap(e) {
				if me, ok := e.(meta.Error); ok && me.Code.Behavior() == meta.ErrUnknownField {
					unknown = true
				}
			}
			if err != nil && !unknown {
				if byKey[k] || !bytes.ContainsAny([]byte(k), "\x00\x01\x80\xc3\xff") {
					w.c.Fail(regionForKey(k, nil), "native-key-lookup", "%s: converting %s failed with an unrelated error: %v", full, trunc(string(doc)), err)
					return
				}
				continue // a byte the JSON reader rejects: not a lookup result
			}
			if unknown == byKey[k] {
				w.c.Fail(regionForKey(k, nil), "native-key-lookup", "%s: native lookup of key %q: found=%v, declared=%v", full, trunc(k), !unknown, byKey[k])
				return
			}
		}
	}
}

// expectedFns: functions the selected services expose (own + inherited).
func expectedFns(m *Model, o Opts) (map[string]Fn, string, error) {
	var mainSvcs []Svc
	find := func(file, name string) *Svc {
		for i := range m.Svcs {
			if m.Svcs[i].File == file && m.Svcs[i].Name == name {
				return &m.Svcs[i]
			}
		}
		return nil
	}
	for _, s := range m.Svcs {
		if s.File == "main" {
			mainSvcs = append(mainSvcs, s)
		}
	}
	var sel []Svc
	name := ""
	switch {
	case o.ServiceName != "":
		s := find("main", o.ServiceName)
		if s == nil {
			return nil, "", fmt.Errorf("no such service")
		}
		sel, name = []Svc{*s}, o.ServiceName
	case meta.ParseServiceMode(o.ServiceMode) == meta.LastServiceOnly:
		sel, name = mainSvcs[len(mainSvcs)-1:], mainSvcs[len(mainSvcs)-1].Name
	case meta.ParseServiceMode(o.ServiceMode) == meta.FirstServiceOnly:
		sel, name = mainSvcs[:1], mainSvcs[0].Name
	default:
		sel, name = mainSvcs, "CombinedServices"
	}
	out := map[string]Fn{}
	dup := false
	var add func(s *Svc)
	add = func(s *Svc) {
		for _, f := range s.Fns {
			if _, ok := out[f.Name]; ok {
				dup = true
			}
			out[f.Name] = f
		}
		if s.Extends != "" {
			file, nm := s.File, s.Extends
			if i := strings.Index(nm, "."); i >= 0 {
				file, nm = nm[:i], nm[i+1:]
			}
			if p := find(file, nm); p != nil {
				add(p)
			}
		}
	}
	for i := range sel {
		add(&sel[i])
	}
	if dup {
		return out, name, fmt.Errorf("duplicate")
	}
	return out, name, nil
}

func check(c *pbt.Ctx, cs Case) {
	opts := thrift.Options{ParseServiceMode: meta.ParseServiceMode(cs.O.ServiceMode), ServiceName: cs.O.ServiceName, MapFieldWay: meta.MapFieldWay(cs.O.MapFieldWay),
		ParseEnumAsInt64: cs.O.EnumAsInt64, SetOptionalBitmap: cs.O.SetOptionalBitmap, UseDefaultValue: cs.O.UseDefaultValue,
		ParseFunctionMode: meta.ParseFunctionMode(cs.O.FunctionMode), ApiBodyFastPath: cs.O.ApiBodyFastPath, EnableThriftBase: cs.O.EnableThriftBase}
	want, svcName, dupErr := expectedFns(cs.M, cs.O)
	c.Step("parse opts=%+v", cs.O)
	svc, err := opts.NewDescritorFromContent(context.Background(), "main.thrift", cs.M.Files["main.thrift"], map[string]string{"inc.thrift": cs.M.Files["inc.thrift"], "root.thrift": cs.M.Files["root.thrift"], "base.thrift": cs.M.Files["base.thrift"]}, true)
	if dupErr != nil {
		// the same function reached twice through inheritance in combined mode: rejecting is allowed
		c.Class("duplicate-through-inheritance")
		if err != nil {
			return
		}
	}
	if err != nil {
		c.Failf("idl-error", "dynamicgo rejects the IDL: %v\n%s", err, cs.M.Files["main.thrift"])
		return
	}
	if svc.Name() != svcName {
		c.Failf("service-name", "Name()=%q, expected %q", svc.Name(), svcName)
		return
	}
	got := svc.Functions()
	var gn, wn []string
	for k := range got {
		gn = append(gn, k)
	}
	for k := range want {
		wn = append(wn, k)
	}
	sort.Strings(gn)
	sort.Strings(wn)
	if strings.Join(gn, ",") != strings.Join(wn, ",") {
		c.Failf("function-set", "functions %v, the selected service(s) declare (own + inherited) %v", gn, wn)
		return
	}
	w := &walker{c: c, cs: cs, seen: map[string]bool{}, descs: map[string]*thrift.TypeDescriptor{}}
	for _, name := range wn {
		f := want[name]
		fd, err := svc.LookupFunctionByMethod(name)
		if err != nil || fd == nil || fd.Name() != name {
			c.Failf("function-set", "LookupFunctionByMethod(%q): %v", name, err)
			return
		}
		if fd.Oneway() != f.Oneway {
			c.Failf("function-flags", "%s: Oneway()=%v declared %v", name, fd.Oneway(), f.Oneway)
			return
		}
		fm := meta.ParseFunctionMode(cs.O.FunctionMode)
		if (fd.Request() != nil) != (fm != meta.ParseResponseOnly) || (fd.Response() != nil) != (fm != meta.ParseRequestOnly) {
			c.Failf("function-mode", "%s: request parsed=%v response parsed=%v under ParseFunctionMode=%d", name, fd.Request() != nil, fd.Response() != nil, fm)
			return
		}
		if req := fd.Request(); req != nil {
			rs := req.Struct()
			if req.Type() != thrift.STRUCT || rs == nil {
				c.Failf("request-wrapper", "%s: request is not a wrapping struct", name)
				return
			}
			af := rs.FieldById(thrift.FieldID(f.ArgID))
			if af == nil || af.Name() != f.ArgName || rs.FieldByKey(f.ArgName) != af || len(rs.Fields()) != 1 {
				c.Failf("request-wrapper", "%s: wrapper does not expose exactly the declared argument %d:%s (fields %d)", name, f.ArgID, f.ArgName, len(rs.Fields()))
				return
			}
			for id := 0; id <= 300; id++ {
				if id != f.ArgID && rs.FieldById(thrift.FieldID(id)) != nil {
					c.Failf("request-wrapper", "%s: wrapper has an undeclared field id %d", name, id)
					return
				}
			}
			w.ty(name+"(req)", af.Type(), f.Arg)
		}
		if resp := fd.Response(); resp != nil {
			rs := resp.Struct()
			if resp.Type() != thrift.STRUCT || rs == nil {
				c.Failf("response-wrapper", "%s: response is not a wrapping struct", name)
				return
			}
			rf := rs.FieldById(0)
			if rf == nil {
				c.Failf("response-wrapper", "%s: wrapper has no field 0", name)
				return
			}
			w.ty(name+"(ret)", rf.Type(), f.Ret)
			nf := 1
			if f.Throw != nil {
				nf = 2
				ef := rs.FieldById(thrift.FieldID(f.Throw.ID))
				if ef == nil || ef.Name() != f.Throw.Name || rs.FieldByKey(f.Throw.Name) != ef {
					c.Failf("response-wrapper", "%s: wrapper does not expose the declared exception %d:%s", name, f.Throw.ID, f.Throw.Name)
					return
				}
				w.ty(name+"(throws)", ef.Type(), f.Throw.T)
			}
			if len(rs.Fields()) != nf {
				c.Failf("response-wrapper", "%s: wrapper lists %d fields, declared %d", name, len(rs.Fields()), nf)
				return
			}
			for id := 1; id <= 300; id++ {
				if (f.Throw == nil || id != f.Throw.ID) && rs.FieldById(thrift.FieldID(id)) != nil {
					c.Failf("response-wrapper", "%s: wrapper has an undeclared field id %d", name, id)
					return
				}
			}
		}
	}
	if _, err := svc.LookupFunctionByMethod("noSuchMethod"); err == nil {
		c.Failf("function-set", "LookupFunctionByMethod of an undeclared method succeeds")
		return
	}
	w.nativeLookups()
	if len(w.seen) >= 3 {
		c.NonTrivial()
	}
	for k := range w.seen {
		full := k[strings.Index(k, "|")+1:]
		if full == "main.Wide" {
			c.Class("low-dispersion-struct")
		}
		if full == "inc.Node" {
			c.Class("self-recursive-struct")
		}
	}
	c.Class(fmt.Sprintf("svcmode=%d,named=%v", cs.O.ServiceMode, cs.O.ServiceName != ""))
	c.Class(fmt.Sprintf("mapway=%d", cs.O.MapFieldWay))
}

var Prop = pbt.Register(pbt.Prop[Case]{
	Name: "TestThriftDescriptors",
	Rule: "generated three-file IDLs (main includes inc includes root; defaults naming literals, enum values and constants of the own or an included file incl. constant chains and constant names repeated across files; namespaces, typedefs of scalars/containers/structs and typedef chains across files, enums with negative and large values, unions, exceptions, self- and mutually recursive structs, simple names declared in both files, a low-dispersion struct that forces the hash map, names whose DJB hash is 0, ids up to 32767, aliases, a struct with api.body fields that only occurs as the element of a list argument and result, structs with an api.none field in the roles argument / result / thrown exception (the field is left out of the result's descriptor only), request / response structs with base.Base / base.BaseResp fields of every requiredness (under EnableThriftBase their requires bit is cleared, Required() stays as declared), requiredness, scalar and enum defaults, services with same-file and cross-file inheritance, void/oneway/throws) x parse options (ParseServiceMode, ServiceName, MapFieldWay, ParseEnumAsInt64, SetOptionalBitmap, UseDefaultValue, ParseFunctionMode, ApiBodyFastPath, EnableThriftBase); oracle = the generator's own model of the declarations: function set (own + inherited), wrappers, per reachable struct exactly the declared fields (id, name, alias, requiredness, bitmap bit, resolved type structure, default value in Go/Thrift/JSON form); FieldById over 0..65535 (full sweep in 1/8 of the cases, boundary/neighbour sample otherwise) and FieldByKey over a key family must find a field iff declared; the same key family is put to the native lookup through j2t single-member documents; non-trivial = >= 3 struct types reached",
	Gen: func(t *rapid.T) Case {
		m := GenModel(t)
		var o Opts
		o.ServiceMode = rapid.IntRange(0, 2).Draw(t, "serviceMode")
		if rapid.IntRange(0, 3).Draw(t, "byName") == 0 {
			var names []string
			for _, s := range m.Svcs {
				if s.File == "main" {
					names = append(names, s.Name)
				}
			}
			o.ServiceName = names[rapid.IntRange(0, len(names)-1).Draw(t, "serviceName")]
		}
		o.MapFieldWay = rapid.IntRange(0, 2).Draw(t, "mapFieldWay")
		o.EnumAsInt64 = rapid.Bool().Draw(t, "enumAsInt64")
		o.SetOptionalBitmap = rapid.Bool().Draw(t, "setOptionalBitmap")
		o.UseDefaultValue = rapid.Bool().Draw(t, "useDefaultValue")
		o.FunctionMode = rapid.IntRange(0, 2).Draw(t, "functionMode")
		o.ApiBodyFastPath = rapid.Bool().Draw(t, "apiBodyFastPath")
		o.EnableThriftBase = rapid.Bool().Draw(t, "enableThriftBase")
		return Case{M: m, O: o, FullSweep: rapid.IntRange(0, 7).Draw(t, "fullSweep") == 0, KeySeed: rapid.Uint64().Draw(t, "keySeed")}
	},
	Check: check,
})

func TestThriftDescriptors(t *testing.T) { pbt.Run(t, Prop) }
