package c03

import (
	"testing"

	"verifharness/basecheck"
	"verifharness/pbt"
	"verifharness/t2jcheck"
)

func TestMain(m *testing.M)   { pbt.Main(m, "C03") }
func TestReplay(t *testing.T) { pbt.Replay(t) }

var Prop = pbt.Register(t2jcheck.Prop("TestThriftToJSON"))

func TestThriftToJSON(t *testing.T) { pbt.Run(t, Prop) }

var Base = pbt.Register(basecheck.RespProp("TestResponseBase"))

func TestResponseBase(t *testing.T) { pbt.Run(t, Base) }
