package c03

import (
	"testing"

	"verifharness/basecheck"
	"verifharness/pbt"
	"verifharness/t2jcheck"
)

func TestMain(m *testing.M)   { pbt.Main(m, "C03") }
func TestReplay(t *testing.T) { pbt.Replay(t) }

var Prop = pbt.Register(t2jcheck.Prop("TestThriftToJSON"))

func TestThriftToJSON(t *testing.T) { pbt.Run(t, Prop) }

var Base = pbt.Register(basecheck.RespProp("TestResponseBase"))

func TestResponseBase(t *testing.T) { pbt.Run(t, Base) }

// t2j into caller buffers of every capacity: same text, no panic.
var T2JSweep = pbt.Register(t2jcheck.SweepProp("TestT2JCapacitySweep"))

func TestT2JCapacitySweep(t *testing.T) { pbt.Run(t, T2JSweep) }
