package c07

import (
	"fmt"
	"testing"

	dproto "github.com/cloudwego/dynamicgo/proto"
	"github.com/cloudwego/dynamicgo/proto/generic"
	"google.golang.org/protobuf/reflect/protoreflect"
	"google.golang.org/protobuf/types/dynamicpb"
	"pgregory.net/rapid"

	"verifharness/pbt"
	"verifharness/pmodel"
)

// Repeated numeric fields declared [packed = false]: the reference encoder writes one tag per element.
// dynamicgo's TypeDescriptor.IsPacked only looks at the element type, so the generic reads treat such a
// field as a packed block (known finding C07-unpacked-numeric-list). The test keeps the finding visible:
// every deviation is reported under that region, and the test passes without hits once the reads are right.

const unpackedProto = `syntax = "proto3";
package pkg;
enum E { E0 = 0; E1 = 1; E5 = 5; }
message Root {
	repeated int32 i32s = 1 [packed = false];
	repeated sint64 s64s = 2 [packed = false];
	repeated fixed32 f32s = 3 [packed = false];
	repeated double ds = 4 [packed = false];
	repeated bool bs = 5 [packed = false];
	repeated E es = 6 [packed = false];
	repeated int32 packed = 7;
	string tail = 8;
}
service Svc { rpc Call(Root) returns (Root); }
`

type UnpackedCase struct {
	Field int     `json:"field"` // 1..6
	Vals  []int64 `json:"vals"`
	Tail  bool    `json:"tail"`
}

func checkUnpacked(c *pbt.Ctx, cs UnpackedCase) {
	comp, err := pmodel.Compile(map[string]string{"main.proto": unpackedProto}, "main.proto")
	if err != nil || comp.SvcErr != nil {
		c.Failf("harness-schema", "schema rejected: %v %v", err, comp.SvcErr)
	}
	md := comp.Msg("pkg.Root")
	fd := md.Fields().ByNumber(protoreflect.FieldNumber(cs.Field))
	m := dynamicpb.NewMessage(md)
	l := m.Mutable(fd).List()
	for _, v := range cs.Vals {
		switch fd.Kind() {
		case protoreflect.Int32Kind:
			l.Append(protoreflect.ValueOfInt32(int32(v)))
		case protoreflect.Sint64Kind:
			l.Append(protoreflect.ValueOfInt64(v))
		case protoreflect.Fixed32Kind:
			l.Append(protoreflect.ValueOfUint32(uint32(v)))
		case protoreflect.DoubleKind:
			l.Append(protoreflect.ValueOfFloat64(float64(v) / 4))
		case protoreflect.BoolKind:
			l.Append(protoreflect.ValueOfBool(v&1 == 1))
		default:
			l.Append(protoreflect.ValueOfEnum(protoreflect.EnumNumber([]int32{0, 1, 5}[uint64(v)%3])))
		}
	}
	if cs.Tail {
		m.Set(md.Fields().ByName("tail"), protoreflect.ValueOfString("t"))
	}
	msg := pmodel.Marshal(m)
	desc := comp.Svc.LookupMethodByName("Call").Input()
	e := &env{c: c, opts: &generic.Options{}}
	e.root = generic.NewRootValue(desc, append(make([]byte, 0, len(msg)+16), msg...))
	const reg = "unpacked-numeric-list"
	c.NonTrivial()
	c.Class(fmt.Sprintf("kind=%s", fd.Kind()))
	c.Step("GetByPath of the [packed=false] field %s (%d elements)", fd.Name(), len(cs.Vals))
	var got generic.Value
	if !c.Protect(reg, func() { got = e.root.GetByPath(generic.NewPathFieldId(dproto.FieldNumber(cs.Field))) }) {
		return
	}
	if got.IsError() {
		c.Fail(reg, "present-reported-error", "GetByPath of %s: %v", fd.Name(), got.Error())
		return
	}
	if n, lerr := got.Len(); lerr != nil || n != len(cs.Vals) {
		if c.Fail(reg, "wrong-len", "%s: Len()=%d,%v reference %d", fd.Name(), n, lerr, len(cs.Vals)) {
			return
		}
	}
	iw := ifaceList(fd, m.Get(fd).List(), false)
	var ig interface{}
	var ierr error
	if !c.Protect(reg, func() { ig, ierr = got.Interface(e.opts) }) {
		return
	}
	if ierr != nil || goEq(ig, iw, "$") != "" {
		if c.Fail(reg, "interface-mismatch", "%s: Interface(): err=%v diff=%s", fd.Name(), ierr, goEq(ig, iw, "$")) {
			return
		}
	}
}

var UnpackedProp = pbt.Register(pbt.Prop[UnpackedCase]{
	Name: "TestUnpackedNumericLists",
	Rule: "fixed schema with repeated int32 / sint64 / fixed32 / double / bool / enum fields declared [packed = false]; 1..5 drawn elements encoded by protobuf-go (one tag per element), optionally followed by another field; GetByPath of the field must be a LIST of that length whose Interface() equals the reference values; deviations are attributed to the known finding C07-unpacked-numeric-list; every case is non-trivial",
	Gen: func(t *rapid.T) UnpackedCase {
		cs := UnpackedCase{Field: rapid.IntRange(1, 6).Draw(t, "field"), Tail: rapid.Bool().Draw(t, "tail")}
		for i, n := 0, rapid.IntRange(1, 5).Draw(t, "n"); i < n; i++ {
			cs.Vals = append(cs.Vals, int64(rapid.IntRange(-300, 300).Draw(t, "v")))
		}
		return cs
	},
	Check: checkUnpacked,
})

func TestUnpackedNumericLists(t *testing.T) { pbt.Run(t, UnpackedProp) }
