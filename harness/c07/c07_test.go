package c07

import (
	"bytes"
	"fmt"
	"math"
	"sort"
	"testing"

	dproto "github.com/cloudwego/dynamicgo/proto"
	"github.com/cloudwego/dynamicgo/proto/generic"
	"google.golang.org/protobuf/encoding/protowire"
	"google.golang.org/protobuf/proto"
	"google.golang.org/protobuf/reflect/protoreflect"
	"pgregory.net/rapid"

	"verifharness/pbt"
	"verifharness/pmodel"
)

func TestMain(m *testing.M)   { pbt.Main(m, "C07") }
func TestReplay(t *testing.T) { pbt.Replay(t) }

type Case struct {
	Schema pmodel.Schema `json:"schema"`
	Msg    []byte        `json:"msg"`
	ById   bool          `json:"map_struct_by_id"`
	Pick   uint64        `json:"pick"`
}

type env struct {
	c     *pbt.Ctx
	root  generic.Value
	opts  *generic.Options
	nodes int
	rnd   lcg
}

type lcg uint64

func (l *lcg) n(k int) int {
	*l = *l*6364136223846793005 + 1442695040888963407
	if k <= 0 {
		return 0
	}
	return int((uint64(*l) >> 33) % uint64(k))
}

// bulk compares a GetMany on a list or map value with the single lookups: the wanted paths are given in a
// drawn order (a subset of the present ones, in any order, plus absent ones), every present one must deliver
// the node the single lookup delivers, every absent one an empty slot.
func (e *env) bulk(reg, ps string, got generic.Value, present []generic.Path, absent []generic.Path, single func(generic.Path) generic.Value) {
	c := e.c
	var pn []generic.PathNode
	var isPresent []bool
	perm := make([]int, len(present))
	for i := range perm {
		perm[i] = i
	}
	for i := len(perm) - 1; i > 0; i-- {
		j := e.rnd.n(i + 1)
		perm[i], perm[j] = perm[j], perm[i]
	}
	take := len(perm)
	if take > 1 && e.rnd.n(2) == 0 {
		take = 1 + e.rnd.n(take)
	}
	for _, i := range perm[:take] {
		pn = append(pn, generic.PathNode{Path: present[i]})
		isPresent = append(isPresent, true)
	}
	for _, a := range absent {
		at := e.rnd.n(len(pn) + 1)
		pn = append(pn[:at], append([]generic.PathNode{{Path: a}}, pn[at:]...)...)
		isPresent = append(isPresent[:at], append([]bool{false}, isPresent[at:]...)...)
	}
	if len(pn) == 0 {
		return
	}
	marker := generic.NewNode(dproto.STRING, []byte("dirty-slot"))
	for i := range pn {
		pn[i].Node = marker
	}
	order := ""
	for _, q := range pn {
		order += pathStr([]generic.Path{q.Path}) + " "
	}
	c.Step("GetMany %s [%s]", ps, order)
	c.Class(fmt.Sprintf("bulk:n=%d", min(len(pn), 4)))
	c.Protect(reg, func() {
		if err := got.GetMany(pn, &generic.Options{ClearDirtyValues: true}); err != nil {
			c.Fail(reg, "getmany-error", "GetMany %s [%s]: %v", ps, order, err)
			return
		}
		for i := range pn {
			g := pn[i].Node
			if !isPresent[i] {
				if g.Type() != 0 && !g.IsError() {
					c.Fail(reg, "getmany-absent-filled", "GetMany %s [%s]: absent %s delivered as %v", ps, order, pathStr([]generic.Path{pn[i].Path}), g.Type())
				}
				continue
			}
			w := single(pn[i].Path)
			if w.IsError() {
				continue // reported by the single lookups
			}
			if g.IsError() || g.Type() == 0 || !bytes.Equal(g.Raw(), w.Raw()) || g.Type() != w.Type() {
				if c.Fail(reg, "getmany-missed-present", "GetMany %s [%s]: present %s not delivered as the single lookup delivers it (type %v, %d bytes; single lookup: type %v, %d bytes)", ps, order, pathStr([]generic.Path{pn[i].Path}), g.Type(), len(g.Raw()), w.Type(), len(w.Raw())) {
					return
				}
			}
		}
	})
}

// ---- expected Go values for Interface()

func ifaceScalar(fd protoreflect.FieldDescriptor, v protoreflect.Value) interface{} {
	switch fd.Kind() {
	case protoreflect.BoolKind:
		return v.Bool()
	case protoreflect.EnumKind:
		return int(v.Enum())
	case protoreflect.Int32Kind, protoreflect.Sint32Kind, protoreflect.Sfixed32Kind, protoreflect.Int64Kind, protoreflect.Sint64Kind, protoreflect.Sfixed64Kind:
		return int(v.Int())
	case protoreflect.Uint32Kind, protoreflect.Fixed32Kind, protoreflect.Uint64Kind, protoreflect.Fixed64Kind:
		return uint(v.Uint())
	case protoreflect.FloatKind:
		return float64(float32(v.Float()))
	case protoreflect.DoubleKind:
		return v.Float()
	case protoreflect.StringKind:
		return v.String()
	case protoreflect.BytesKind:
		return append([]byte{}, v.Bytes()...)
	}
	panic("kind")
}

func ifaceMsg(m protoreflect.Message, byID bool) interface{} {
	r1 := map[dproto.FieldNumber]interface{}{}
	r2 := map[int]interface{}{}
	m.Range(func(fd protoreflect.FieldDescriptor, v protoreflect.Value) bool {
		var x interface{}
		switch {
		case fd.IsMap():
			if v.Map().Len() == 0 {
				return true
			}
			x = ifaceMap(fd, v.Map(), byID)
		case fd.IsList():
			if v.List().Len() == 0 {
				return true
			}
			x = ifaceList(fd, v.List(), byID)
		case fd.Kind() == protoreflect.MessageKind:
			x = ifaceMsg(v.Message(), byID)
		default:
			x = ifaceScalar(fd, v)
		}
		r1[dproto.FieldNumber(fd.Number())] = x
		r2[int(fd.Number())] = x
		return true
	})
	if byID {
		return r1
	}
	return r2
}

func ifaceList(fd protoreflect.FieldDescriptor, l protoreflect.List, byID bool) interface{} {
	out := make([]interface{}, 0, l.Len())
	for i := 0; i < l.Len(); i++ {
		if fd.Kind() == protoreflect.MessageKind {
			out = append(out, ifaceMsg(l.Get(i).Message(), byID))
		} else {
			out = append(out, ifaceScalar(fd, l.Get(i)))
		}
	}
	return out
}

func ifaceMap(fd protoreflect.FieldDescriptor, mp protoreflect.Map, byID bool) interface{} {
	vd := fd.MapValue()
	conv := func(v protoreflect.Value) interface{} {
		if vd.Kind() == protoreflect.MessageKind {
			return ifaceMsg(v.Message(), byID)
		}
		return ifaceScalar(vd, v)
	}
	if fd.MapKey().Kind() == protoreflect.StringKind {
		out := map[string]interface{}{}
		mp.Range(func(k protoreflect.MapKey, v protoreflect.Value) bool { out[k.String()] = conv(v); return true })
		return out
	}
	out := map[int]interface{}{}
	mp.Range(func(k protoreflect.MapKey, v protoreflect.Value) bool {
		out[keyInt(fd.MapKey(), k)] = conv(v)
		return true
	})
	return out
}

func keyInt(kd protoreflect.FieldDescriptor, k protoreflect.MapKey) int {
	switch kd.Kind() {
	case protoreflect.Uint32Kind, protoreflect.Fixed32Kind, protoreflect.Uint64Kind, protoreflect.Fixed64Kind:
		return int(k.Uint())
	case protoreflect.BoolKind:
		if k.Bool() {
			return 1
		}
		return 0
	}
	return int(k.Int())
}

func goEq(a, b interface{}, path string) string {
	switch x := a.(type) {
	case float64:
		y, ok := b.(float64)
		if !ok || math.Float64bits(x) != math.Float64bits(y) {
			return fmt.Sprintf("%s: %#v vs %#v", path, a, b)
		}
		return ""
	case []byte:
		y, ok := b.([]byte)
		if !ok || !bytes.Equal(x, y) {
			return fmt.Sprintf("%s: %#v vs %#v", path, a, b)
		}
		return ""
	case []interface{}:
		y, ok := b.([]interface{})
		if !ok || len(x) != len(y) {
			return fmt.Sprintf("%s: list %d vs %T", path, len(x), b)
		}
		for i := range x {
			if d := goEq(x[i], y[i], fmt.Sprintf("%s[%d]", path, i)); d != "" {
				return d
			}
		}
		return ""
	case map[string]interface{}:
		y, ok := b.(map[string]interface{})
		if !ok || len(x) != len(y) {
			return fmt.Sprintf("%s: %T(%d) vs %T", path, a, len(x), b)
		}
		for k, v := range x {
			w, ok := y[k]
			if !ok {
				return fmt.Sprintf("%s: key %q missing", path, k)
			}
			if d := goEq(v, w, fmt.Sprintf("%s{%q}", path, k)); d != "" {
				return d
			}
		}
		return ""
	case map[int]interface{}:
		y, ok := b.(map[int]interface{})
		if !ok || len(x) != len(y) {
			return fmt.Sprintf("%s: %T(%d) vs %T", path, a, len(x), b)
		}
		for k, v := range x {
			w, ok := y[k]
			if !ok {
				return fmt.Sprintf("%s: key %d missing", path, k)
			}
			if d := goEq(v, w, fmt.Sprintf("%s{%d}", path, k)); d != "" {
				return d
			}
		}
		return ""
	case map[dproto.FieldNumber]interface{}:
		y, ok := b.(map[dproto.FieldNumber]interface{})
		if !ok || len(x) != len(y) {
			return fmt.Sprintf("%s: %T(%d) vs %T", path, a, len(x), b)
		}
		for k, v := range x {
			w, ok := y[k]
			if !ok {
				return fmt.Sprintf("%s: field %d missing", path, k)
			}
			if d := goEq(v, w, fmt.Sprintf("%s.%d", path, k)); d != "" {
				return d
			}
		}
		return ""
	}
	if fmt.Sprintf("%T", a) != fmt.Sprintf("%T", b) || a != b {
		return fmt.Sprintf("%s: %#v (%T) vs %#v (%T)", path, a, a, b, b)
	}
	return ""
}

// ---- regions: predicates over the examined field (generated schema), named after the kind involved

func kindRegion(fd protoreflect.FieldDescriptor) string {
	if fd.Kind() == protoreflect.FloatKind {
		return "float-kind"
	}
	return ""
}

func pathStr(p []generic.Path) string {
	s := ""
	for _, x := range p {
		switch x.Type() {
		case generic.PathFieldId:
			s += fmt.Sprintf("/#%d", x.Id())
		case generic.PathFieldName:
			s += "/" + x.Str()
		case generic.PathIndex:
			s += fmt.Sprintf("/[%d]", x.Int())
		case generic.PathStrKey:
			s += fmt.Sprintf("/{%q}", x.Str())
		case generic.PathIntKey:
			s += fmt.Sprintf("/{%d}", x.Int())
		}
	}
	return s
}

var typeOfKind = map[protoreflect.Kind]dproto.Type{
	protoreflect.BoolKind: dproto.BOOL, protoreflect.EnumKind: dproto.ENUM, protoreflect.Int32Kind: dproto.INT32, protoreflect.Sint32Kind: dproto.SINT32,
	protoreflect.Uint32Kind: dproto.UINT32, protoreflect.Int64Kind: dproto.INT64, protoreflect.Sint64Kind: dproto.SINT64, protoreflect.Uint64Kind: dproto.UINT64,
	protoreflect.Sfixed32Kind: dproto.SFIX32, protoreflect.Fixed32Kind: dproto.FIX32, protoreflect.FloatKind: dproto.FLOAT, protoreflect.Sfixed64Kind: dproto.SFIX64,
	protoreflect.Fixed64Kind: dproto.FIX64, protoreflect.DoubleKind: dproto.DOUBLE, protoreflect.StringKind: dproto.STRING, protoreflect.BytesKind: dproto.BYTE,
	protoreflect.MessageKind: dproto.MESSAGE,
}

// checkScalar compares a scalar node with the reference value.
func (e *env) checkScalar(what, ps string, fd protoreflect.FieldDescriptor, want protoreflect.Value, got generic.Value) {
	c := e.c
	reg := kindRegion(fd)
	if got.IsError() {
		c.Fail(reg, "present-reported-error:"+what, "%s %s (%s): element exists but the result is an error: %v", what, ps, fd.Kind(), got.Error())
		return
	}
	if got.Type() != typeOfKind[fd.Kind()] {
		c.Fail(reg, "wrong-type:"+what, "%s %s: type %v, schema kind %s", what, ps, got.Type(), fd.Kind())
		return
	}
	bad := func(g interface{}, err error, w interface{}) {
		c.Fail(reg, "wrong-value:"+what, "%s %s (%s): got %v (err %v), reference %v", what, ps, fd.Kind(), g, err, w)
	}
	switch fd.Kind() {
	case protoreflect.BoolKind:
		if g, err := got.Bool(); err != nil || g != want.Bool() {
			bad(g, err, want.Bool())
		}
	case protoreflect.EnumKind:
		if g, err := got.Enum(); err != nil || g != int(want.Enum()) {
			bad(g, err, want.Enum())
		}
	case protoreflect.Int32Kind, protoreflect.Sint32Kind, protoreflect.Sfixed32Kind, protoreflect.Int64Kind, protoreflect.Sint64Kind, protoreflect.Sfixed64Kind:
		if g, err := got.Int(); err != nil || g != int(want.Int()) {
			bad(g, err, want.Int())
		}
	case protoreflect.Uint32Kind, protoreflect.Fixed32Kind, protoreflect.Uint64Kind, protoreflect.Fixed64Kind:
		if g, err := got.Uint(); err != nil || g != uint(want.Uint()) {
			bad(g, err, want.Uint())
		}
	case protoreflect.FloatKind:
		g, err := got.Float64()
		if err != nil || math.Float32bits(float32(g)) != math.Float32bits(float32(want.Float())) {
			bad(g, err, want.Float())
		}
	case protoreflect.DoubleKind:
		if g, err := got.Float64(); err != nil || math.Float64bits(g) != math.Float64bits(want.Float()) {
			bad(g, err, want.Float())
		}
	case protoreflect.StringKind:
		if g, err := got.String(); err != nil || g != want.String() {
			bad(g, err, want.String())
		}
	case protoreflect.BytesKind:
		if g, err := got.Binary(); err != nil || !bytes.Equal(g, want.Bytes()) {
			bad(g, err, want.Bytes())
		}
	}
}

// checkMessageNode: the node's bytes (length prefix + payload) re-parsed by the reference equal the sub-message.
func (e *env) checkMessageNode(what, ps string, want protoreflect.Message, got generic.Value) bool {
	c := e.c
	if got.IsError() {
		c.Failf("present-reported-error:"+what, "%s %s: message exists but the result is an error: %v", what, ps, got.Error())
	}
	if got.Type() != dproto.MESSAGE {
		c.Failf("wrong-type:"+what, "%s %s: type %v want MESSAGE", what, ps, got.Type())
	}
	raw := got.Raw()
	payload, n := protowire.ConsumeBytes(raw)
	if n < 0 || n != len(raw) {
		c.Failf("wrong-span:"+what, "%s %s: node bytes %x are not one length-delimited message", what, ps, raw)
	}
	back, err := pmodel.Unmarshal(want.Descriptor(), payload)
	if err != nil || !proto.Equal(back, want.Interface()) {
		c.Failf("wrong-value:"+what, "%s %s: node bytes decode (reference) to a different message: %v", what, ps, err)
	}
	return true
}

func (e *env) checkValue(what string, path []generic.Path, fd protoreflect.FieldDescriptor, want protoreflect.Value, got generic.Value, depth int) {
	c := e.c
	ps := pathStr(path)
	e.nodes++
	switch {
	case fd.IsMap():
		mp := want.Map()
		reg := ""
		kk := fd.MapKey().Kind()
		if kk != protoreflect.StringKind && kk != protoreflect.Int32Kind && kk != protoreflect.Int64Kind && kk != protoreflect.Uint32Kind && kk != protoreflect.Uint64Kind {
			reg = "map-key-kind:" + kk.String()
		}
		if got.IsError() {
			c.Fail(reg, "present-reported-error:"+what, "%s %s: map exists but result is an error: %v", what, ps, got.Error())
			return
		}
		if got.Type() != dproto.MAP {
			c.Fail(reg, "wrong-type:"+what, "%s %s: type %v want MAP", what, ps, got.Type())
			return
		}
		if l, err := got.Len(); err != nil || l != mp.Len() {
			if c.Fail(reg, "wrong-len:"+what, "%s %s: map Len()=%d,%v reference %d", what, ps, l, err, mp.Len()) {
				return
			}
		}
		iw := ifaceMap(fd, mp, e.opts.MapStructById)
		ig, err := got.Interface(e.opts)
		regI := reg
		if regI == "" && (fd.MapValue().Kind() == protoreflect.FloatKind) {
			regI = "float-kind"
		}
		if err != nil || goEq(ig, iw, ps) != "" {
			if c.Fail(regI, "interface-mismatch:"+what, "%s %s: map Interface(): err=%v diff=%s", what, ps, err, goEq(ig, iw, ps)) {
				return
			}
		}
		// every entry by key
		type ent struct {
			k protoreflect.MapKey
			v protoreflect.Value
		}
		var ents []ent
		mp.Range(func(k protoreflect.MapKey, v protoreflect.Value) bool { ents = append(ents, ent{k, v}); return true })
		sort.Slice(ents, func(i, j int) bool { return ents[i].k.String() < ents[j].k.String() })
		for _, en := range ents {
			var kp generic.Path
			var sub generic.Value
			if kk == protoreflect.StringKind {
				kp = generic.NewPathStrKey(en.k.String())
				sub = got.GetByStr(en.k.String())
			} else {
				kp = generic.NewPathIntKey(keyInt(fd.MapKey(), en.k))
				sub = got.GetByInt(keyInt(fd.MapKey(), en.k))
			}
			full := append(append([]generic.Path{}, path...), kp)
			viaPath := e.root.GetByPath(full...)
			for _, g := range []struct {
				w string
				v generic.Value
			}{{"GetByPath", viaPath}, {"GetBy" + map[bool]string{true: "Str", false: "Int"}[kk == protoreflect.StringKind], sub}} {
				if fd.MapValue().Kind() == protoreflect.MessageKind {
					if g.v.IsError() {
						if c.Fail(reg, "present-reported-error:"+g.w, "%s %s: map entry exists but result is an error: %v", g.w, pathStr(full), g.v.Error()) {
							continue
						}
					}
					e.checkMessageNode(g.w, pathStr(full), en.v.Message(), g.v)
				} else {
					if g.v.IsError() && reg != "" {
						if c.Fail(reg, "present-reported-error:"+g.w, "%s %s: map entry exists but result is an error: %v", g.w, pathStr(full), g.v.Error()) {
							continue
						}
					}
					e.checkScalar(g.w, pathStr(full), fd.MapValue(), en.v, g.v)
				}
			}
			if fd.MapValue().Kind() == protoreflect.MessageKind && depth < 2 && !viaPath.IsError() {
				e.walk(en.v.Message(), viaPath, full, depth+1)
			}
		}
		// an absent key
		var ap generic.Path
		if kk == protoreflect.StringKind {
			ap = generic.NewPathStrKey("\x00no such key\x00")
		} else {
			cand := 77777
			for {
				hit := false
				for _, en := range ents {
					if keyInt(fd.MapKey(), en.k) == cand {
						hit = true
					}
				}
				if !hit {
					break
				}
				cand++
			}
			ap = generic.NewPathIntKey(cand)
		}
		full := append(append([]generic.Path{}, path...), ap)
		c.Protect(reg, func() {
			if r := e.root.GetByPath(full...); !r.IsError() {
				c.Fail(reg, "absent-reported-present:GetByPath", "GetByPath %s: no such key but a node of type %v is returned", pathStr(full), r.Type())
			} else if !r.IsErrNotFound() {
				c.Fail(reg, "absent-not-notfound:GetByPath", "GetByPath %s: absent key must be not-found, got %v", pathStr(full), r.Error())
			}
		})
		if reg == "" {
			var pres []generic.Path
			for _, en := range ents {
				if kk == protoreflect.StringKind {
					pres = append(pres, generic.NewPathStrKey(en.k.String()))
				} else {
					pres = append(pres, generic.NewPathIntKey(keyInt(fd.MapKey(), en.k)))
				}
			}
			e.bulk("bulk-map", ps, got, pres, []generic.Path{ap}[:e.rnd.n(2)], func(p generic.Path) generic.Value { return got.GetByPath(p) })
		}
	case fd.IsList():
		l := want.List()
		reg := ""
		if isPackedFixed(fd) {
			reg = "packed-fixed-width-list"
		}
		if got.IsError() {
			c.Fail(reg, "present-reported-error:"+what, "%s %s: list exists but result is an error: %v", what, ps, got.Error())
			return
		}
		if got.Type() != dproto.LIST {
			c.Failf("wrong-type:"+what, "%s %s: type %v want LIST", what, ps, got.Type())
		}
		if ln, err := got.Len(); err != nil || ln != l.Len() {
			if c.Fail(reg, "wrong-len:"+what, "%s %s (%s, packed=%v): list Len()=%d,%v reference %d", what, ps, fd.Kind(), fd.IsPacked(), ln, err, l.Len()) {
				return
			}
		}
		iw := ifaceList(fd, l, e.opts.MapStructById)
		ig, err := got.Interface(e.opts)
		regI := reg
		if regI == "" {
			regI = kindRegion(fd)
		}
		if err != nil || goEq(ig, iw, ps) != "" {
			if c.Fail(regI, "interface-mismatch:"+what, "%s %s (%s): list Interface(): err=%v diff=%s", what, ps, fd.Kind(), err, goEq(ig, iw, ps)) {
				return
			}
		}
		for i := 0; i < l.Len(); i++ {
			full := append(append([]generic.Path{}, path...), generic.NewPathIndex(i))
			viaPath := e.root.GetByPath(full...)
			viaIdx := got.Index(i)
			for _, g := range []struct {
				w string
				v generic.Value
			}{{"GetByPath", viaPath}, {"Index", viaIdx}} {
				if fd.Kind() == protoreflect.MessageKind {
					e.checkMessageNode(g.w, pathStr(full), l.Get(i).Message(), g.v)
				} else {
					e.checkScalar(g.w, pathStr(full), fd, l.Get(i), g.v)
				}
			}
			if fd.Kind() == protoreflect.MessageKind && depth < 2 && !viaPath.IsError() {
				e.walk(l.Get(i).Message(), viaPath, full, depth+1)
			}
		}
		// index == len is absent
		full := append(append([]generic.Path{}, path...), generic.NewPathIndex(l.Len()))
		c.Protect("", func() {
			if r := e.root.GetByPath(full...); !r.IsError() {
				c.Failf("absent-reported-present:GetByPath", "GetByPath %s: index == len but a node is returned", pathStr(full))
			}
			if r := got.Index(l.Len()); !r.IsError() {
				c.Failf("absent-reported-present:Index", "Index(%d) on a list of %d elements returns a node", l.Len(), l.Len())
			}
		})
		{
			var pres []generic.Path
			for i := 0; i < l.Len(); i++ {
				pres = append(pres, generic.NewPathIndex(i))
			}
			breg := reg
			if breg == "" {
				breg = "bulk-list"
			}
			e.bulk(breg, ps, got, pres, []generic.Path{generic.NewPathIndex(l.Len() + e.rnd.n(3))}[:e.rnd.n(2)], func(p generic.Path) generic.Value { return got.GetByPath(p) })
		}
	case fd.Kind() == protoreflect.MessageKind:
		if e.checkMessageNode(what, ps, want.Message(), got) && depth < 2 {
			e.walk(want.Message(), got, path, depth+1)
		}
	default:
		e.checkScalar(what, ps, fd, want, got)
	}
}

// walk checks every declared field of message m, reached as value v at path.
func (e *env) walk(m protoreflect.Message, v generic.Value, path []generic.Path, depth int) {
	c := e.c
	fds := m.Descriptor().Fields()
	for i := 0; i < fds.Len(); i++ {
		fd := fds.Get(i)
		present := m.Has(fd)
		num := dproto.FieldNumber(fd.Number())
		byID := append(append([]generic.Path{}, path...), generic.NewPathFieldId(num))
		byName := append(append([]generic.Path{}, path...), generic.NewPathFieldName(string(fd.Name())))
		c.Step("field %s %s", pathStr(byID), fd.Kind())
		var results []struct {
			w string
			v generic.Value
			p []generic.Path
		}
		add := func(w string, p []generic.Path, f func() generic.Value) {
			var r generic.Value
			okk := c.Protect("", func() { r = f() })
			if okk {
				results = append(results, struct {
					w string
					v generic.Value
					p []generic.Path
				}{w, r, p})
			}
		}
		add("GetByPath", byID, func() generic.Value { return e.root.GetByPath(byID...) })
		add("GetByPath(name)", byName, func() generic.Value { return e.root.GetByPath(byName...) })
		add("GetByPathWithAddress", byID, func() generic.Value { r, _ := e.root.GetByPathWithAddress(byID...); return r })
		add("Field", byID, func() generic.Value { return v.Field(num) })
		add("FieldByName", byName, func() generic.Value { return v.FieldByName(string(fd.Name())) })
		for _, r := range results {
			if !present {
				c.Class("absent-field")
				if !r.v.IsError() {
					c.Failf("absent-reported-present:"+r.w, "%s %s: field is not on the wire but a node of type %v is returned", r.w, pathStr(r.p), r.v.Type())
				}
				if (r.w == "GetByPath" || r.w == "GetByPath(name)") && !r.v.IsErrNotFound() {
					c.Failf("absent-not-notfound:"+r.w, "%s %s: absent field must be reported not-found, got %v", r.w, pathStr(r.p), r.v.Error())
				}
				continue
			}
			e.checkValue(r.w, r.p, fd, m.Get(fd), r.v, depth)
		}
	}
}

func check(c *pbt.Ctx, cs Case) {
	comp, err := pmodel.Compile(cs.Schema.Render(), cs.Schema.Main)
	if err != nil {
		c.Failf("harness-schema", "generated schema rejected by the reference: %v", err)
	}
	if comp.SvcErr != nil {
		c.Failf("idl-error", "dynamicgo rejects a schema the reference accepts: %v", comp.SvcErr)
	}
	md := comp.Msg("pkg.Root")
	ref, err := pmodel.Unmarshal(md, cs.Msg)
	if err != nil {
		c.Failf("harness-msg", "reference cannot decode its own message: %v", err)
	}
	desc := comp.Svc.LookupMethodByName("Call").Input()
	buf := append(make([]byte, 0, len(cs.Msg)+16), cs.Msg...) // spare capacity: not-found nodes keep a pointer to base+len
	e := &env{c: c, opts: &generic.Options{MapStructById: cs.ById}, rnd: lcg(cs.Pick | 1)}
	e.root = generic.NewRootValue(desc, buf)
	e.walk(ref, e.root, nil, 0)

	// whole-message conversions
	c.Step("root Interface")
	iw := ifaceMsg(ref, cs.ById)
	regRoot := wholeRegion(ref)
	if usesKind(ref, func(fd protoreflect.FieldDescriptor) bool {
		return fd.IsMap() && fd.MapKey().Kind() != protoreflect.StringKind && fd.MapKey().Kind() != protoreflect.Int32Kind && fd.MapKey().Kind() != protoreflect.Int64Kind && fd.MapKey().Kind() != protoreflect.Uint32Kind && fd.MapKey().Kind() != protoreflect.Uint64Kind
	}) {
		regRoot = "map-key-kind:other"
	}
	c.Protect(regRoot, func() {
		ig, err := e.root.Interface(e.opts)
		if err != nil || goEq(ig, iw, "$") != "" {
			c.Fail(regRoot, "interface-mismatch:root", "root Interface(): err=%v diff=%s", err, goEq(ig, iw, "$"))
		}
	})

	// bulk lookup, children listing, DOM load: exactly the present fields
	var present, absent []int32
	fds := md.Fields()
	for i := 0; i < fds.Len(); i++ {
		if ref.Has(fds.Get(i)) {
			present = append(present, int32(fds.Get(i).Number()))
		} else {
			absent = append(absent, int32(fds.Get(i).Number()))
		}
	}
	c.Step("GetMany")
	var pn []generic.PathNode
	for _, n := range present {
		pn = append(pn, generic.PathNode{Path: generic.NewPathFieldId(dproto.FieldNumber(n))})
	}
	for i, n := range absent {
		if i < 3 {
			pn = append(pn, generic.PathNode{Path: generic.NewPathFieldId(dproto.FieldNumber(n))})
		}
	}
	if len(pn) > 0 {
		c.Protect("", func() {
			if err := e.root.GetMany(pn, &generic.Options{ClearDirtyValues: true}); err != nil {
				c.Failf("getmany-error", "GetMany: %v", err)
			}
			for i := range pn {
				isPresent := i < len(present)
				if isPresent && (pn[i].Node.IsError() || pn[i].Node.Type() == 0) {
					c.Failf("getmany-missed-present", "GetMany: present field %d not delivered", pn[i].Path.Id())
				}
				if !isPresent && pn[i].Node.Type() != 0 && !pn[i].Node.IsError() {
					c.Failf("getmany-absent-filled", "GetMany: absent field %d delivered as %v", pn[i].Path.Id(), pn[i].Node.Type())
				}
			}
		})
	}
	// one tree and one children buffer are kept and loaded again and again (Load / Children reset what they held):
	// every loaded node must hold the reference's element - type, value, Len, and below it the same again
	{
		var tree generic.PathNode
		var kids []generic.PathNode
		modes := []bool{false, true, true, false}
		if cs.Pick&1 == 1 {
			modes = []bool{true, false, true, true}
		}
		for round, recurse := range modes {
			c.Step("reused tree: Load recurse=%v (round %d)", recurse, round)
			c.Protect("", func() {
				tree.Node = e.root.Node
				if err := tree.Load(recurse, &generic.Options{}, desc); err != nil {
					c.Failf("load-error", "Load(recurse=%v) into a reused tree: %v", recurse, err)
				}
				e.cmpMsgTree(fmt.Sprintf("Load(recurse=%v, round %d)", recurse, round), tree.Next, ref, recurse, "")
			})
			c.Step("reused buffer: Children recurse=%v (round %d)", recurse, round)
			c.Protect("", func() {
				if err := e.root.Children(&kids, recurse, &generic.Options{}, desc); err != nil {
					c.Failf("children-error", "Children(recurse=%v) into a reused buffer: %v", recurse, err)
				}
				e.cmpMsgTree(fmt.Sprintf("Children(recurse=%v, round %d)", recurse, round), kids, ref, recurse, "")
			})
		}
	}
	for _, recurse := range []bool{false, true} {
		c.Step("Children/Load recurse=%v", recurse)
		regL := ""
		if recurse {
			regL = regionLoad(ref)
		}
		c.Protect(regL, func() {
			var out []generic.PathNode
			if err := e.root.Children(&out, recurse, &generic.Options{}, desc); err != nil {
				c.Fail(regL, "children-error", "Children(recurse=%v): %v", recurse, err)
				return
			}
			cmpTop(c, regL, "Children", out, present)
			tree := generic.PathNode{Node: e.root.Node}
			if err := tree.Load(recurse, &generic.Options{}, desc); err != nil {
				c.Fail(regL, "load-error", "Load(recurse=%v): %v", recurse, err)
				return
			}
			cmpTop(c, regL, "Load", tree.Next, present)
		})
	}

	rep, mp, nested := false, false, false
	ref.Range(func(fd protoreflect.FieldDescriptor, v protoreflect.Value) bool {
		if fd.IsList() && v.List().Len() >= 2 {
			rep = true
		}
		if fd.IsMap() && v.Map().Len() >= 2 {
			mp = true
		}
		if fd.Kind() == protoreflect.MessageKind && !fd.IsMap() {
			nested = true
		}
		return true
	})
	if (rep || mp) && nested {
		c.NonTrivial()
	}
}

func isPackedFixed(fd protoreflect.FieldDescriptor) bool {
	if !fd.IsList() || !fd.IsPacked() {
		return false
	}
	switch fd.Kind() {
	case protoreflect.Fixed32Kind, protoreflect.Sfixed32Kind, protoreflect.FloatKind, protoreflect.Fixed64Kind, protoreflect.Sfixed64Kind, protoreflect.DoubleKind:
		return true
	}
	return false
}

// wholeRegion attributes failures of whole-message operations to the known-finding region of a
// construct the message contains (predicate over the generated case).
func wholeRegion(m protoreflect.Message) string {
	if usesKind(m, isPackedFixed) {
		return "packed-fixed-width-list"
	}
	return ""
}

func regionLoad(m protoreflect.Message) string {
	if r := wholeRegion(m); r != "" {
		return r
	}
	if usesKind(m, func(fd protoreflect.FieldDescriptor) bool { return fd.IsMap() }) {
		return "load-recurse-with-map"
	}
	return ""
}

func supportedKey(k protoreflect.Kind) bool {
	return k == protoreflect.StringKind || k == protoreflect.Int32Kind || k == protoreflect.Int64Kind || k == protoreflect.Uint32Kind || k == protoreflect.Uint64Kind
}

// cmpMsgTree compares the children loaded for a message with the reference message: exactly the present
// fields, each holding the reference's element (and, after a recursive load, its children in turn).
func (e *env) cmpMsgTree(what string, next []generic.PathNode, m protoreflect.Message, recurse bool, ps string) {
	c := e.c
	seen := map[protoreflect.FieldNumber]bool{}
	for i := range next {
		pn := &next[i]
		if pn.Path.Type() != generic.PathFieldId {
			c.Failf("tree-path:"+what, "%s %s: child %d of a message has path type %v", what, ps, i, pn.Path.Type())
		}
		num := protoreflect.FieldNumber(pn.Path.Id())
		fd := m.Descriptor().Fields().ByNumber(num)
		if fd == nil || !m.Has(fd) || seen[num] {
			c.Failf("tree-extra-child:"+what, "%s %s: the tree lists field %d (declared %v, duplicate %v), the reference has no such element", what, ps, num, fd != nil, seen[num])
		}
		seen[num] = true
		e.cmpTreeNode(what, pn, fd, m.Get(fd), recurse, fmt.Sprintf("%s/#%d", ps, num))
	}
	m.Range(func(fd protoreflect.FieldDescriptor, _ protoreflect.Value) bool {
		if !seen[fd.Number()] {
			c.Failf("tree-missing-child:"+what, "%s %s: field %d is on the wire, the tree does not list it", what, ps, fd.Number())
		}
		return true
	})
}

func (e *env) cmpTreeNode(what string, pn *generic.PathNode, fd protoreflect.FieldDescriptor, want protoreflect.Value, recurse bool, ps string) {
	c := e.c
	got := generic.Value{Node: pn.Node}
	switch {
	case fd.IsMap():
		if !supportedKey(fd.MapKey().Kind()) {
			return
		}
		mp := want.Map()
		if got.Type() != dproto.MAP {
			c.Failf("wrong-type:"+what, "%s %s: type %v want MAP", what, ps, got.Type())
		}
		if !recurse {
			return // a lazily loaded container node carries no element count or element types (by design: "size is not calculated")
		}
		if l, err := got.Len(); err != nil || l != mp.Len() {
			c.Failf("wrong-len:"+what, "%s %s: map Len()=%d,%v reference %d", what, ps, l, err, mp.Len())
		}
		if len(pn.Next) != mp.Len() {
			c.Failf("tree-child-count:"+what, "%s %s: %d children loaded for a map of %d entries", what, ps, len(pn.Next), mp.Len())
		}
		for i := range pn.Next {
			ch := &pn.Next[i]
			var mk protoreflect.MapKey
			switch {
			case fd.MapKey().Kind() == protoreflect.StringKind && ch.Path.Type() == generic.PathStrKey:
				mk = protoreflect.ValueOfString(ch.Path.Str()).MapKey()
			case fd.MapKey().Kind() != protoreflect.StringKind && ch.Path.Type() == generic.PathIntKey:
				k := ch.Path.Int()
				switch fd.MapKey().Kind() {
				case protoreflect.Int32Kind:
					mk = protoreflect.ValueOfInt32(int32(k)).MapKey()
				case protoreflect.Int64Kind:
					mk = protoreflect.ValueOfInt64(int64(k)).MapKey()
				case protoreflect.Uint32Kind:
					mk = protoreflect.ValueOfUint32(uint32(k)).MapKey()
				default:
					mk = protoreflect.ValueOfUint64(uint64(k)).MapKey()
				}
			default:
				c.Failf("tree-path:"+what, "%s %s: entry %d has path type %v for a %s key", what, ps, i, ch.Path.Type(), fd.MapKey().Kind())
			}
			if !mp.Has(mk) {
				c.Failf("tree-extra-child:"+what, "%s %s: the tree lists key %v, the reference map has no such key", what, ps, mk.Interface())
			}
			eps := fmt.Sprintf("%s/{%v}", ps, mk.Interface())
			if fd.MapValue().Kind() == protoreflect.MessageKind {
				e.checkMessageNode(what, eps, mp.Get(mk).Message(), generic.Value{Node: ch.Node})
				e.cmpMsgTree(what, ch.Next, mp.Get(mk).Message(), recurse, eps)
			} else {
				e.checkScalar(what, eps, fd.MapValue(), mp.Get(mk), generic.Value{Node: ch.Node})
			}
		}
	case fd.IsList():
		l := want.List()
		if got.Type() != dproto.LIST {
			c.Failf("wrong-type:"+what, "%s %s: type %v want LIST", what, ps, got.Type())
		}
		if !recurse {
			return
		}
		if ln, err := got.Len(); err != nil || ln != l.Len() {
			c.Failf("wrong-len:"+what, "%s %s: list Len()=%d,%v reference %d", what, ps, ln, err, l.Len())
		}
		for i := 0; i < l.Len(); i++ {
			el := generic.Value{Node: got.Node.Index(i)}
			if fd.Kind() == protoreflect.MessageKind {
				e.checkMessageNode(what+":Index", fmt.Sprintf("%s/[%d]", ps, i), l.Get(i).Message(), el)
			} else {
				e.checkScalar(what+":Index", fmt.Sprintf("%s/[%d]", ps, i), fd, l.Get(i), el)
			}
		}
		if len(pn.Next) != l.Len() {
			c.Failf("tree-child-count:"+what, "%s %s: %d children loaded for a list of %d elements", what, ps, len(pn.Next), l.Len())
		}
		for i := range pn.Next {
			ch := &pn.Next[i]
			if ch.Path.Type() != generic.PathIndex || ch.Path.Int() != i {
				c.Failf("tree-path:"+what, "%s %s: element %d has path %v", what, ps, i, ch.Path)
			}
			eps := fmt.Sprintf("%s/[%d]", ps, i)
			if fd.Kind() == protoreflect.MessageKind {
				e.checkMessageNode(what, eps, l.Get(i).Message(), generic.Value{Node: ch.Node})
				e.cmpMsgTree(what, ch.Next, l.Get(i).Message(), recurse, eps)
			} else {
				e.checkScalar(what, eps, fd, l.Get(i), generic.Value{Node: ch.Node})
			}
		}
	case fd.Kind() == protoreflect.MessageKind:
		e.checkMessageNode(what, ps, want.Message(), got)
		if recurse {
			e.cmpMsgTree(what, pn.Next, want.Message(), recurse, ps)
		}
	default:
		e.checkScalar(what, ps, fd, want, got)
	}
}

func cmpTop(c *pbt.Ctx, reg, what string, out []generic.PathNode, present []int32) {
	var got []int32
	for _, p := range out {
		got = append(got, int32(p.Path.Id()))
	}
	sort.Slice(got, func(i, j int) bool { return got[i] < got[j] })
	want := append([]int32{}, present...)
	sort.Slice(want, func(i, j int) bool { return want[i] < want[j] })
	if fmt.Sprint(got) != fmt.Sprint(want) {
		c.Fail(reg, "children-set", "%s lists fields %v, present on the wire: %v", what, got, want)
	}
}

func usesKind(m protoreflect.Message, pred func(fd protoreflect.FieldDescriptor) bool) bool {
	found := false
	m.Range(func(fd protoreflect.FieldDescriptor, v protoreflect.Value) bool {
		if pred(fd) {
			found = true
			return false
		}
		switch {
		case fd.IsMap():
			if pred(fd.MapValue()) || pred(fd.MapKey()) {
				found = true
			} else if fd.MapValue().Kind() == protoreflect.MessageKind {
				v.Map().Range(func(_ protoreflect.MapKey, e protoreflect.Value) bool {
					if usesKind(e.Message(), pred) {
						found = true
					}
					return !found
				})
			}
		case fd.IsList():
			if fd.Kind() == protoreflect.MessageKind {
				for i := 0; i < v.List().Len() && !found; i++ {
					found = usesKind(v.List().Get(i).Message(), pred)
				}
			}
		case fd.Kind() == protoreflect.MessageKind:
			found = usesKind(v.Message(), pred)
		}
		return !found
	})
	return found
}

var Prop = pbt.Register(pbt.Prop[Case]{
	Name: "TestProtoReads",
	Rule: "generated proto3 schema (all 15 scalar kinds, enums, nested/recursive messages, repeated packed/unpacked, maps of every key kind, multi-byte tags) + message generated and encoded by protobuf-go; for every declared field at depth <= 2: GetByPath by number and by name, GetByPathWithAddress, Field, FieldByName, Index, GetByStr/GetByInt must return the reference value (typed casts, Len, Interface, message bytes re-parsed by the reference), absent fields/keys/indexes must be not-found; GetMany, Children and PathNode.Load must list exactly the present fields; a tree and a children buffer that are loaded four times in alternating lazy/recursive modes must after every load hold the reference's elements at every level (type, value, Len, Index, children); non-trivial = a repeated or map field with >= 2 entries and a nested message",
	Gen: func(t *rapid.T) Case {
		sc := pmodel.GenSchema(t, pmodel.GenOpts{AllKinds: rapid.IntRange(0, 3).Draw(t, "allKinds") == 0, BigNumbers: true, KeyKinds: pmodel.SupportedKeyKinds})
		comp, err := pmodel.Compile(sc.Render(), sc.Main)
		if err != nil {
			t.Fatalf("generator produced an invalid schema: %v", err)
		}
		m := pmodel.GenMessage(t, comp.Msg("pkg.Root"), pmodel.MsgOpts{MaxDepth: 2, MaxElems: 3})
		return Case{Schema: sc, Msg: pmodel.Marshal(m), ById: rapid.Bool().Draw(t, "byId"), Pick: rapid.Uint64().Draw(t, "pick")}
	},
	Check: check,
})

func TestProtoReads(t *testing.T) { pbt.Run(t, Prop) }
