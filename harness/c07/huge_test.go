package c07

import (
	"runtime/debug"
	"testing"

	"pgregory.net/rapid"

	"verifharness/pbt"
	"verifharness/pmodel"
)

// Field numbers near the top of the range (4-byte tags). dynamicgo's descriptor allocates a
// pointer table indexed by field number (2 GiB for numbers around 2^28), so this uses one fixed
// schema, declared with the largest number first (one allocation), instead of the random generator.
func hugeSchema() pmodel.Schema {
	root := pmodel.Msg{Name: "Root", Fields: []pmodel.Field{
		{Name: "names", Num: 268435458, Kind: "string", Label: "repeated"},
		{Name: "big", Num: 268435457, Kind: "sint64"},
		{Name: "l", Num: 1, Kind: "int32", Label: "repeated"},
		{Name: "m", Num: 2, Kind: "int32", Label: "map", KeyKind: "string"},
		{Name: "sub", Num: 3, Kind: "message", Ref: "Root"},
		{Name: "d", Num: 268435456, Kind: "double", Label: "repeated"},
		{Name: "mid", Num: 2097152, Kind: "bool"},
	}}
	f := pmodel.File{Name: "main.proto", Package: "pkg", Msgs: []pmodel.Msg{root},
		Svcs: []pmodel.Svc{{Name: "Svc", Methods: []pmodel.Method{{Name: "Call", In: "Root", Out: "Root"}}}}}
	return pmodel.Schema{Files: []pmodel.File{f}, Main: "main.proto"}
}

var HugeProp = pbt.Register(pbt.Prop[Case]{
	Name: "TestHugeFieldNumbers",
	Rule: "fixed schema with field numbers 2^21, 2^28, 2^28+1, 2^28+2 (4-byte tags) next to small ones, random reference-encoded messages; same oracle as TestProtoReads; non-trivial as there",
	Gen: func(t *rapid.T) Case {
		sc := hugeSchema()
		comp, err := pmodel.Compile(sc.Render(), sc.Main)
		if err != nil {
			t.Fatalf("schema: %v", err)
		}
		m := pmodel.GenMessage(t, comp.Msg("pkg.Root"), pmodel.MsgOpts{MaxDepth: 2, MaxElems: 3})
		return Case{Schema: sc, Msg: pmodel.Marshal(m), ById: rapid.Bool().Draw(t, "byId")}
	},
	Check: check,
})

func TestHugeFieldNumbers(t *testing.T) {
	defer debug.SetGCPercent(debug.SetGCPercent(2000)) // the 2 GiB pointer tables make every GC cycle expensive
	pbt.Run(t, HugeProp)
}
