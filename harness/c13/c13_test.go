package c13

import (
	"bytes"
	"context"
	"fmt"
	"strings"
	"testing"

	"github.com/cloudwego/dynamicgo/conv"
	"github.com/cloudwego/dynamicgo/conv/j2p"
	"github.com/cloudwego/dynamicgo/conv/j2t"
	"github.com/cloudwego/dynamicgo/conv/p2j"
	"github.com/cloudwego/dynamicgo/conv/t2j"
	"github.com/cloudwego/dynamicgo/thrift"
	"google.golang.org/protobuf/proto"
	"pgregory.net/rapid"

	"verifharness/jmodel"
	"verifharness/pbt"
	"verifharness/pmodel"
	"verifharness/tjson"
	tm "verifharness/tmodel"
)

func TestMain(m *testing.M)   { pbt.Main(m, "C13") }
func TestReplay(t *testing.T) { pbt.Replay(t) }

// ---------------------------------------------------------------------------
// Thrift

type TCase struct {
	U      *tm.Universe `json:"u"`
	V      *tm.Value    `json:"v"`
	I2S    bool         `json:"int64_string_pair"` // Int642String on t2j + String2Int64 on j2t
	NoB64  bool         `json:"no_base64_pair"`    // NoBase64Binary on both
	BufCap int          `json:"buf_cap"`
	BufRel int          `json:"buf_rel"` // >= 0: the j2t caller buffer has capacity len(JSON)*BufMul+BufRel instead of BufCap
	BufMul int          `json:"buf_mul"`
	// options the converter objects held before SetOptions installed the pair above
	PrevNoB64        bool `json:"prev_no_base64,omitempty"`
	PrevWriteDefault bool `json:"prev_write_default,omitempty"`
	PrevI2S          bool `json:"prev_int64_string,omitempty"`
	// rejected conversions run on the same converters before the round trip (bit i = poisonDocs[i]; bit 7 = a truncated message)
	Poison uint8 `json:"poison,omitempty"`
}

// documents every converter rejects; a rejected conversion must not change what the next one does
var poisonDocs = []string{`{"no_such_member_q":tru}`, `{"no_such_member_q":{"a":[1,2`, `{"no_such_member_q":"x"`, `[1,`, `{"a":nul`, `{"no_such_member_q":[{"b":-}]}`, `{"\ud800":1,`}

func sanitize(v *tm.Value) {
	if v.K == tm.STRING {
		v.S = []byte(strings.ToValidUTF8(string(v.S), "?"))
	}
	for _, f := range v.Fields {
		sanitize(f.V)
	}
	for _, k := range v.Keys {
		sanitize(k)
	}
	for _, e := range v.Elems {
		sanitize(e)
	}
}

func show(b []byte) string {
	if len(b) > 1200 {
		return fmt.Sprintf("%s ...(%d bytes)... %s", b[:600], len(b), b[len(b)-500:])
	}
	return string(b)
}

func checkThrift(c *pbt.Ctx, cs TCase) {
	comp, err := tm.CompileUniverse(cs.U, thrift.Options{})
	if err != nil {
		c.Failf("harness-idl", "IDL rejected: %v\n%s", err, cs.U.Render())
	}
	ctx := context.Background()
	enc := tm.Encode(cs.V)
	m := append(make([]byte, 0, len(enc)+16), enc...)
	prev := conv.Options{NoBase64Binary: cs.PrevNoB64, WriteDefaultField: cs.PrevWriteDefault, WriteOptionalField: cs.PrevWriteDefault, Int642String: cs.PrevI2S, String2Int64: cs.PrevI2S}
	tj := t2j.NewBinaryConv(prev)
	jt := j2t.NewBinaryConv(prev)
	tj.SetOptions(conv.Options{Int642String: cs.I2S, NoBase64Binary: cs.NoB64})
	jt.SetOptions(conv.Options{String2Int64: cs.I2S, NoBase64Binary: cs.NoB64})
	var j1, m2, j2 []byte
	poison := func() {
		for i, d := range poisonDocs {
			if cs.Poison&(1<<uint(i)) != 0 {
				c.Step("a rejected j2t conversion first: %s", d)
				c.Protect("", func() { _, _ = jt.Do(ctx, comp.Root, append(make([]byte, 0, len(d)+64), d...)) })
			}
		}
		if cs.Poison&0x80 != 0 && len(enc) > 1 {
			c.Step("a t2j conversion of a truncated message first")
			c.Protect("", func() { _, _ = tj.Do(ctx, comp.Root, append(make([]byte, 0, len(enc)+16), enc[:len(enc)/2]...)) })
		}
	}
	poison()
	c.Step("t2j")
	if !c.Protect("", func() { j1, err = tj.Do(ctx, comp.Root, m) }) {
		return
	}
	if err != nil {
		c.Failf("t2j-error", "t2j fails on a conforming message without unknown fields: %v", err)
		return
	}
	poison()
	c.Step("j2t of t2j output")
	if cs.BufRel >= 0 {
		cs.BufCap = len(j1)*cs.BufMul + cs.BufRel
	}
	buf, guard := pbt.GuardedBuf(cs.BufCap)
	if !c.Protect("", func() {
		err = jt.DoInto(ctx, comp.Root, j1, &buf)
		m2 = buf
	}) {
		return
	}
	if g := guard(m2); g != "" {
		c.Failf("buffer-overflow", "j2t.DoInto(cap=%d): %s\nJSON: %s", cs.BufCap, g, show(j1))
		return
	}
	if err != nil {
		c.Failf("j2t-error", "j2t rejects t2j's own output: %v\nJSON: %s", err, show(j1))
		return
	}
	if !bytes.Equal(m2, enc) {
		c.Failf("thrift-roundtrip", "j2t(t2j(m)) != m: %s\nJSON: %s\n got %x\nwant %x", tm.DecodeCompare(cs.U.Root.K, m2, cs.V), show(j1), head(m2), head(enc))
		return
	}
	c.Step("t2j of j2t output")
	if !c.Protect("", func() { j2, err = tj.Do(ctx, comp.Root, m2) }) {
		return
	}
	if err != nil {
		c.Failf("t2j-error", "t2j fails on j2t's output: %v", err)
		return
	}
	n2, perr := jmodel.ParseRaw(j2)
	if perr != nil {
		c.Failf("json-roundtrip", "t2j(j2t(j)) is not valid JSON: %v", perr)
		return
	}
	if d := tjson.Expect(n2, cs.V, cs.U.Root, cs.U, tjson.Opts{Int642String: cs.I2S, NoBase64Binary: cs.NoB64}, "$"); d != "" {
		c.Failf("json-roundtrip", "t2j(j2t(j)) does not denote the value j denotes: %s\n j: %s\n j': %s", d, show(j1), show(j2))
		return
	}
	if tm.Count(cs.V) >= 4 {
		c.NonTrivial()
	}
	c.Class(fmt.Sprintf("pair:i2s=%v,nob64=%v", cs.I2S, cs.NoB64))
	if cs.Poison != 0 {
		c.Class("after-rejected-conversions")
	}
	if len(j1) > 4096 {
		c.Class("json>4096")
	}
}

func head(b []byte) []byte {
	if len(b) > 300 {
		return b[:300]
	}
	return b
}

var TProp = pbt.Register(pbt.Prop[TCase]{
	Name: "TestThriftRoundTrip",
	Rule: "generated IDL (requiredness, aliases, recursion, big ids) + conforming messages without unknown fields (finite doubles incl. -0/subnormals/extremes, integer boundaries, valid UTF-8 strings with control characters and lengths around 16/32/4096, arbitrary binaries, empty containers and strings, integer-keyed maps, shuffled wire order) x option pairs (Int642String+String2Int64, NoBase64Binary on both; installed with SetOptions on converters that held other options); m -> t2j -> j2t must give m byte for byte, and t2j again must denote the same value; every step must succeed, also right after conversions of malformed documents / a truncated message that the same converters rejected; non-trivial = value with >= 4 nodes",
	Gen: func(t *rapid.T) TCase {
		cfg := tm.GenCfg{MaxDepth: 3, KeyKinds: tjson.SupportedKeys, Reqs: true, Aliases: true, Recursive: true, WireOrder: true, ValidUTF8: true, FiniteDoubles: true,
			BigSizes: rapid.IntRange(0, 4).Draw(t, "bigSizes") == 0, BigIDs: rapid.IntRange(0, 3).Draw(t, "bigIDs") == 0}
		u := tm.GenUniverse(t, cfg)
		v := tm.GenValue(t, u, u.Root, cfg)
		cs := TCase{U: u, V: v, I2S: rapid.Bool().Draw(t, "i2s"), NoB64: rapid.IntRange(0, 3).Draw(t, "nob64") == 0,
			BufCap: []int{0, 1, 16, 4096, 100000}[rapid.IntRange(0, 4).Draw(t, "bufCap")],
			BufRel: rapid.IntRange(-24, 200).Draw(t, "bufRel"), BufMul: rapid.IntRange(1, 5).Draw(t, "bufMul"), PrevNoB64: rapid.Bool().Draw(t, "prevNoB64"), PrevWriteDefault: rapid.Bool().Draw(t, "prevWriteDefault"), PrevI2S: rapid.Bool().Draw(t, "prevI2S")}
		if cs.NoB64 {
			sanitize(v)
		}
		if rapid.IntRange(0, 2).Draw(t, "poisoned") == 0 {
			cs.Poison = uint8(rapid.IntRange(1, 255).Draw(t, "poison"))
		}
		return cs
	},
	Check: checkThrift,
})

func TestThriftRoundTrip(t *testing.T) { pbt.Run(t, TProp) }

// ---------------------------------------------------------------------------
// Protobuf

type PCase struct {
	Schema pmodel.Schema `json:"schema"`
	Msg    []byte        `json:"msg"` // reference encoding
	BufCap int           `json:"buf_cap"`
	Poison uint8         `json:"poison,omitempty"` // see TCase.Poison
}

// sameJSON compares two parsed documents; object member order is not significant (proto maps are unordered).
func sameJSON(a, b *jmodel.Node, path string) string {
	if a.K != b.K {
		return fmt.Sprintf("%s: %s vs %s", path, a, b)
	}
	switch a.K {
	case jmodel.Bool:
		if a.B != b.B {
			return fmt.Sprintf("%s: %v vs %v", path, a.B, b.B)
		}
	case jmodel.Num:
		if a.Num != b.Num {
			fa, _ := a.Float()
			fb, _ := b.Float()
			ia, oka := a.Int(false)
			ib, okb := b.Int(false)
			if !(oka && okb && ia.Cmp(ib) == 0) && !(fa == fb && !oka && !okb) {
				return fmt.Sprintf("%s: number %s vs %s", path, a.Num, b.Num)
			}
		}
	case jmodel.Str:
		if a.Str != b.Str {
			return fmt.Sprintf("%s: string %q vs %q", path, a.Str, b.Str)
		}
	case jmodel.Arr:
		if len(a.Elems) != len(b.Elems) {
			return fmt.Sprintf("%s: %d vs %d elements", path, len(a.Elems), len(b.Elems))
		}
		for i := range a.Elems {
			if d := sameJSON(a.Elems[i], b.Elems[i], fmt.Sprintf("%s[%d]", path, i)); d != "" {
				return d
			}
		}
	case jmodel.Obj:
		if len(a.Keys) != len(b.Keys) {
			return fmt.Sprintf("%s: members %q vs %q", path, a.Keys, b.Keys)
		}
		for i, k := range a.Keys {
			o := b.Get(k)
			if o == nil {
				return fmt.Sprintf("%s: member %q missing in the second document", path, k)
			}
			if d := sameJSON(a.Vals[i], o, path+"."+k); d != "" {
				return d
			}
		}
	}
	return ""
}

func checkProto(c *pbt.Ctx, cs PCase) {
	comp, err := pmodel.Compile(cs.Schema.Render(), cs.Schema.Main)
	if err != nil {
		c.Failf("harness-schema", "generated schema rejected by the reference: %v", err)
	}
	if comp.SvcErr != nil {
		c.Failf("idl-error", "dynamicgo rejects the schema: %v", comp.SvcErr)
	}
	md := comp.Msg("pkg.Root")
	ref, err := pmodel.Unmarshal(md, cs.Msg)
	if err != nil {
		c.Failf("harness-msg", "reference cannot decode the input: %v", err)
	}
	desc := comp.Svc.LookupMethodByName("Call").Input()
	ctx := context.Background()
	pj := p2j.NewBinaryConv(conv.Options{})
	jp := j2p.NewBinaryConv(conv.Options{})
	src := append(make([]byte, 0, len(cs.Msg)+16), cs.Msg...)
	var j1, b2, j2 []byte
	poison := func() {
		for i, d := range poisonDocs {
			if cs.Poison&(1<<uint(i)) != 0 {
				c.Step("a rejected j2p conversion first: %s", d)
				c.Protect("", func() { _, _ = jp.Do(ctx, desc, append(make([]byte, 0, len(d)+64), d...)) })
			}
		}
		if cs.Poison&0x80 != 0 && len(cs.Msg) > 1 {
			c.Step("a p2j conversion of a truncated message first")
			c.Protect("", func() { _, _ = pj.Do(ctx, desc, append(make([]byte, 0, len(cs.Msg)+16), cs.Msg[:len(cs.Msg)/2]...)) })
		}
	}
	poison()
	c.Step("p2j")
	if !c.Protect("", func() { j1, err = pj.Do(ctx, desc, src) }) {
		return
	}
	if err != nil {
		c.Failf("p2j-error", "p2j fails on a reference-encoded message: %v", err)
		return
	}
	poison()
	c.Step("j2p of p2j output")
	if !c.Protect("", func() {
		buf := make([]byte, 0, cs.BufCap)
		err = jp.DoInto(ctx, desc, j1, &buf)
		b2 = buf
	}) {
		return
	}
	if err != nil {
		c.Failf("j2p-error", "j2p rejects p2j's own output: %v\nJSON: %s", err, show(j1))
		return
	}
	back, err := pmodel.Unmarshal(md, b2)
	if err != nil {
		c.Failf("proto-roundtrip", "j2p(p2j(m)) is not decodable by the reference: %v\nJSON: %s\nbytes %x", err, show(j1), head(b2))
		return
	}
	if !proto.Equal(ref, back) {
		c.Failf("proto-roundtrip", "j2p(p2j(m)) is not proto.Equal to m\nJSON: %s\n got %v\nwant %v", show(j1), short(back), short(ref))
		return
	}
	c.Step("p2j of j2p output")
	if !c.Protect("", func() { j2, err = pj.Do(ctx, desc, append(make([]byte, 0, len(b2)+16), b2...)) }) {
		return
	}
	if err != nil {
		c.Failf("p2j-error", "p2j fails on j2p's output: %v", err)
		return
	}
	n1, e1 := jmodel.Parse(j1)
	n2, e2 := jmodel.Parse(j2)
	if e1 != nil || e2 != nil {
		c.Failf("json-roundtrip", "p2j output is not valid JSON: %v / %v", e1, e2)
		return
	}
	if d := sameJSON(n1, n2, "$"); d != "" {
		c.Failf("json-roundtrip", "p2j(j2p(j)) does not denote the value j denotes: %s\n j: %s\n j': %s", d, show(j1), show(j2))
		return
	}
	if len(n1.Keys) >= 3 {
		c.NonTrivial()
	}
	if cs.Poison != 0 {
		c.Class("after-rejected-conversions")
	}
}

func short(m proto.Message) string {
	s := fmt.Sprint(m)
	if len(s) > 800 {
		s = s[:800] + "..."
	}
	return s
}

var PProp = pbt.Register(pbt.Prop[PCase]{
	Name: "TestProtoRoundTrip",
	Rule: "generated proto3 schema (every scalar kind, enums, nested/recursive messages, repeated, maps with supported key kinds) + reference-encoded message with finite floats (uint64 >= 2^63, fixed32 >= 2^31, negative int32, empty strings/bytes in lists and maps); m -> p2j -> j2p must be proto.Equal to m under protobuf-go, and p2j again must denote the same JSON value; every step must succeed, also right after conversions of malformed documents / a truncated message that the same converters rejected; non-trivial = root object with >= 3 members",
	Gen: func(t *rapid.T) PCase {
		sc := pmodel.GenSchema(t, pmodel.GenOpts{JSONNames: true, AllKinds: rapid.IntRange(0, 2).Draw(t, "allKinds") == 0, KeyKinds: pmodel.SupportedKeyKinds})
		comp, err := pmodel.Compile(sc.Render(), sc.Main)
		if err != nil {
			t.Fatalf("generator produced an invalid schema: %v", err)
		}
		m := pmodel.GenMessage(t, comp.Msg("pkg.Root"), pmodel.MsgOpts{MaxDepth: 2, MaxElems: 3, FiniteOnly: true})
		cs := PCase{Schema: sc, Msg: pmodel.Marshal(m), BufCap: []int{0, 1, 64, 4096}[rapid.IntRange(0, 3).Draw(t, "bufCap")]}
		if rapid.IntRange(0, 2).Draw(t, "poisoned") == 0 {
			cs.Poison = uint8(rapid.IntRange(1, 255).Draw(t, "poison"))
		}
		return cs
	},
	Check: checkProto,
})

func TestProtoRoundTrip(t *testing.T) { pbt.Run(t, PProp) }
