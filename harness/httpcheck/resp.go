package httpcheck

import (
	"context"
	"fmt"
	"math"
	"strconv"
	"strings"

	"github.com/cloudwego/dynamicgo/conv"
	"github.com/cloudwego/dynamicgo/conv/t2j"
	"github.com/cloudwego/dynamicgo/thrift"
	"pgregory.net/rapid"

	"verifharness/jmodel"
	"verifharness/pbt"
	"verifharness/tjson"
	tm "verifharness/tmodel"
)

type RespCase struct {
	U        *tm.Universe `json:"u"`
	V        *tm.Value    `json:"v"`
	Omit     bool         `json:"omit_http_mapping_errors,omitempty"`
	Fallback bool         `json:"write_http_value_fallback,omitempty"`
}

type recorder struct {
	headers map[string]string
	cookies map[string]string
	status  *int
	raw     []byte
	rawSet  bool
	calls   []string
}

func (r *recorder) SetStatusCode(c int) error {
	r.status = &c
	r.calls = append(r.calls, fmt.Sprintf("status=%d", c))
	return nil
}
func (r *recorder) SetHeader(k, v string) error {
	r.headers[k] = v
	r.calls = append(r.calls, fmt.Sprintf("header %s=%q", k, v))
	return nil
}
func (r *recorder) SetCookie(k, v string) error {
	r.cookies[k] = v
	r.calls = append(r.calls, fmt.Sprintf("cookie %s=%q", k, v))
	return nil
}
func (r *recorder) SetRawBody(b []byte) error {
	r.raw, r.rawSet = append([]byte(nil), b...), true
	r.calls = append(r.calls, fmt.Sprintf("raw_body=%q", b))
	return nil
}

var respTargets = []string{"header", "cookie", "http_code", "raw_body"}
var failingTargets = []string{"query", "path", "form"}

func genRespSchema(t *rapid.T) *tm.Universe {
	u := &tm.Universe{}
	var fields []tm.FieldDef
	n := rapid.IntRange(1, 7).Draw(t, "nResp")
	for i := 0; i < n; i++ {
		fd := tm.FieldDef{ID: int16(i + 1), Name: fmt.Sprintf("r%d", i), Req: rapid.IntRange(0, 2).Draw(t, "req")}
		ty := fieldTypes[rapid.IntRange(0, len(fieldTypes)-1).Draw(t, "fieldType")]
		fd.T = ty.t
		if rapid.IntRange(0, 6).Draw(t, "innerField") == 0 {
			fd.T = &tm.Type{K: tm.STRUCT, Ref: "RInner"}
			fields = append(fields, fd)
			continue
		}
		if rapid.IntRange(0, 3).Draw(t, "annotated") != 0 {
			nf := rapid.IntRange(0, 2).Draw(t, "nFailing")
			for j := 0; j < nf; j++ {
				s := failingTargets[rapid.IntRange(0, len(failingTargets)-1).Draw(t, "failingTarget")]
				dup := false
				for _, a := range fd.Annos {
					dup = dup || a.Key == "api."+s
				}
				if !dup {
					fd.Annos = append(fd.Annos, tm.Anno{Key: "api." + s, Val: fmt.Sprintf("x%d", i)})
				}
			}
			nt := rapid.IntRange(0, 2).Draw(t, "nTargets")
			for j := 0; j < nt; j++ {
				s := respTargets[rapid.IntRange(0, len(respTargets)-1).Draw(t, "target")]
				dup := false
				for _, a := range fd.Annos {
					dup = dup || a.Key == "api."+s
				}
				if dup || (s == "http_code" && !(fd.T.K.IsInt() || fd.T.K == tm.STRING)) {
					continue // a status code is taken from integer or string fields only
				}
				key := fmt.Sprintf("K-%s%d", s[:1], i)
				if rapid.IntRange(0, 6).Draw(t, "sharedKey") == 0 {
					key = "Shared"
				}
				if s == "http_code" || s == "raw_body" {
					key = ""
				}
				fd.Annos = append(fd.Annos, tm.Anno{Key: "api." + s, Val: key})
			}
			if len(fd.Annos) > 0 && rapid.IntRange(0, 3).Draw(t, "bodyLast") == 0 {
				fd.Annos = append(fd.Annos, tm.Anno{Key: "api.body", Val: fmt.Sprintf("b%d", i)})
			}
		}
		fields = append(fields, fd)
	}
	u.Structs = append(u.Structs, tm.StructDef{Name: "Resp", Fields: fields})
	// nested structs: the level directly below the response struct is mapped too, deeper levels are not
	inner := tm.StructDef{Name: "RInner", Fields: []tm.FieldDef{
		{ID: 1, Name: "h", T: &tm.Type{K: tm.STRING}, Req: []int{tm.ReqDefault, tm.ReqRequired}[rapid.IntRange(0, 1).Draw(t, "innerHReq")], Annos: []tm.Anno{{Key: "api.header", Val: "Inner-H"}}},
		{ID: 2, Name: "n", T: &tm.Type{K: tm.I32}, Req: tm.ReqOptional},
		{ID: 3, Name: "d", T: &tm.Type{K: tm.STRUCT, Ref: "RDeep"}, Req: tm.ReqOptional}}}
	u.Structs = append(u.Structs, inner)
	u.Structs = append(u.Structs, tm.StructDef{Name: "RDeep", Fields: []tm.FieldDef{
		{ID: 1, Name: "h", T: &tm.Type{K: tm.STRING}, Annos: []tm.Anno{{Key: "api.header", Val: "Deep-H"}}}}})
	u.Root = &tm.Type{K: tm.STRUCT, Ref: "Resp"}
	return u
}

// textOf: the text form a scalar is delivered as.
func textMatches(ty *tm.Type, v *tm.Value, got string) bool {
	switch ty.K {
	case tm.BOOL:
		return got == strconv.FormatBool(v.B)
	case tm.I16, tm.I32, tm.I64:
		return got == strconv.FormatInt(v.I, 10)
	case tm.DOUBLE:
		f, err := strconv.ParseFloat(got, 64)
		return err == nil && math.Float64bits(f) == v.F
	case tm.STRING:
		return got == string(v.S)
	}
	return false
}

func checkResp(c *pbt.Ctx, cs RespCase) {
	comp, err := tm.CompileUniverse(cs.U, thrift.Options{})
	if err != nil {
		c.Failf("harness-idl", "IDL rejected: %v\n%s", err, cs.U.Render())
	}
	sd := cs.U.Struct("Resp")
	// model
	type delivery struct {
		fd     *tm.FieldDef
		v      *tm.Value
		target tm.Anno
	}
	var deliveries []delivery
	wantErr := false
	// mapStruct applies response mapping to one struct value; the library maps the response struct and the structs
	// directly below it (deeper levels are written to the JSON body as they are).
	var mapStruct func(v *tm.Value, sd *tm.StructDef, depth int) *tm.Value
	mapStruct = func(v *tm.Value, sd *tm.StructDef, depth int) *tm.Value {
		body := &tm.Value{K: tm.STRUCT}
		for _, f := range v.Fields {
			if wantErr {
				return body
			}
			fd := sd.Field(f.ID)
			as := annos(fd)
			if len(as) == 0 || depth > 1 {
				if fd.T.K == tm.STRUCT && depth < 1 {
					body.Fields = append(body.Fields, tm.FieldVal{ID: f.ID, V: mapStruct(f.V, cs.U.Struct(fd.T.Ref), depth+1)})
				} else {
					body.Fields = append(body.Fields, f)
				}
				continue
			}
			// api.body is processed last
			var ordered []tm.Anno
			for _, a := range as {
				if a.Key != "api.body" {
					ordered = append(ordered, a)
				}
			}
			for _, a := range as {
				if a.Key == "api.body" {
					ordered = append(ordered, a)
				}
			}
			delivered := false
			for _, a := range ordered {
				ok := false
				switch a.Key {
				case "api.header", "api.cookie", "api.raw_body":
					ok = true
				case "api.http_code":
					switch fd.T.K {
					case tm.I16, tm.I32, tm.I64:
						ok = true
					case tm.STRING:
						_, e := strconv.Atoi(string(f.V.S))
						ok = e == nil
					case tm.BOOL, tm.DOUBLE:
						txt := strconv.FormatBool(f.V.B)
						if fd.T.K == tm.DOUBLE {
							txt = strconv.FormatFloat(math.Float64frombits(f.V.F), 'g', -1, 64)
						}
						_, e := strconv.Atoi(txt)
						ok = e == nil
					}
				}
				if ok {
					deliveries = append(deliveries, delivery{fd, f.V, a})
					delivered = true
					break
				}
				if !cs.Omit {
					wantErr = true
					return body
				}
			}
			if !delivered && cs.Fallback {
				body.Fields = append(body.Fields, f)
			}
		}
		return body
	}
	body := mapStruct(cs.V, sd, 0)
	rec := &recorder{headers: map[string]string{}, cookies: map[string]string{}}
	ctx := context.WithValue(context.Background(), conv.CtxKeyHTTPResponse, rec)
	cv := t2j.NewBinaryConv(conv.Options{EnableHttpMapping: true, OmitHttpMappingErrors: cs.Omit, WriteHttpValueFallback: cs.Fallback})
	enc := tm.Encode(cs.V)
	msg := append(make([]byte, 0, len(enc)+16), enc...)
	var out []byte
	c.Step("t2j with http mapping omit=%v fallback=%v", cs.Omit, cs.Fallback)
	if !c.Protect("", func() { out, err = cv.Do(ctx, comp.Root, msg) }) {
		return
	}
	// the caller's buffer is the caller's again: what was delivered must not point into it (NoCopyString is off)
	for i := range msg {
		msg[i] = 0xEE
	}
	desc := func() string {
		var b strings.Builder
		for _, fd := range sd.Fields {
			fmt.Fprintf(&b, " %d:%s(%s)%v", fd.ID, fd.Name, tm.TypeIDL(fd.T), fd.Annos)
		}
		return fmt.Sprintf("Resp:%s\nvalue %s\ncalls %q\nJSON %s", b.String(), cs.V.Short(), rec.calls, out)
	}
	if wantErr {
		if err == nil {
			c.Failf("missing-error", "a listed target cannot take the value and OmitHttpMappingErrors is off, yet the conversion succeeded\n%s", desc())
			return
		}
		c.Class("rejected:target-failed")
		c.NonTrivial()
		return
	}
	if err != nil {
		c.Failf("unexpected-error", "conversion fails: %v\n%s", err, desc())
		return
	}
	// deliveries, in wire order (later ones overwrite earlier ones on a shared key)
	wantH, wantC := map[string]delivery{}, map[string]delivery{}
	var wantStatus, wantRaw *delivery
	for i := range deliveries {
		d := deliveries[i]
		switch d.target.Key {
		case "api.header":
			wantH[d.target.Val] = d
		case "api.cookie":
			wantC[d.target.Val] = d
		case "api.http_code":
			wantStatus = &deliveries[i]
		case "api.raw_body":
			wantRaw = &deliveries[i]
		}
	}
	matches := func(d delivery, got string) bool {
		if d.fd.T.K.IsContainer() {
			n, perr := jmodel.ParseRaw([]byte(got))
			return perr == nil && tjson.Expect(n, d.v, d.fd.T, cs.U, tjson.Opts{}, "$") == ""
		}
		return textMatches(d.fd.T, d.v, got)
	}
	if len(rec.headers) != len(wantH) || len(rec.cookies) != len(wantC) {
		c.Failf("wrong-delivery", "headers/cookies set: %v / %v, expected keys %v / %v\n%s", rec.headers, rec.cookies, keysOf(wantH), keysOf(wantC), desc())
		return
	}
	for k, d := range wantH {
		if got, ok := rec.headers[k]; !ok || !matches(d, got) {
			c.Failf("wrong-delivery", "header %q = %q, expected the value of field %s\n%s", k, got, d.fd.Name, desc())
			return
		}
	}
	for k, d := range wantC {
		if got, ok := rec.cookies[k]; !ok || !matches(d, got) {
			c.Failf("wrong-delivery", "cookie %q = %q, expected the value of field %s\n%s", k, got, d.fd.Name, desc())
			return
		}
	}
	if (wantStatus != nil) != (rec.status != nil) || (wantStatus != nil && !matches(*wantStatus, strconv.Itoa(*rec.status)) && wantStatus.fd.T.K != tm.STRING && wantStatus.fd.T.K != tm.DOUBLE && wantStatus.fd.T.K != tm.BOOL) {
		c.Failf("wrong-delivery", "status code delivery differs (expected field %v)\n%s", wantStatus != nil, desc())
		return
	}
	if (wantRaw != nil) != rec.rawSet || (wantRaw != nil && !matches(*wantRaw, string(rec.raw))) {
		c.Failf("wrong-delivery", "raw body delivery differs (expected field %v)\n%s", wantRaw != nil, desc())
		return
	}
	n, perr := jmodel.ParseRaw(out)
	if perr != nil {
		c.Failf("bad-json", "JSON body is not valid: %v\n%s", perr, desc())
		return
	}
	if d := tjson.Expect(n, body, cs.U.Root, cs.U, tjson.Opts{}, "$"); d != "" {
		c.Failf("wrong-body", "JSON body differs from the fields that remain for it: %s\n%s", d, desc())
		return
	}
	if len(deliveries) > 0 {
		c.NonTrivial()
		c.Class("delivered")
	}
	c.Class(fmt.Sprintf("omit=%v,fallback=%v", cs.Omit, cs.Fallback))
}

func keysOf[T any](m map[string]T) []string {
	var out []string
	for k := range m {
		out = append(out, k)
	}
	return out
}

// RespProp returns the (unregistered) response-mapping property under the given test name.
func RespProp(name string) pbt.Prop[RespCase] {
	return pbt.Prop[RespCase]{
		Name: name,
		Rule: "generated response structs (scalar, list, map fields with lists of targets: api.header/cookie/http_code/raw_body, optionally preceded by annotations that cannot take a response value (api.query/path/form) and followed by api.body; keys shared between fields; nested structs: the level directly below the response is mapped as well, deeper levels go to the body) + conforming messages (empty strings, all present/absent subsets) x OmitHttpMappingErrors x WriteHttpValueFallback; a recording ResponseSetter captures the calls; model: each present annotated field goes to its first target that accepts it (text form for scalars, JSON for containers) and is absent from the JSON body; a failing target is an error unless errors are omitted; undeliverable fields go to the body only under WriteHttpValueFallback; the JSON body must denote exactly the remaining fields; non-trivial = at least one delivery or a demanded error",
		Gen: func(t *rapid.T) RespCase {
			u := genRespSchema(t)
			cfg := tm.GenCfg{MaxDepth: 3, ValidUTF8: true, FiniteDoubles: true}
			v := tm.GenValue(t, u, u.Root, cfg)
			return RespCase{U: u, V: v, Omit: rapid.Bool().Draw(t, "omit"), Fallback: rapid.Bool().Draw(t, "fallback")}
		},
		Check: checkResp,
	}
}
