// Package httpcheck holds the HTTP-mapping checks shared by C17 (default build) and C18 (portable build).
package httpcheck

import (
	"bytes"
	"context"
	"encoding/base64"
	"errors"
	"fmt"
	"math"
	stdhttp "net/http"
	"net/url"
	"sort"
	"strconv"
	"strings"

	"github.com/cloudwego/dynamicgo/conv"
	"github.com/cloudwego/dynamicgo/conv/j2t"
	dhttp "github.com/cloudwego/dynamicgo/http"
	"github.com/cloudwego/dynamicgo/thrift"
	"pgregory.net/rapid"

	"verifharness/jmodel"
	"verifharness/pbt"
	"verifharness/tjson"
	tm "verifharness/tmodel"
)

// ---------------------------------------------------------------------------
// schema

var reqSources = []string{"query", "path", "header", "cookie", "form"}

func annos(fd *tm.FieldDef) []tm.Anno {
	var out []tm.Anno
	for _, a := range fd.Annos {
		if strings.HasPrefix(a.Key, "api.") && a.Key != "api.js_conv" {
			out = append(out, a)
		}
	}
	return out
}

type tyc struct {
	t       *tm.Type
	complex bool
}

var fieldTypes = []tyc{
	{&tm.Type{K: tm.BOOL}, false}, {&tm.Type{K: tm.I16}, false}, {&tm.Type{K: tm.I32}, false}, {&tm.Type{K: tm.I64}, false}, {&tm.Type{K: tm.DOUBLE}, false},
	{&tm.Type{K: tm.STRING}, false}, {&tm.Type{K: tm.STRING}, false},
	{&tm.Type{K: tm.LIST, Elem: &tm.Type{K: tm.I32}}, true}, {&tm.Type{K: tm.LIST, Elem: &tm.Type{K: tm.STRING}}, true},
	{&tm.Type{K: tm.MAP, Key: &tm.Type{K: tm.STRING}, Elem: &tm.Type{K: tm.I32}}, true},
}

// request fields also take binaries (base64 text in every source)
var reqFieldTypes = append(append([]tyc{}, fieldTypes...), tyc{&tm.Type{K: tm.LIST, Elem: &tm.Type{K: tm.STRING, Bin: true}}, true}, tyc{&tm.Type{K: tm.STRING, Bin: true}, false})

func genReqFields(t *rapid.T, n int, prefix string, allowInner bool) []tm.FieldDef {
	var out []tm.FieldDef
	for i := 0; i < n; i++ {
		fd := tm.FieldDef{ID: int16(i + 1), Name: fmt.Sprintf("%s%d", prefix, i), Req: rapid.IntRange(0, 2).Draw(t, "req")}
		if rapid.IntRange(0, 4).Draw(t, "bigID") == 0 {
			fd.ID = int16(100 + i*37)
		}
		ty := reqFieldTypes[rapid.IntRange(0, len(reqFieldTypes)-1).Draw(t, "fieldType")]
		fd.T = ty.t
		if allowInner && rapid.IntRange(0, 5).Draw(t, "innerField") == 0 {
			fd.T = &tm.Type{K: tm.STRUCT, Ref: "Inner"}
			out = append(out, fd)
			continue
		}
		switch c := rapid.IntRange(0, 9).Draw(t, "annoClass"); {
		case c < 3: // plain body field
		case c == 3 && fd.T.K == tm.STRING && !fd.T.Bin:
			fd.Annos = append(fd.Annos, tm.Anno{Key: []string{"api.raw_body", "api.raw_uri"}[rapid.IntRange(0, 1).Draw(t, "rawKind")], Val: ""})
		default:
			srcs := rapid.Permutation(reqSources).Draw(t, "sources")
			k := rapid.IntRange(1, 3).Draw(t, "nSources")
			for _, s := range srcs[:k] {
				if s == "cookie" && ty.complex {
					continue // cookie values cannot carry commas or brackets
				}
				key := fmt.Sprintf("%s_%s%d", s[:1], prefix, i)
				if rapid.IntRange(0, 5).Draw(t, "keyIsName") == 0 {
					key = fd.Name
				}
				if rapid.IntRange(0, 7).Draw(t, "sharedKey") == 0 {
					key = "shared"
				}
				fd.Annos = append(fd.Annos, tm.Anno{Key: "api." + s, Val: key})
			}
			if rapid.IntRange(0, 2).Draw(t, "bodyLast") == 0 {
				key := fmt.Sprintf("b_%s%d", prefix, i)
				if rapid.IntRange(0, 3).Draw(t, "sharedBodyKey") == 0 {
					key = "shared_body"
				}
				fd.Annos = append(fd.Annos, tm.Anno{Key: "api.body", Val: key}) // always listed last (the library moves it last anyway)
			}
		}
		out = append(out, fd)
	}
	return out
}

func genSchema(t *rapid.T) *tm.Universe {
	u := &tm.Universe{}
	u.Structs = append(u.Structs, tm.StructDef{Name: "Req", Fields: genReqFields(t, rapid.IntRange(1, 8).Draw(t, "nReq"), "f", true)})
	u.Structs = append(u.Structs, tm.StructDef{Name: "Inner", Fields: genReqFields(t, rapid.IntRange(1, 4).Draw(t, "nInner"), "g", false)})
	if rapid.IntRange(0, 2).Draw(t, "noBodyStruct") == 0 {
		// a struct that is filled from the http sources only (api.no_body_struct): scalar members
		nb := genReqFields(t, rapid.IntRange(2, 5).Draw(t, "nNB"), "h", false)
		for i := range nb {
			if nb[i].T.K == tm.LIST || nb[i].T.K == tm.MAP {
				nb[i].T = &tm.Type{K: tm.I64}
			}
		}
		u.Structs = append(u.Structs, tm.StructDef{Name: "NB", Fields: nb})
		req := &u.Structs[0]
		id := int16(90)
		for req.Field(id) != nil {
			id++
		}
		req.Fields = append(req.Fields, tm.FieldDef{ID: id, Name: "nb", Req: rapid.IntRange(0, 2).Draw(t, "nbReq"), T: &tm.Type{K: tm.STRUCT, Ref: "NB"},
			Annos: []tm.Anno{{Key: "api.no_body_struct", Val: ""}}})
	}
	u.Root = &tm.Type{K: tm.STRUCT, Ref: "Req"}
	return u
}

// ---------------------------------------------------------------------------
// request case

type ROpts struct {
	Enable    bool `json:"enable"`
	Fallback  bool `json:"read_http_value_fallback,omitempty"`
	Traceback bool `json:"traceback_required_or_root,omitempty"`
	WR        bool `json:"write_require,omitempty"`
	WD        bool `json:"write_default,omitempty"`
	WO        bool `json:"write_optional,omitempty"`
}

type ReqCase struct {
	U        *tm.Universe      `json:"u"`
	O        ROpts             `json:"o"`
	BodyKind string            `json:"body_kind"` // json | empty | form
	Query    map[string]string `json:"query,omitempty"`
	Params   map[string]string `json:"params,omitempty"`
	Headers  map[string]string `json:"headers,omitempty"`
	Cookies  map[string]string `json:"cookies,omitempty"`
	Form     map[string]string `json:"form,omitempty"`
	Body     string            `json:"body,omitempty"`  // JSON object text
	Twice    bool              `json:"twice,omitempty"` // convert the same request object twice
	Rewrite  bool              `json:"rewrite,omitempty"` // the request object first served a conversion with an empty query string; the query is then rewritten in place
}

var safeTokens = []string{"a", "abc", "x-1", "v_2", "Zq", "0", "7", "true", "hello.world", "k"}

func textFor(t *rapid.T, ty *tm.Type, allowJSON bool) string {
	switch ty.K {
	case tm.BOOL:
		return []string{"true", "false", "1", "0"}[rapid.IntRange(0, 3).Draw(t, "boolText")]
	case tm.I16:
		return strconv.Itoa(rapid.IntRange(-32768, 32767).Draw(t, "i16Text"))
	case tm.I32:
		return strconv.FormatInt(tm.GenInt(t, tm.I32), 10)
	case tm.I64:
		return strconv.FormatInt(tm.GenInt(t, tm.I64), 10)
	case tm.DOUBLE:
		return []string{"0", "1.5", "-2.25", "100", "1e3", "0.001"}[rapid.IntRange(0, 5).Draw(t, "doubleText")]
	case tm.STRING:
		if ty.Bin {
			// binaries travel as base64 text
			return base64.StdEncoding.EncodeToString([]byte(safeTokens[rapid.IntRange(0, len(safeTokens)-1).Draw(t, "token")] + []string{"", "!", "\x00\xff"}[rapid.IntRange(0, 2).Draw(t, "binTail")]))
		}
		return safeTokens[rapid.IntRange(0, len(safeTokens)-1).Draw(t, "token")]
	case tm.LIST:
		n := rapid.IntRange(1, 3).Draw(t, "listN")
		var parts []string
		for i := 0; i < n; i++ {
			parts = append(parts, textFor(t, ty.Elem, false))
		}
		if allowJSON && rapid.Bool().Draw(t, "listAsJSON") {
			if ty.Elem.K == tm.STRING {
				for i := range parts {
					parts[i] = strconv.Quote(parts[i])
				}
			}
			_ = ty.Elem.Bin // (base64 text needs no escaping)
			return "[" + strings.Join(parts, ",") + "]"
		}
		return strings.Join(parts, ",")
	case tm.MAP:
		n := rapid.IntRange(0, 2).Draw(t, "mapN")
		var parts []string
		for i := 0; i < n; i++ {
			parts = append(parts, fmt.Sprintf("%q:%d", fmt.Sprintf("k%d", i), rapid.IntRange(-5, 5).Draw(t, "mapVal")))
		}
		return "{" + strings.Join(parts, ",") + "}"
	}
	return ""
}

func jsonFor(t *rapid.T, ty *tm.Type, u *tm.Universe, depth int) string {
	switch ty.K {
	case tm.BOOL:
		return []string{"true", "false"}[rapid.IntRange(0, 1).Draw(t, "boolJSON")]
	case tm.I16, tm.I32, tm.I64, tm.DOUBLE:
		s := textFor(t, ty, false)
		return s
	case tm.STRING:
		if ty.Bin {
			return strconv.Quote(textFor(t, ty, false))
		}
		return strconv.Quote(safeTokens[rapid.IntRange(0, len(safeTokens)-1).Draw(t, "tokenJSON")] + []string{"", " b", "\"q\""}[rapid.IntRange(0, 2).Draw(t, "tokenTail")])
	case tm.LIST:
		n := rapid.IntRange(0, 3).Draw(t, "listNJSON")
		var parts []string
		for i := 0; i < n; i++ {
			parts = append(parts, jsonFor(t, ty.Elem, u, depth+1))
		}
		return "[" + strings.Join(parts, ",") + "]"
	case tm.MAP:
		return textFor(t, ty, true)
	case tm.STRUCT:
		return objectFor(t, u.Struct(ty.Ref), u, depth+1, nil)
	}
	return "null"
}

// objectFor renders a JSON object presenting a subset of the struct's fields plus the extra members.
func objectFor(t *rapid.T, sd *tm.StructDef, u *tm.Universe, depth int, extra map[string]string) string {
	var parts []string
	for i := range sd.Fields {
		fd := &sd.Fields[i]
		if rapid.IntRange(0, 2).Draw(t, "memberPresent") == 0 {
			continue
		}
		parts = append(parts, strconv.Quote(tjson.Key(fd))+":"+jsonFor(t, fd.T, u, depth))
	}
	keys := make([]string, 0, len(extra))
	for k := range extra {
		keys = append(keys, k)
	}
	sort.Strings(keys)
	for _, k := range keys {
		parts = append(parts, strconv.Quote(k)+":"+extra[k])
	}
	if len(parts) > 1 {
		parts = rapid.Permutation(parts).Draw(t, "memberOrder")
	}
	return "{" + strings.Join(parts, ",") + "}"
}

func genReq(t *rapid.T) ReqCase {
	cs := ReqCase{U: genSchema(t), Query: map[string]string{}, Params: map[string]string{}, Headers: map[string]string{}, Cookies: map[string]string{}, Form: map[string]string{}}
	cs.O.Enable = rapid.IntRange(0, 7).Draw(t, "enable") != 0
	if cs.O.Enable {
		cs.O.Fallback = rapid.Bool().Draw(t, "fallback")
		cs.O.Traceback = rapid.Bool().Draw(t, "traceback")
	}
	cs.O.WR = rapid.IntRange(0, 2).Draw(t, "wr") == 0
	cs.O.WD = rapid.Bool().Draw(t, "wd")
	cs.O.WO = rapid.Bool().Draw(t, "wo")
	cs.BodyKind = []string{"json", "json", "json", "empty", "form"}[rapid.IntRange(0, 4).Draw(t, "bodyKind")]
	bodyExtra := map[string]string{}
	typeOfKey := map[string]*tm.Type{} // one type per (source,key): shared keys must carry text valid for every field using them
	for _, sd := range cs.U.Structs {
		for i := range sd.Fields {
			fd := &sd.Fields[i]
			for _, a := range annos(fd) {
				src := strings.TrimPrefix(a.Key, "api.")
				id := src + "|" + a.Val
				if prev, ok := typeOfKey[id]; ok && (prev.K == tm.STOP || tm.TypeIDL(prev) != tm.TypeIDL(fd.T)) {
					// a key shared by fields of different types: leave the source empty for it
					switch src {
					case "query":
						delete(cs.Query, a.Val)
					case "path":
						delete(cs.Params, a.Val)
					case "header":
						delete(cs.Headers, a.Val)
					case "cookie":
						delete(cs.Cookies, a.Val)
					case "form":
						delete(cs.Form, a.Val)
					case "body":
						delete(bodyExtra, a.Val)
					}
					typeOfKey[id] = &tm.Type{K: tm.STOP}
					continue
				} else if ok {
					continue
				}
				typeOfKey[id] = fd.T
				if rapid.IntRange(0, 1).Draw(t, "populate") == 0 {
					continue
				}
				switch src {
				case "query":
					cs.Query[a.Val] = textFor(t, fd.T, true)
				case "path":
					cs.Params[a.Val] = textFor(t, fd.T, true)
				case "header":
					cs.Headers[a.Val] = textFor(t, fd.T, true)
				case "cookie":
					cs.Cookies[a.Val] = textFor(t, fd.T, false)
				case "form":
					cs.Form[a.Val] = textFor(t, fd.T, true)
				case "body":
					bodyExtra[a.Val] = jsonFor(t, fd.T, cs.U, 1)
				}
			}
		}
	}
	// a few values under the fields' own keys (traceback looks fields up by key in every source)
	for i := range cs.U.Structs[0].Fields {
		fd := &cs.U.Structs[0].Fields[i]
		if fd.T.K == tm.STRUCT || typeOfKey["query|"+tjson.Key(fd)] != nil || typeOfKey["header|"+tjson.Key(fd)] != nil {
			continue
		}
		switch rapid.IntRange(0, 9).Draw(t, "ownKey") {
		case 0:
			cs.Query[tjson.Key(fd)] = textFor(t, fd.T, true)
		case 1:
			cs.Headers[tjson.Key(fd)] = textFor(t, fd.T, true)
		}
	}
	switch cs.BodyKind {
	case "json":
		cs.Body = objectFor(t, cs.U.Struct("Req"), cs.U, 0, bodyExtra)
		cs.Form = map[string]string{}
	case "form":
		// form members double as body members
	default:
		cs.Form = map[string]string{}
	}
	cs.Twice = rapid.IntRange(0, 3).Draw(t, "twice") == 0
	cs.Rewrite = rapid.IntRange(0, 3).Draw(t, "rewrite") == 0
	return cs
}

// ---------------------------------------------------------------------------
// model

var errMissing = errors.New("missing required field")

type model struct {
	cs   ReqCase
	body *jmodel.Node // parsed JSON body (nil when there is none)
}

func (m *model) bodyMember(key string) string {
	if m.cs.BodyKind == "form" {
		return m.cs.Form[key]
	}
	if m.body == nil || m.body.K != jmodel.Obj {
		return ""
	}
	n := m.body.Get(key)
	if n == nil {
		return ""
	}
	if n.K == jmodel.Str {
		return n.Str
	}
	return rawOf(n)
}

// rawOf re-renders a parsed node compactly (the generator writes compact JSON, so this is the member's raw text).
func rawOf(n *jmodel.Node) string {
	switch n.K {
	case jmodel.Null:
		return "null"
	case jmodel.Bool:
		return strconv.FormatBool(n.B)
	case jmodel.Num:
		return n.Num
	case jmodel.Str:
		return strconv.Quote(n.Str)
	case jmodel.Arr:
		var p []string
		for _, e := range n.Elems {
			p = append(p, rawOf(e))
		}
		return "[" + strings.Join(p, ",") + "]"
	}
	var p []string
	for i, k := range n.Keys {
		p = append(p, strconv.Quote(k)+":"+rawOf(n.Vals[i]))
	}
	return "{" + strings.Join(p, ",") + "}"
}

func (m *model) source(a tm.Anno) string {
	switch a.Key {
	case "api.query":
		return m.cs.Query[a.Val]
	case "api.path":
		return m.cs.Params[a.Val]
	case "api.header":
		return m.cs.Headers[a.Val]
	case "api.cookie":
		return m.cs.Cookies[a.Val]
	case "api.form":
		return m.cs.Form[a.Val]
	case "api.body":
		return m.bodyMember(a.Val)
	case "api.raw_body":
		if m.cs.BodyKind == "json" {
			return m.cs.Body
		}
		return ""
	case "api.raw_uri":
		return uriOf(m.cs)
	}
	return ""
}

// firstSource: the first listed source that has a value. api.raw_body / api.raw_uri always "have" one (possibly empty).
func (m *model) firstSource(fd *tm.FieldDef) (string, bool) {
	for _, a := range annos(fd) {
		v := m.source(a)
		if v != "" || a.Key == "api.raw_body" || a.Key == "api.raw_uri" {
			return v, true
		}
	}
	return "", false
}

func isNoBodyStruct(fd *tm.FieldDef) bool {
	for _, a := range fd.Annos {
		if a.Key == "api.no_body_struct" {
			return true
		}
	}
	return false
}

// noBodyStruct: every http-annotated member from its first source that has a value, else its zero value;
// members without http annotations are not part of it.
func (m *model) noBodyStruct(fd *tm.FieldDef) (*tm.Value, error) {
	sd := m.cs.U.Struct(fd.T.Ref)
	out := &tm.Value{K: tm.STRUCT}
	for i := range sd.Fields {
		f := &sd.Fields[i]
		if len(annos(f)) == 0 {
			continue
		}
		v, _ := m.firstSource(f)
		if v == "" {
			out.Fields = append(out.Fields, tm.FieldVal{ID: f.ID, V: tm.ZeroValue(f.T)})
			continue
		}
		val, err := m.fromText(f.T, v)
		if err != nil {
			return nil, fmt.Errorf("model cannot convert %q for %s: %w", v, f.Name, err)
		}
		out.Fields = append(out.Fields, tm.FieldVal{ID: f.ID, V: val})
	}
	return out, nil
}

// tryGet: path parameter, query, header, cookie, body member - in that order.
func (m *model) tryGet(key string) string {
	for _, v := range []string{m.cs.Params[key], m.cs.Query[key], m.cs.Headers[key], m.cs.Cookies[key], m.bodyMember(key)} {
		if v != "" {
			return v
		}
	}
	return ""
}

func isJSONText(v string) bool {
	v = strings.TrimLeft(v, " \t\r\n")
	if len(v) < 2 {
		return false
	}
	s, e := v[0], v[len(v)-1]
	return (s == '{' && e == '}') || (s == '[' && e == ']') || (s == '"' && e == '"')
}

func (m *model) fromText(ty *tm.Type, v string) (*tm.Value, error) {
	switch ty.K {
	case tm.BOOL:
		b, err := strconv.ParseBool(v)
		return &tm.Value{K: tm.BOOL, B: b}, err
	case tm.I16, tm.I32, tm.I64:
		i, err := strconv.ParseInt(v, 10, 64)
		return &tm.Value{K: ty.K, I: i}, err
	case tm.DOUBLE:
		f, err := strconv.ParseFloat(v, 64)
		return &tm.Value{K: tm.DOUBLE, F: math.Float64bits(f)}, err
	case tm.STRING:
		if ty.Bin {
			b, err := base64.StdEncoding.DecodeString(v)
			return &tm.Value{K: tm.STRING, S: b}, err
		}
		return &tm.Value{K: tm.STRING, S: []byte(v)}, nil
	case tm.LIST:
		if isJSONText(v) {
			n, err := jmodel.ParseRaw([]byte(v))
			if err != nil {
				return nil, err
			}
			return m.fromJSON(ty, n, false)
		}
		out := &tm.Value{K: tm.LIST, ET: ty.Elem.K}
		for _, p := range strings.Split(v, ",") {
			e, err := m.fromText(ty.Elem, p)
			if err != nil {
				return nil, err
			}
			out.Elems = append(out.Elems, e)
		}
		return out, nil
	case tm.MAP:
		n, err := jmodel.ParseRaw([]byte(v))
		if err != nil {
			return nil, err
		}
		return m.fromJSON(ty, n, false)
	}
	return nil, fmt.Errorf("no text form for %v", ty.K)
}

func (m *model) fromJSON(ty *tm.Type, n *jmodel.Node, root bool) (*tm.Value, error) {
	switch ty.K {
	case tm.BOOL:
		if n.K != jmodel.Bool {
			return nil, fmt.Errorf("kind")
		}
		return &tm.Value{K: tm.BOOL, B: n.B}, nil
	case tm.I16, tm.I32, tm.I64:
		i, ok := n.Int(false)
		if !ok {
			f, fok := n.Float()
			if !fok {
				return nil, fmt.Errorf("kind")
			}
			return &tm.Value{K: ty.K, I: int64(f)}, nil
		}
		return &tm.Value{K: ty.K, I: i.Int64()}, nil
	case tm.DOUBLE:
		f, ok := n.Float()
		if !ok {
			return nil, fmt.Errorf("kind")
		}
		return &tm.Value{K: tm.DOUBLE, F: math.Float64bits(f)}, nil
	case tm.STRING:
		if n.K != jmodel.Str {
			return nil, fmt.Errorf("kind")
		}
		if ty.Bin {
			b, err := base64.StdEncoding.DecodeString(n.Str)
			return &tm.Value{K: tm.STRING, S: b}, err
		}
		return &tm.Value{K: tm.STRING, S: []byte(n.Str)}, nil
	case tm.LIST:
		if n.K != jmodel.Arr {
			return nil, fmt.Errorf("kind")
		}
		out := &tm.Value{K: tm.LIST, ET: ty.Elem.K}
		for _, e := range n.Elems {
			c, err := m.fromJSON(ty.Elem, e, false)
			if err != nil {
				return nil, err
			}
			out.Elems = append(out.Elems, c)
		}
		return out, nil
	case tm.MAP:
		if n.K != jmodel.Obj {
			return nil, fmt.Errorf("kind")
		}
		out := &tm.Value{K: tm.MAP, KT: ty.Key.K, ET: ty.Elem.K}
		for i, k := range n.Keys {
			c, err := m.fromJSON(ty.Elem, n.Vals[i], false)
			if err != nil {
				return nil, err
			}
			out.Keys = append(out.Keys, &tm.Value{K: tm.STRING, S: []byte(k)})
			out.Elems = append(out.Elems, c)
		}
		return out, nil
	case tm.STRUCT:
		if n.K != jmodel.Obj {
			return nil, fmt.Errorf("kind")
		}
		return m.strct(m.cs.U.Struct(ty.Ref), n, root)
	}
	return nil, fmt.Errorf("kind")
}

// emptyRule: nothing was found for the field anywhere.
func (m *model) emptyRule(fd *tm.FieldDef) (*tm.Value, error) {
	switch fd.Req {
	case tm.ReqRequired:
		if !m.cs.O.WR {
			return nil, errMissing
		}
	case tm.ReqOptional:
		if !m.cs.O.WO {
			return nil, nil
		}
	default:
		if !m.cs.O.WD {
			return nil, nil
		}
	}
	return tm.ZeroValue(fd.T), nil
}

// strct: one struct converted from a JSON object that is present.
func (m *model) strct(sd *tm.StructDef, obj *jmodel.Node, root bool) (*tm.Value, error) {
	out := &tm.Value{K: tm.STRUCT}
	o := m.cs.O
	handled := map[int16]bool{}
	pending := map[int16]bool{}
	set := map[int16]bool{}
	add := func(fd *tm.FieldDef, v *tm.Value) {
		out.Fields = append(out.Fields, tm.FieldVal{ID: fd.ID, V: v})
		set[fd.ID] = true
	}
	if o.Enable {
		for i := range sd.Fields {
			fd := &sd.Fields[i]
			if len(annos(fd)) == 0 {
				continue
			}
			if isNoBodyStruct(fd) {
				val, err := m.noBodyStruct(fd)
				if err != nil {
					return nil, err
				}
				add(fd, val)
				handled[fd.ID] = true
				continue
			}
			v, ok := m.firstSource(fd)
			if !ok || v == "" {
				if !ok && o.Fallback {
					pending[fd.ID] = true
					continue
				}
				val, err := m.emptyRule(fd)
				if err != nil {
					return nil, err
				}
				if val != nil {
					add(fd, val)
				}
				handled[fd.ID] = true
				continue
			}
			val, err := m.fromText(fd.T, v)
			if err != nil {
				return nil, fmt.Errorf("model cannot convert %q for %s: %w", v, fd.Name, err)
			}
			add(fd, val)
			handled[fd.ID] = true
		}
	}
	for i, k := range obj.Keys {
		var fd *tm.FieldDef
		for j := range sd.Fields {
			if tjson.Key(&sd.Fields[j]) == k {
				fd = &sd.Fields[j]
			}
		}
		if fd == nil || set[fd.ID] && !handled[fd.ID] {
			continue
		}
		if o.Enable && len(annos(fd)) > 0 && !pending[fd.ID] {
			continue // http-mapped: the body member is ignored
		}
		if obj.Vals[i].K == jmodel.Null {
			continue
		}
		val, err := m.fromJSON(fd.T, obj.Vals[i], false)
		if err != nil {
			return nil, err
		}
		add(fd, val)
		delete(pending, fd.ID)
	}
	ids := make([]int, 0, len(sd.Fields))
	for i := range sd.Fields {
		ids = append(ids, int(sd.Fields[i].ID))
	}
	sort.Ints(ids)
	for _, id := range ids {
		fd := sd.Field(int16(id))
		if set[fd.ID] || handled[fd.ID] {
			continue
		}
		if !pending[fd.ID] && fd.Req == tm.ReqOptional {
			continue // no bit
		}
		if o.Enable && o.Fallback && (fd.Req == tm.ReqRequired || root) {
			v := ""
			if o.Traceback {
				v = m.tryGet(tjson.Key(fd))
			}
			if v != "" {
				val, err := m.fromText(fd.T, v)
				if err != nil {
					return nil, fmt.Errorf("model cannot convert %q for %s: %w", v, fd.Name, err)
				}
				add(fd, val)
				continue
			}
			val, err := m.emptyRule(fd)
			if err != nil {
				return nil, err
			}
			if val != nil {
				add(fd, val)
			}
			continue
		}
		val, err := m.emptyRule(fd)
		if err != nil {
			return nil, err
		}
		if val != nil {
			add(fd, val)
		}
	}
	return out, nil
}

// noBody: the request has no JSON body.
func (m *model) noBody(sd *tm.StructDef) (*tm.Value, error) {
	out := &tm.Value{K: tm.STRUCT}
	o := m.cs.O
	if !o.Enable {
		return out, nil
	}
	done := map[int16]bool{}
	for i := range sd.Fields {
		fd := &sd.Fields[i]
		if len(annos(fd)) == 0 {
			continue
		}
		if isNoBodyStruct(fd) {
			val, err := m.noBodyStruct(fd)
			if err != nil {
				return nil, err
			}
			done[fd.ID] = true
			out.Fields = append(out.Fields, tm.FieldVal{ID: fd.ID, V: val})
			continue
		}
		v, ok := m.firstSource(fd)
		if !ok || v == "" {
			if fd.Req == tm.ReqRequired && !o.WR {
				return nil, errMissing
			}
			if (fd.Req == tm.ReqDefault && !o.WD) || (fd.Req == tm.ReqOptional && !o.WO) {
				if ok {
					done[fd.ID] = true // an empty raw body counts as handled
				}
				continue
			}
			done[fd.ID] = true
			out.Fields = append(out.Fields, tm.FieldVal{ID: fd.ID, V: tm.ZeroValue(fd.T)})
			continue
		}
		val, err := m.fromText(fd.T, v)
		if err != nil {
			return nil, fmt.Errorf("model cannot convert %q for %s: %w", v, fd.Name, err)
		}
		done[fd.ID] = true
		out.Fields = append(out.Fields, tm.FieldVal{ID: fd.ID, V: val})
	}
	ids := make([]int, 0, len(sd.Fields))
	for i := range sd.Fields {
		ids = append(ids, int(sd.Fields[i].ID))
	}
	sort.Ints(ids)
	for _, id := range ids {
		fd := sd.Field(int16(id))
		if done[fd.ID] || fd.Req == tm.ReqOptional {
			continue
		}
		if !o.Fallback {
			if fd.Req == tm.ReqRequired {
				return nil, errMissing
			}
			continue
		}
		if v := m.tryGet(tjson.Key(fd)); v != "" && fd.T.K != tm.STRUCT {
			val, err := m.fromText(fd.T, v)
			if err != nil {
				return nil, fmt.Errorf("model cannot convert %q for %s: %w", v, fd.Name, err)
			}
			out.Fields = append(out.Fields, tm.FieldVal{ID: fd.ID, V: val})
			continue
		}
		val, err := m.emptyRule(fd)
		if err != nil {
			return nil, err
		}
		if val != nil {
			out.Fields = append(out.Fields, tm.FieldVal{ID: fd.ID, V: val})
		}
	}
	return out, nil
}

func uriOf(cs ReqCase) string {
	q := url.Values{}
	for k, v := range cs.Query {
		q.Set(k, v)
	}
	u := "http://example.com/svc/call"
	if len(q) > 0 {
		u += "?" + q.Encode()
	}
	return u
}

func buildRequest(cs ReqCase) (*dhttp.HTTPRequest, error) {
	var body []byte
	ct := ""
	switch cs.BodyKind {
	case "json":
		body, ct = []byte(cs.Body), "application/json"
	case "form":
		f := url.Values{}
		for k, v := range cs.Form {
			f.Set(k, v)
		}
		body, ct = []byte(f.Encode()), "application/x-www-form-urlencoded"
	}
	std, err := stdhttp.NewRequest("POST", uriOf(cs), bytes.NewReader(body))
	if err != nil {
		return nil, err
	}
	if ct != "" {
		std.Header.Set("Content-Type", ct)
	}
	for k, v := range cs.Headers {
		std.Header.Set(k, v)
	}
	ck := make([]string, 0, len(cs.Cookies))
	for k := range cs.Cookies {
		ck = append(ck, k)
	}
	sort.Strings(ck)
	for _, k := range ck {
		std.AddCookie(&stdhttp.Cookie{Name: k, Value: cs.Cookies[k]})
	}
	var params []dhttp.Param
	pk := make([]string, 0, len(cs.Params))
	for k := range cs.Params {
		pk = append(pk, k)
	}
	sort.Strings(pk)
	for _, k := range pk {
		params = append(params, dhttp.Param{Key: k, Value: cs.Params[k]})
	}
	return dhttp.NewHTTPRequestFromStdReq(std, params...)
}

// RegionPrefix is put in front of every known-finding region (C18 sets it to "<build variant>:").
var RegionPrefix = ""

// reqRegion: the implementations disagree on TracebackRequredOrRootFields without ReadHttpValueFallback (see C18 known findings).
func reqRegion(cs ReqCase) string {
	if cs.O.Enable && cs.O.Traceback && !cs.O.Fallback {
		return RegionPrefix + "traceback-without-fallback"
	}
	return ""
}

func checkReq(c *pbt.Ctx, cs ReqCase) {
	comp, err := tm.CompileUniverse(cs.U, thrift.Options{})
	if err != nil {
		c.Failf("harness-idl", "IDL rejected: %v\n%s", err, cs.U.Render())
	}
	m := &model{cs: cs}
	if cs.BodyKind == "json" {
		n, perr := jmodel.ParseRaw([]byte(cs.Body))
		if perr != nil {
			c.Failf("harness-json", "generated body is not valid JSON: %v\n%s", perr, cs.Body)
			return
		}
		m.body = n
	}
	var want *tm.Value
	var werr error
	if cs.BodyKind == "json" {
		want, werr = m.fromJSON(cs.U.Root, m.body, true)
	} else {
		want, werr = m.noBody(cs.U.Struct("Req"))
	}
	if werr != nil && werr != errMissing {
		c.Failf("harness-model", "%v", werr)
		return
	}
	req, err := buildRequest(cs)
	if err != nil {
		c.Failf("harness-request", "cannot build the request: %v", err)
		return
	}
	co := conv.Options{EnableHttpMapping: cs.O.Enable, ReadHttpValueFallback: cs.O.Fallback, TracebackRequredOrRootFields: cs.O.Traceback,
		WriteRequireField: cs.O.WR, WriteDefaultField: cs.O.WD, WriteOptionalField: cs.O.WO}
	cv := j2t.NewBinaryConv(co)
	var body []byte
	if cs.BodyKind == "json" {
		body = []byte(cs.Body)
	}
	if cs.Rewrite && len(cs.Query) > 0 {
		// the request object has been converted before, when its query string was still empty (as if a middleware
		// added the query afterwards): whatever it is asked next, it must answer from the request as it is now
		cs0 := cs
		cs0.Query = nil
		early, err := buildRequest(cs0)
		if err != nil {
			c.Failf("harness-request", "cannot build the request: %v", err)
			return
		}
		c.Step("a conversion of the same request object while its query string is empty")
		c.Protect("", func() {
			_, _ = cv.Do(context.WithValue(context.Background(), conv.CtxKeyHTTPRequest, early), comp.Root, body)
		})
		early.URL.RawQuery = req.URL.RawQuery
		req = early
		c.Class("query-rewritten-in-place")
	}
	ctx := context.WithValue(context.Background(), conv.CtxKeyHTTPRequest, req)
	rounds := 1
	if cs.Twice {
		rounds = 2
	}
	for r := 0; r < rounds; r++ {
		var out []byte
		c.Step("j2t with http mapping, round %d, opts=%+v", r, cs.O)
		if !c.Protect("", func() { out, err = cv.Do(ctx, comp.Root, body) }) {
			return
		}
		if werr == errMissing {
			if err == nil {
				c.Fail(reqRegion(cs), "missing-error", "a required field has no value in any source, conversion succeeded: %x\n%s", head(out), describe(cs))
				return
			}
			c.Class("rejected:missing-required")
			continue
		}
		if err != nil {
			c.Fail(reqRegion(cs), "unexpected-error", "conversion fails: %v\n%s", err, describe(cs))
			return
		}
		got, derr := tm.DecodeStrict(tm.STRUCT, out)
		if derr != nil {
			c.Failf("bad-output", "output is not well-formed Thrift: %v\n%x\n%s", derr, head(out), describe(cs))
			return
		}
		if d := tm.DiffFieldsByID(want, got); d != "" {
			c.Fail(reqRegion(cs), "wrong-fields", "round %d: output differs from the decision table (want vs got): %s\n%s", r, d, describe(cs))
			return
		}
	}
	c.Class("body:" + cs.BodyKind)
	c.Class(fmt.Sprintf("opts:enable=%v,fallback=%v,traceback=%v", cs.O.Enable, cs.O.Fallback, cs.O.Traceback))
	if cs.O.Enable {
		c.NonTrivial()
	}
}

func head(b []byte) []byte {
	if len(b) > 200 {
		return b[:200]
	}
	return b
}

func describe(cs ReqCase) string {
	var b strings.Builder
	for _, sd := range cs.U.Structs {
		fmt.Fprintf(&b, "struct %s:", sd.Name)
		for _, fd := range sd.Fields {
			fmt.Fprintf(&b, " %d:%s(%s,req=%d)%v", fd.ID, fd.Name, tm.TypeIDL(fd.T), fd.Req, fd.Annos)
		}
		b.WriteString("\n")
	}
	fmt.Fprintf(&b, "opts=%+v body(%s)=%s\nquery=%v params=%v headers=%v cookies=%v form=%v", cs.O, cs.BodyKind, cs.Body, cs.Query, cs.Params, cs.Headers, cs.Cookies, cs.Form)
	s := b.String()
	if len(s) > 2500 {
		s = s[:2500] + "..."
	}
	return s
}

// ReqProp returns the (unregistered) request-mapping property under the given test name.
func ReqProp(name string) pbt.Prop[ReqCase] {
	return pbt.Prop[ReqCase]{
		Name:  name,
		Rule:  "generated request structs (scalar, binary, list (also of binaries, base64 text) and map fields with any ordered list of api.query/path/header/cookie/form [+ api.body last], api.raw_body / api.raw_uri string fields, plain body fields, a nested struct with its own annotated fields, a struct-typed field annotated api.no_body_struct whose scalar members carry their own source lists, keys shared between fields, any requiredness) x requests built with the library's own HTTPRequest (any subset of sources populated; JSON body / form body / no body; body members in any order; the same request converted twice) x options (EnableHttpMapping, ReadHttpValueFallback, TracebackRequredOrRootFields, Write*Field); oracle = decision-table model: first listed source that has a value, converted by the field type; plain fields from the body; an api.no_body_struct field holds exactly its annotated members, each from its first source with a value, else zero; otherwise body fallback / traceback by key / zero filling / missing-field error as the options say; output decoded by the reference codec and compared field by field; non-trivial = mapping enabled",
		Gen:   genReq,
		Check: checkReq,
	}
}
