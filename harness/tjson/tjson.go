// Package tjson states the JSON<->Thrift value correspondence used by the converter checks:
// Expect decides whether a parsed JSON document denotes a given Thrift value (t2j oracle side),
// Write renders a Thrift value as a JSON document in drawn spellings (j2t generator side).
// Both are written from the documented mapping, not from the converters' code.
package tjson

import (
	"encoding/base64"
	"fmt"
	"math"
	"math/big"
	"strconv"

	"pgregory.net/rapid"

	"verifharness/jmodel"
	tm "verifharness/tmodel"
)

// Opts are the value-affecting conversion options.
type Opts struct {
	Int642String   bool `json:"int64_as_string,omitempty"`
	ByteAsUint8    bool `json:"byte_as_uint8,omitempty"`
	NoBase64Binary bool `json:"no_base64,omitempty"`
	ValueMapping   bool `json:"value_mapping,omitempty"` // api.js_conv fields are strings
	String2Int64   bool `json:"string2int64,omitempty"`
	// AnyOrder: Expect matches struct members by key instead of by position (for checks where the order of members is not part of the property)
	AnyOrder bool `json:"any_order,omitempty"`
}

// Key is the JSON member name of a field: the api.key alias when declared, else the field name.
func Key(fd *tm.FieldDef) string {
	if fd.Alias != "" {
		return fd.Alias
	}
	return fd.Name
}

// JSConv reports whether the field carries api.js_conv.
func JSConv(fd *tm.FieldDef) bool {
	for _, a := range fd.Annos {
		if a.Key == "api.js_conv" {
			return true
		}
	}
	return false
}

func intOf(v *tm.Value, o Opts) int64 {
	if v.K == tm.BYTE && o.ByteAsUint8 {
		return int64(uint8(v.I))
	}
	return v.I
}

// KeyText is the member name a map key is printed as.
func KeyText(k *tm.Value, o Opts) (string, bool) {
	switch k.K {
	case tm.STRING:
		return string(k.S), true
	case tm.BYTE, tm.I16, tm.I32, tm.I64:
		return strconv.FormatInt(intOf(k, o), 10), true
	}
	return "", false
}

// Finite reports whether every double in the value is finite.
func Finite(v *tm.Value) bool {
	if v.K == tm.DOUBLE {
		f := math.Float64frombits(v.F)
		return !math.IsNaN(f) && !math.IsInf(f, 0)
	}
	for _, f := range v.Fields {
		if !Finite(f.V) {
			return false
		}
	}
	for _, k := range v.Keys {
		if !Finite(k) {
			return false
		}
	}
	for _, e := range v.Elems {
		if !Finite(e) {
			return false
		}
	}
	return true
}

func expectInt(n *jmodel.Node, want int64, asString bool, path string) string {
	if asString {
		if n.K != jmodel.Str {
			return fmt.Sprintf("%s: want the integer %d as a string, got %s", path, want, n)
		}
		if n.Str != strconv.FormatInt(want, 10) {
			return fmt.Sprintf("%s: want \"%d\", got %q", path, want, n.Str)
		}
		return ""
	}
	if n.K != jmodel.Num {
		return fmt.Sprintf("%s: want the number %d, got %s", path, want, n)
	}
	got, ok := n.Int(false)
	if !ok || got.Cmp(big.NewInt(want)) != 0 {
		return fmt.Sprintf("%s: want %d, got %s", path, want, n.Num)
	}
	return ""
}

func expectDouble(n *jmodel.Node, bits uint64, asString bool, path string) string {
	txt := n.Num
	if asString {
		if n.K != jmodel.Str {
			return fmt.Sprintf("%s: want a double as a string, got %s", path, n)
		}
		txt = n.Str
	} else if n.K != jmodel.Num {
		return fmt.Sprintf("%s: want a number, got %s", path, n)
	}
	f, err := strconv.ParseFloat(txt, 64)
	if err != nil || math.Float64bits(f) != bits {
		return fmt.Sprintf("%s: want the double %v (bits %#x), got %q (bits %#x)", path, math.Float64frombits(bits), bits, txt, math.Float64bits(f))
	}
	return ""
}

func trunc(b []byte) string {
	if len(b) > 60 {
		return fmt.Sprintf("%q...(%d bytes)", b[:60], len(b))
	}
	return fmt.Sprintf("%q", b)
}

// Expect returns "" when JSON node n denotes value v of type ty the way Thrift->JSON must print it:
// struct members = keys of the declared present fields in wire order (undeclared ids dropped),
// map members in wire order with decimal integer keys, lists/sets in wire order.
func Expect(n *jmodel.Node, v *tm.Value, ty *tm.Type, u *tm.Universe, o Opts, path string) string {
	return expect(n, v, ty, u, o, path, false)
}

func expect(n *jmodel.Node, v *tm.Value, ty *tm.Type, u *tm.Universe, o Opts, path string, jsconv bool) string {
	switch ty.K {
	case tm.BOOL:
		if n.K != jmodel.Bool || n.B != v.B {
			return fmt.Sprintf("%s: want %v, got %s", path, v.B, n)
		}
	case tm.BYTE, tm.I16, tm.I32:
		w := intOf(v, o)
		if jsconv {
			w = v.I // the value mapping prints the signed value
		}
		return expectInt(n, w, jsconv, path)
	case tm.I64:
		return expectInt(n, v.I, jsconv || o.Int642String, path)
	case tm.DOUBLE:
		return expectDouble(n, v.F, jsconv, path)
	case tm.STRING:
		if n.K != jmodel.Str {
			return fmt.Sprintf("%s: want a string, got %s", path, n)
		}
		if ty.Bin && !o.NoBase64Binary && !jsconv {
			if want := base64.StdEncoding.EncodeToString(v.S); n.Str != want {
				return fmt.Sprintf("%s: want base64 %s, got %s", path, trunc([]byte(want)), trunc([]byte(n.Str)))
			}
			return ""
		}
		if n.Str != string(v.S) {
			return fmt.Sprintf("%s: want string %s, got %s", path, trunc(v.S), trunc([]byte(n.Str)))
		}
	case tm.LIST, tm.SET:
		if n.K != jmodel.Arr {
			return fmt.Sprintf("%s: want an array, got %s", path, n)
		}
		if len(n.Elems) != len(v.Elems) {
			return fmt.Sprintf("%s: want %d elements, got %d", path, len(v.Elems), len(n.Elems))
		}
		for i := range v.Elems {
			if d := expect(n.Elems[i], v.Elems[i], ty.Elem, u, o, fmt.Sprintf("%s[%d]", path, i), jsconv); d != "" {
				return d
			}
		}
	case tm.MAP:
		if n.K != jmodel.Obj {
			return fmt.Sprintf("%s: want an object, got %s", path, n)
		}
		if len(n.Keys) != len(v.Keys) {
			return fmt.Sprintf("%s: want %d map members, got %d", path, len(v.Keys), len(n.Keys))
		}
		for i := range v.Keys {
			kt, ok := KeyText(v.Keys[i], o)
			if !ok {
				return fmt.Sprintf("%s: map key kind %v has no JSON form", path, v.Keys[i].K)
			}
			if n.Keys[i] != kt {
				return fmt.Sprintf("%s: member %d: want key %s, got %s", path, i, trunc([]byte(kt)), trunc([]byte(n.Keys[i])))
			}
			if d := expect(n.Vals[i], v.Elems[i], ty.Elem, u, o, fmt.Sprintf("%s{%s}", path, trunc([]byte(kt))), false); d != "" {
				return d
			}
		}
	case tm.STRUCT:
		if n.K != jmodel.Obj {
			return fmt.Sprintf("%s: want an object, got %s", path, n)
		}
		sd := u.Struct(ty.Ref)
		if o.AnyOrder {
			cnt := 0
			for _, f := range v.Fields {
				fd := sd.Field(f.ID)
				if fd == nil {
					continue
				}
				cnt++
				m := n.Get(Key(fd))
				if m == nil {
					return fmt.Sprintf("%s: member %q for field %d is missing; members %q", path, Key(fd), f.ID, n.Keys)
				}
				if d := expect(m, f.V, fd.T, u, o, path+"."+Key(fd), o.ValueMapping && JSConv(fd)); d != "" {
					return d
				}
			}
			if cnt != len(n.Keys) {
				return fmt.Sprintf("%s: %d members %q, expected %d fields %v", path, len(n.Keys), n.Keys, cnt, fieldIDs(v))
			}
			return ""
		}
		j := 0
		for _, f := range v.Fields {
			fd := sd.Field(f.ID)
			if fd == nil {
				continue // undeclared id: dropped
			}
			if j >= len(n.Keys) {
				return fmt.Sprintf("%s: member for present field %d (%s) is missing; members %q", path, f.ID, Key(fd), n.Keys)
			}
			if n.Keys[j] != Key(fd) {
				return fmt.Sprintf("%s: member %d: want key %q (field %d), got %q", path, j, Key(fd), f.ID, n.Keys[j])
			}
			if d := expect(n.Vals[j], f.V, fd.T, u, o, path+"."+Key(fd), o.ValueMapping && JSConv(fd)); d != "" {
				return d
			}
			j++
		}
		if j != len(n.Keys) {
			return fmt.Sprintf("%s: %d extra members beyond the present fields: %q", path, len(n.Keys)-j, n.Keys[j:])
		}
	}
	return ""
}

func fieldIDs(v *tm.Value) []int16 {
	var ids []int16
	for _, f := range v.Fields {
		ids = append(ids, f.ID)
	}
	return ids
}

// ---------------------------------------------------------------------------
// writer

// WOpts steer the document writer.
type WOpts struct {
	Opts
	Nulls    bool // sprinkle "key": null members for absent non-required fields and null map values
	Unknown  bool // sprinkle members no field declares
	StrInts  bool // with String2Int64: spell some integers / doubles as strings
	UseNames int  // 0: alias when declared else name; 1: always the field name (MapFieldUseFieldName / UseBoth); 2: mixed (UseBoth)
	// Contradict: replace one value by a JSON value whose kind contradicts the descriptor (Doc.Contradiction says where)
	Contradict bool
	// NullAny: null members may also stand for absent required fields
	NullAny bool
}

// Doc is the result of writing: the JSON text and the value it denotes (document order, nulls omitted).
type Doc struct {
	Text   []byte
	Denote *tm.Value
	Stats  map[string]int
	// Contradiction is non-empty when a wrong-kind value was placed ("<thrift kind> <- <json text>")
	Contradiction string
	Unknown       int // members no field declares
}

type writer struct {
	placed  string
	unknown int
	w  *jmodel.W
	t  *rapid.T
	u  *tm.Universe
	o  WOpts
	st map[string]int
}

// Write renders value v of type ty. v must be finite, with valid UTF-8 strings and supported map key kinds.
func Write(t *rapid.T, v *tm.Value, ty *tm.Type, u *tm.Universe, o WOpts, variants bool) Doc {
	jw := jmodel.NewW(t, variants)
	wr := &writer{w: jw, t: t, u: u, o: o, st: jw.Stats}
	jw.WS()
	den := wr.value(v, ty, false, 0)
	jw.WS()
	return Doc{Text: jw.B, Denote: den, Stats: jw.Stats, Contradiction: wr.placed, Unknown: wr.unknown}
}

func exactF64(i int64) bool { return i >= -(1<<53) && i <= 1<<53 }

// wrong-kind JSON texts per Thrift kind
func (wr *writer) wrongKind(ty *tm.Type) []string {
	switch ty.K {
	case tm.BOOL:
		return []string{"1", "0", "\"true\"", "[]", "{}", "[true]"}
	case tm.BYTE, tm.I16, tm.I32, tm.I64, tm.DOUBLE:
		l := []string{"true", "false", "[]", "{}", "[1]", "{\"a\":1}"}
		if !wr.o.String2Int64 {
			l = append(l, "\"12\"", "\"\"", "\"x\"")
		}
		return l
	case tm.STRING:
		l := []string{"12", "-1.5", "true", "false", "[]", "{}", "[\"a\"]"}
		if ty.Bin && !wr.o.NoBase64Binary {
			l = append(l, "\"!!!!\"", "\"a\"", "\"ab=c\"")
		}
		return l
	case tm.LIST, tm.SET:
		return []string{"{}", "1", "\"x\"", "true", "{\"0\":1}"}
	case tm.MAP, tm.STRUCT:
		return []string{"[]", "1", "\"x\"", "false", "[{}]"}
	}
	return nil
}

func (wr *writer) value(v *tm.Value, ty *tm.Type, jsconv bool, depth int) *tm.Value {
	w := wr.w
	if wr.o.Contradict && wr.placed == "" && !jsconv && !(depth == 0 && ty.K == tm.STRING) && rapid.IntRange(0, 3).Draw(wr.t, "contradictHere") == 0 {
		l := wr.wrongKind(ty)
		txt := l[rapid.IntRange(0, len(l)-1).Draw(wr.t, "wrongKind")]
		wr.placed = fmt.Sprintf("%v <- %s", ty.K, txt)
		if ty.K == tm.STRING && ty.Bin {
			wr.placed = "binary <- " + txt
		}
		w.Raw(txt)
		return v
	}
	switch ty.K {
	case tm.BOOL:
		w.Bool(v.B)
		return v
	case tm.BYTE, tm.I16, tm.I32, tm.I64:
		asStr := jsconv && rapid.Bool().Draw(wr.t, "jsconvStr")
		if jsconv {
			wr.st["jsconv-"+ty.K.String()]++
		}
		if !jsconv && wr.o.String2Int64 && wr.o.StrInts && rapid.IntRange(0, 2).Draw(wr.t, "intAsStr") == 0 {
			asStr = true
		}
		if asStr {
			wr.st["int-as-string"]++
			w.Raw("\"" + strconv.FormatInt(v.I, 10) + "\"")
		} else {
			w.Int(v.I, exactF64(v.I))
		}
		return v
	case tm.DOUBLE:
		f := math.Float64frombits(v.F)
		asStr := jsconv && rapid.Bool().Draw(wr.t, "jsconvStr")
		if !jsconv && wr.o.String2Int64 && wr.o.StrInts && rapid.IntRange(0, 2).Draw(wr.t, "dblAsStr") == 0 {
			asStr = true
		}
		if asStr {
			wr.st["double-as-string"]++
			w.Raw("\"")
			w.Float(f)
			w.Raw("\"")
			return v
		}
		if f == math.Trunc(f) && math.Abs(f) < 1<<53 && !(f == 0 && math.Signbit(f)) && rapid.Bool().Draw(wr.t, "dblAsInt") {
			wr.st["double-as-integer-token"]++
			w.Int(int64(f), false)
		} else {
			w.Float(f)
		}
		return v
	case tm.STRING:
		if ty.Bin && !wr.o.NoBase64Binary && !jsconv {
			w.Raw("\"" + base64.StdEncoding.EncodeToString(v.S) + "\"")
		} else {
			w.Str(string(v.S))
		}
		return v
	case tm.LIST, tm.SET:
		out := &tm.Value{K: v.K, ET: v.ET}
		w.Raw("[")
		for i, e := range v.Elems {
			if i > 0 {
				w.Raw(",")
			}
			w.WS()
			out.Elems = append(out.Elems, wr.value(e, ty.Elem, jsconv, depth+1))
			w.WS()
		}
		if len(v.Elems) == 0 {
			w.WS()
		}
		w.Raw("]")
		return out
	case tm.MAP:
		out := &tm.Value{K: tm.MAP, KT: v.KT, ET: v.ET}
		w.Raw("{")
		first := true
		for i, k := range v.Keys {
			if !first {
				w.Raw(",")
			}
			first = false
			w.WS()
			kt, ok := KeyText(k, wr.o.Opts)
			if !ok {
				panic("tjson.Write: unsupported map key kind")
			}
			w.Str(kt)
			w.WS()
			w.Raw(":")
			w.WS()
			if wr.o.Nulls && rapid.IntRange(0, 7).Draw(wr.t, "nullMapValue") == 0 {
				wr.st["null-map-value"]++
				w.Null()
			} else {
				out.Keys = append(out.Keys, k)
				out.Elems = append(out.Elems, wr.value(v.Elems[i], ty.Elem, false, depth+1))
			}
			w.WS()
		}
		if len(v.Keys) == 0 {
			w.WS()
		}
		w.Raw("}")
		return out
	case tm.STRUCT:
		sd := wr.u.Struct(ty.Ref)
		out := &tm.Value{K: tm.STRUCT}
		w.Raw("{")
		first := true
		nulled := map[int16]bool{}
		usedUnknown := map[string]bool{}
		sep := func() {
			if !first {
				w.Raw(",")
			}
			first = false
			w.WS()
		}
		extras := func() {
			if wr.o.Unknown && rapid.IntRange(0, 5).Draw(wr.t, "unknownMember") == 0 {
				sep()
				names := []string{"zz_unknown", "", "f", "f_", "unknown \"quoted\" \\ key", "k_", "é中"}
				for i := range sd.Fields {
					// the plain name of an aliased field is not a key when keys are mapped by alias
					if fd := &sd.Fields[i]; wr.o.UseNames == 0 && fd.Alias != "" {
						names = append(names, fd.Name)
					} else if wr.o.UseNames == 1 && fd.Alias != "" {
						names = append(names, fd.Alias)
					}
				}
				name := names[rapid.IntRange(0, len(names)-1).Draw(wr.t, "unknownName")]
				for i := range sd.Fields {
					if Key(&sd.Fields[i]) == name || (wr.o.UseNames != 0 && sd.Fields[i].Name == name) {
						name = "zz_unknown"
					}
				}
				if usedUnknown[name] {
					name = fmt.Sprintf("zz_unknown_%d", len(usedUnknown))
				}
				usedUnknown[name] = true
				wr.unknown++
				w.Str(name)
				w.WS()
				w.Raw(":")
				w.WS()
				w.JunkValue(0)
				w.WS()
				wr.st["unknown-member"]++
			}
			if wr.o.Nulls && rapid.IntRange(0, 5).Draw(wr.t, "nullMember") == 0 {
				// a null member for a declared, absent, non-required field
				var cands []*tm.FieldDef
				for i := range sd.Fields {
					fd := &sd.Fields[i]
					if (fd.Req != tm.ReqRequired || wr.o.NullAny) && v.Field(fd.ID) == nil && !nulled[fd.ID] {
						cands = append(cands, fd)
					}
				}
				if len(cands) > 0 {
					fd := cands[rapid.IntRange(0, len(cands)-1).Draw(wr.t, "nullField")]
					nulled[fd.ID] = true
					sep()
					w.Str(wr.key(fd))
					w.WS()
					w.Raw(":")
					w.WS()
					w.Null()
					w.WS()
					wr.st["null-member"]++
					if wr.o.ValueMapping && JSConv(fd) {
						wr.st["jsconv-null"]++
					}
				}
			}
		}
		for _, f := range v.Fields {
			fd := sd.Field(f.ID)
			if fd == nil {
				panic("tjson.Write: value carries an undeclared field")
			}
			extras()
			sep()
			w.Str(wr.key(fd))
			w.WS()
			w.Raw(":")
			w.WS()
			dv := wr.value(f.V, fd.T, wr.o.ValueMapping && JSConv(fd), depth+1)
			out.Fields = append(out.Fields, tm.FieldVal{ID: f.ID, V: dv})
			w.WS()
		}
		extras()
		if first {
			w.WS()
		}
		w.Raw("}")
		return out
	}
	panic("tjson.Write: kind")
}

func (wr *writer) key(fd *tm.FieldDef) string {
	switch wr.o.UseNames {
	case 1:
		return fd.Name
	case 2:
		if rapid.Bool().Draw(wr.t, "useName") {
			return fd.Name
		}
	}
	return Key(fd)
}
