package tjson

import (
	"pgregory.net/rapid"

	tm "verifharness/tmodel"
)

var SupportedKeys = []tm.Kind{tm.STRING, tm.STRING, tm.BYTE, tm.I16, tm.I32, tm.I64}

func jsconvEligible(t *tm.Type) bool {
	switch t.K {
	case tm.BYTE, tm.I16, tm.I32, tm.I64, tm.DOUBLE:
		return true
	case tm.STRING:
		return !t.Bin
	case tm.LIST:
		return t.Elem.K != tm.LIST && jsconvEligible(t.Elem)
	}
	return false
}

// AddJSConv annotates some eligible fields with api.js_conv.
func AddJSConv(t *rapid.T, u *tm.Universe) { AddJSConvTo(t, u, true) }

// AddJSConvTo: lists only when the consumer supports them (Thrift->JSON prints lists of js_conv scalars, JSON->Thrift does not accept them).
func AddJSConvTo(t *rapid.T, u *tm.Universe, lists bool) {
	for si := range u.Structs {
		for fi := range u.Structs[si].Fields {
			fd := &u.Structs[si].Fields[fi]
			if jsconvEligible(fd.T) && (lists || fd.T.K != tm.LIST) && rapid.IntRange(0, 3).Draw(t, "jsconv") == 0 {
				fd.Annos = append(fd.Annos, tm.Anno{Key: "api.js_conv", Val: ""})
			}
		}
	}
}

func unknownValue(t *rapid.T) *tm.Value {
	switch rapid.IntRange(0, 6).Draw(t, "unknownKind") {
	case 0:
		return &tm.Value{K: tm.I32, I: 7}
	case 1:
		return &tm.Value{K: tm.STRING, S: []byte("unknown \"x\"")}
	case 2:
		return &tm.Value{K: tm.LIST, ET: tm.I64, Elems: []*tm.Value{{K: tm.I64, I: -1}, {K: tm.I64, I: 1 << 40}}}
	case 3:
		return &tm.Value{K: tm.MAP, KT: tm.STRING, ET: tm.BOOL, Keys: []*tm.Value{{K: tm.STRING, S: []byte("k")}}, Elems: []*tm.Value{{K: tm.BOOL, B: true}}}
	case 4:
		return &tm.Value{K: tm.STRUCT, Fields: []tm.FieldVal{{ID: 1, V: &tm.Value{K: tm.DOUBLE, F: 0x3ff8000000000000}}, {ID: 2, V: &tm.Value{K: tm.STRUCT}}}}
	case 5:
		return &tm.Value{K: tm.BOOL, B: true}
	}
	return &tm.Value{K: tm.BYTE, I: -3}
}

// InjectUnknown adds fields the struct does not declare; returns how many were added.
func InjectUnknown(t *rapid.T, v *tm.Value, ty *tm.Type, u *tm.Universe) int {
	n := 0
	switch ty.K {
	case tm.STRUCT:
		sd := u.Struct(ty.Ref)
		for i := range v.Fields {
			if fd := sd.Field(v.Fields[i].ID); fd != nil {
				n += InjectUnknown(t, v.Fields[i].V, fd.T, u)
			}
		}
		if rapid.IntRange(0, 5).Draw(t, "injectUnknown") == 0 {
			id := int16(rapid.IntRange(1, 400).Draw(t, "unknownID"))
			for sd.Field(id) != nil || v.Field(id) != nil {
				id++
			}
			pos := rapid.IntRange(0, len(v.Fields)).Draw(t, "unknownPos")
			f := tm.FieldVal{ID: id, V: unknownValue(t)}
			v.Fields = append(v.Fields[:pos:pos], append([]tm.FieldVal{f}, v.Fields[pos:]...)...)
			n++
		}
	case tm.LIST, tm.SET:
		for _, e := range v.Elems {
			n += InjectUnknown(t, e, ty.Elem, u)
		}
	case tm.MAP:
		for _, e := range v.Elems {
			n += InjectUnknown(t, e, ty.Elem, u)
		}
	}
	return n
}

