package c17

import (
	"testing"

	"verifharness/httpcheck"
	"verifharness/pbt"
)

func TestMain(m *testing.M)   { pbt.Main(m, "C17") }
func TestReplay(t *testing.T) { pbt.Replay(t) }

var ReqProp = pbt.Register(httpcheck.ReqProp("TestRequestMapping"))

func TestRequestMapping(t *testing.T) { pbt.Run(t, ReqProp) }

var RespProp = pbt.Register(httpcheck.RespProp("TestResponseMapping"))

func TestResponseMapping(t *testing.T) { pbt.Run(t, RespProp) }
