package c15

import (
	"context"
	"fmt"
	"os"
	"path/filepath"
	"sort"
	"strings"
	"testing"

	"github.com/cloudwego/dynamicgo/meta"
	dproto "github.com/cloudwego/dynamicgo/proto"
	"google.golang.org/protobuf/reflect/protoreflect"
	"pgregory.net/rapid"

	"verifharness/pbt"
	"verifharness/pmodel"
)

func TestMain(m *testing.M)   { pbt.Main(m, "C15") }
func TestReplay(t *testing.T) { pbt.Replay(t) }

type Case struct {
	Schema pmodel.Schema `json:"schema"`
	Mode   int           `json:"mode"`      // meta.ParseServiceMode
	Reuse  bool          `json:"reuse"`     // the includes map served another schema under the same file name before
	Path   bool          `json:"from_path"` // the schema is read from files (NewDescriptorFromPath, main file given as written, imports through an import directory)
}

var kindType = map[protoreflect.Kind]dproto.Type{
	protoreflect.BoolKind: dproto.BOOL, protoreflect.EnumKind: dproto.ENUM, protoreflect.Int32Kind: dproto.INT32, protoreflect.Sint32Kind: dproto.SINT32,
	protoreflect.Uint32Kind: dproto.UINT32, protoreflect.Int64Kind: dproto.INT64, protoreflect.Sint64Kind: dproto.SINT64, protoreflect.Uint64Kind: dproto.UINT64,
	protoreflect.Sfixed32Kind: dproto.SFIX32, protoreflect.Fixed32Kind: dproto.FIX32, protoreflect.FloatKind: dproto.FLOAT, protoreflect.Sfixed64Kind: dproto.SFIX64,
	protoreflect.Fixed64Kind: dproto.FIX64, protoreflect.DoubleKind: dproto.DOUBLE, protoreflect.StringKind: dproto.STRING, protoreflect.BytesKind: dproto.BYTE,
	protoreflect.MessageKind: dproto.MESSAGE,
}

type walker struct {
	c        *pbt.Ctx
	seen     map[string]bool // (descriptor pointer, reference full name) pairs already compared
	n        int
	sameName bool
}

func (w *walker) typeDesc(path string, td *dproto.TypeDescriptor, rfd protoreflect.FieldDescriptor, asElem bool) {
	c := w.c
	if td == nil {
		c.Failf("nil-type", "%s: nil type descriptor", path)
	}
	switch {
	case rfd.IsMap() && !asElem:
		if td.Type() != dproto.MAP || !td.IsMap() {
			c.Failf("wrong-structure", "%s: declared map, descriptor type %v", path, td.Type())
		}
		if td.Key() == nil || td.Key().Type() != kindType[rfd.MapKey().Kind()] {
			c.Failf("wrong-key-kind", "%s: map key kind %v, declared %s", path, td.Key().Type(), rfd.MapKey().Kind())
		}
		if td.BaseId() != dproto.FieldNumber(rfd.Number()) {
			c.Failf("wrong-base-id", "%s: map BaseId %d want %d", path, td.BaseId(), rfd.Number())
		}
		w.typeDesc(path+"{value}", td.Elem(), rfd.MapValue(), true)
	case rfd.IsList() && !asElem:
		if td.Type() != dproto.LIST || !td.IsList() {
			c.Failf("wrong-structure", "%s: declared repeated, descriptor type %v", path, td.Type())
		}
		if td.IsPacked() != rfd.IsPacked() {
			c.Failf("wrong-packedness", "%s (%s): IsPacked()=%v, declared %v", path, rfd.Kind(), td.IsPacked(), rfd.IsPacked())
		}
		if td.BaseId() != dproto.FieldNumber(rfd.Number()) {
			c.Failf("wrong-base-id", "%s: list BaseId %d want %d", path, td.BaseId(), rfd.Number())
		}
		w.typeDesc(path+"[elem]", td.Elem(), rfd, true)
	default:
		if td.Type() != kindType[rfd.Kind()] {
			c.Failf("wrong-kind", "%s: kind %v, declared %s", path, td.Type(), rfd.Kind())
		}
		if td.IsList() || td.IsMap() {
			c.Failf("wrong-structure", "%s: declared singular, descriptor is list/map", path)
		}
		if rfd.Kind() == protoreflect.MessageKind {
			w.message(path, td, rfd.Message())
		}
	}
}

// message compares a dynamicgo message type descriptor with the reference descriptor of the type the schema names.
func (w *walker) message(path string, td *dproto.TypeDescriptor, rmd protoreflect.MessageDescriptor) {
	c := w.c
	if td == nil || td.Message() == nil {
		c.Failf("nil-message", "%s: no message descriptor for %s", path, rmd.FullName())
	}
	key := fmt.Sprintf("%p|%s", td.Message(), rmd.FullName())
	if w.seen[key] {
		return
	}
	w.seen[key] = true
	w.n++
	md := td.Message()
	rfs := rmd.Fields()
	if md.FieldsCount() != rfs.Len() {
		c.Failf("field-count", "%s (%s): FieldsCount()=%d, the schema declares %d fields", path, rmd.FullName(), md.FieldsCount(), rfs.Len())
	}
	maxNum := 0
	for i := 0; i < rfs.Len(); i++ {
		if n := int(rfs.Get(i).Number()); n > maxNum {
			maxNum = n
		}
	}
	// every number up to max+2, and the numbers that differ from a declared one by a multiple of 2^16 or in sign: a field iff declared
	probe := make([]int, 0, maxNum+3+8*rfs.Len())
	for n := 0; n <= maxNum+2; n++ {
		probe = append(probe, n)
	}
	for i := 0; i < rfs.Len(); i++ {
		n := int(rfs.Get(i).Number())
		probe = append(probe, n+65536, n+131072, n-65536, n-131072, -n, n+(1<<24), n|(1<<28), n-(1<<31))
	}
	probe = append(probe, -1, -65535, -65536, 1<<29-1, -(1 << 31))
	for _, n := range probe {
		if n > 1<<31-1 || n < -(1<<31) {
			continue
		}
		fd := md.ByNumber(dproto.FieldNumber(n))
		rfd := rfs.ByNumber(protoreflect.FieldNumber(n))
		switch {
		case rfd == nil && fd != nil:
			c.Failf("undeclared-number-found", "%s (%s): ByNumber(%d) returns field %q, the schema declares none", path, rmd.FullName(), n, fd.Name())
		case rfd != nil && fd == nil:
			c.Failf("declared-number-missing", "%s (%s): ByNumber(%d) is nil, the schema declares %q", path, rmd.FullName(), n, rfd.Name())
		case rfd != nil:
			fp := fmt.Sprintf("%s.%s", path, rfd.Name())
			if fd.Number() != dproto.FieldNumber(rfd.Number()) || fd.Name() != string(rfd.Name()) || fd.JSONName() != rfd.JSONName() {
				c.Failf("wrong-field-identity", "%s: number/name/jsonName = %d/%q/%q, declared %d/%q/%q", fp, fd.Number(), fd.Name(), fd.JSONName(), rfd.Number(), rfd.Name(), rfd.JSONName())
			}
			if fd.IsList() != rfd.IsList() && !rfd.IsMap() || fd.IsMap() != rfd.IsMap() {
				c.Failf("wrong-structure", "%s: IsList/IsMap = %v/%v, declared %v/%v", fp, fd.IsList(), fd.IsMap(), rfd.IsList() && !rfd.IsMap(), rfd.IsMap())
			}
			wantKind := rfd.Kind()
			if fd.Kind() != dproto.ProtoKind(wantKind) {
				c.Failf("wrong-kind", "%s: Kind()=%v, declared %s", fp, fd.Kind(), wantKind)
			}
			w.typeDesc(fp, fd.Type(), rfd, false)
			// by name / by JSON name
			if g := md.ByName(string(rfd.Name())); g != fd {
				c.Failf("name-lookup", "%s: ByName(%q) does not return the field", fp, rfd.Name())
			}
			if g := md.ByJSONName(rfd.JSONName()); g != fd {
				c.Failf("jsonname-lookup", "%s: ByJSONName(%q) does not return the field", fp, rfd.JSONName())
			}
		}
	}
	// key sweep: names that are not declared must not be found
	declared := map[string]bool{}
	for i := 0; i < rfs.Len(); i++ {
		declared[string(rfs.Get(i).Name())] = true
		declared[rfs.Get(i).JSONName()] = true
	}
	for _, k := range keyFamily(rfs) {
		got := md.ByName(k) != nil
		got2 := md.ByJSONName(k) != nil
		if got != declared[k] || got2 != declared[k] {
			c.Failf("key-lookup", "%s (%s): ByName(%q)=%v ByJSONName(%q)=%v, declared as name or JSON name: %v", path, rmd.FullName(), k, got, k, got2, declared[k])
		}
	}
}

// keyFamily: declared names, their prefixes, one-byte extensions and single-position substitutions, plus fixed probes.
func keyFamily(rfs protoreflect.FieldDescriptors) []string {
	set := map[string]bool{"": true, "a": true, "_": true, strings.Repeat("k", 1024): true, "\x00": true, "\xff": true}
	subs := []byte{0x00, '-', '.', '/', '0', 'A', '_', 'a', 0x7f, 0x80, 0xff}
	for i := 0; i < rfs.Len(); i++ {
		for _, nm := range []string{string(rfs.Get(i).Name()), rfs.Get(i).JSONName()} {
			set[nm] = true
			for j := 0; j <= len(nm); j++ {
				set[nm[:j]] = true
			}
			for _, b := range subs {
				set[nm+string([]byte{b})] = true
				set[string([]byte{b})+nm] = true
			}
			for j := 0; j < len(nm) && j < 12; j++ {
				for _, b := range subs {
					x := []byte(nm)
					x[j] = b
					set[string(x)] = true
				}
			}
			set[strings.ToUpper(nm)] = true
			set[strings.ToLower(nm)] = true
		}
	}
	out := make([]string, 0, len(set))
	for k := range set {
		out = append(out, k)
	}
	sort.Strings(out)
	return out
}

func check(c *pbt.Ctx, cs Case) {
	files := cs.Schema.Render()
	comp, err := pmodel.Compile(files, cs.Schema.Main)
	if err != nil {
		c.Failf("harness-schema", "generated schema rejected by the reference: %v\n%s", err, files[cs.Schema.Main])
	}
	inc := map[string]string{}
	for k, v := range files {
		inc[k] = v
	}
	mode := meta.ParseServiceMode(cs.Mode)
	if cs.Reuse {
		// the caller's includes map is used for another schema under the same file name first (the library stores the
		// main file into the map it is given): the second call must describe the content it is handed
		delete(inc, cs.Schema.Main)
		c.Step("NewDescriptorFromContent of another schema under the same file name, same includes map")
		decoy := "syntax = \"proto3\";\npackage decoy;\nmessage Root { int32 zz = 1; string count = 2; }\nservice Decoy { rpc Only(Root) returns (Root); }\n"
		if _, derr := (dproto.Options{ParseServiceMode: mode}).NewDesccriptorFromContent(context.Background(), cs.Schema.Main, decoy, inc); derr != nil {
			c.Failf("idl-error", "dynamicgo rejects the decoy schema: %v", derr)
		}
		c.Class("includes-map-reused")
	}
	var svc *dproto.ServiceDescriptor
	if cs.Path {
		// the files on disk: the main file is named as written (a path relative to the working directory), the imports are
		// found through the first import directory; a later import directory holds, under the same relative name, another
		// file - the path as written comes first
		c.Step("NewDescriptorFromPath mode=%d", cs.Mode)
		c.Class("from-path")
		dir, derr := os.MkdirTemp("", "c15-*")
		if derr != nil {
			// no scratch directory here: this case is decided through the content entry point instead
			c.Class("from-path:no-scratch-directory")
			cs.Path = false
			check(c, cs)
			return
		}
		defer os.RemoveAll(dir)
		src, vendor := filepath.Join(dir, "src", "p", "q", "r", "s"), filepath.Join(dir, "v", "a", "b", "c", "d", "e", "f", "g", "h", "i", "j", "k")
		for name, text := range files {
			fp := filepath.Join(src, name)
			if os.MkdirAll(filepath.Dir(fp), 0o755) != nil || os.WriteFile(fp, []byte(text), 0o644) != nil {
				c.Class("from-path:no-scratch-directory")
				cs.Path = false
				check(c, cs)
				return
			}
		}
		cwd, _ := os.Getwd()
		mainPath := filepath.Join(src, cs.Schema.Main)
		if rel, rerr := filepath.Rel(cwd, mainPath); rerr == nil {
			mainPath = rel
			decoyAt := filepath.Join(vendor, rel)
			if strings.HasPrefix(decoyAt, dir+string(filepath.Separator)) {
				decoy := "syntax = \"proto3\";\npackage decoy;\nmessage Root { int32 zz = 1; string count = 2; }\nservice Decoy { rpc Only(Root) returns (Root); }\n"
				if err := os.MkdirAll(filepath.Dir(decoyAt), 0o755); err == nil {
					_ = os.WriteFile(decoyAt, []byte(decoy), 0o644)
					c.Class("from-path:shadow-in-import-dir")
				}
			}
		}
		svc, err = dproto.Options{ParseServiceMode: mode}.NewDescriptorFromPath(context.Background(), mainPath, src, vendor)
		if err != nil {
			c.Failf("idl-error", "NewDescriptorFromPath rejects a schema the reference accepts: %v\n%s", err, files[cs.Schema.Main])
		}
	} else {
		c.Step("NewDescriptorFromContent mode=%d", cs.Mode)
		svc, err = dproto.Options{ParseServiceMode: mode}.NewDesccriptorFromContent(context.Background(), cs.Schema.Main, files[cs.Schema.Main], inc)
		if err != nil {
			c.Failf("idl-error", "dynamicgo rejects a schema the reference accepts: %v\n%s", err, files[cs.Schema.Main])
		}
	}
	// expected methods per mode
	rsvcs := comp.RFile.Services()
	type rm struct {
		m protoreflect.MethodDescriptor
	}
	want := map[string]protoreflect.MethodDescriptor{}
	var sel []protoreflect.ServiceDescriptor
	switch mode {
	case meta.LastServiceOnly:
		sel = append(sel, rsvcs.Get(rsvcs.Len()-1))
		if svc.Name() != string(rsvcs.Get(rsvcs.Len()-1).Name()) {
			c.Failf("service-name", "LastServiceOnly: Name()=%q want %q", svc.Name(), rsvcs.Get(rsvcs.Len()-1).Name())
		}
	case meta.FirstServiceOnly:
		sel = append(sel, rsvcs.Get(0))
		if svc.Name() != string(rsvcs.Get(0).Name()) {
			c.Failf("service-name", "FirstServiceOnly: Name()=%q want %q", svc.Name(), rsvcs.Get(0).Name())
		}
	default:
		for i := 0; i < rsvcs.Len(); i++ {
			sel = append(sel, rsvcs.Get(i))
		}
		if !svc.IsCombinedServices() {
			c.Failf("service-name", "CombineServices: IsCombinedServices() is false")
		}
	}
	for _, s := range sel {
		for i := 0; i < s.Methods().Len(); i++ {
			m := s.Methods().Get(i)
			want[string(m.Name())] = m // later services override earlier ones of the same name (map semantics)
		}
	}
	got := svc.Methods()
	if len(got) != len(want) {
		c.Failf("method-set", "methods %v, declared %v", keys(got), keysR(want))
	}
	w := &walker{c: c, seen: map[string]bool{}}
	names := keysR(want)
	for _, name := range names {
		rmeth := want[name]
		m := svc.LookupMethodByName(name)
		if m == nil || got[name] == nil {
			c.Failf("method-set", "method %q missing; have %v", name, keys(got))
		}
		if m.Name() != name || m.IsClientStreaming() != rmeth.IsStreamingClient() || m.IsServerStreaming() != rmeth.IsStreamingServer() {
			c.Failf("method-flags", "method %q: name %q client/server streaming %v/%v, declared %v/%v", name, m.Name(), m.IsClientStreaming(), m.IsServerStreaming(), rmeth.IsStreamingClient(), rmeth.IsStreamingServer())
		}
		c.Step("method %s input", name)
		w.message(name+".in", m.Input(), rmeth.Input())
		c.Step("method %s output", name)
		w.message(name+".out", m.Output(), rmeth.Output())
	}
	if svc.LookupMethodByName("NoSuchMethod") != nil {
		c.Failf("method-set", "LookupMethodByName of an undeclared method returns a descriptor")
	}
	if svc.PackageName() != string(comp.RFile.Package()) {
		c.Failf("package-name", "PackageName()=%q want %q", svc.PackageName(), comp.RFile.Package())
	}
	// non-trivial: a simple message name used by two different types
	simple := map[string]map[string]bool{}
	for k := range w.seen {
		full := k[strings.Index(k, "|")+1:]
		s := full[strings.LastIndex(full, ".")+1:]
		if simple[s] == nil {
			simple[s] = map[string]bool{}
		}
		simple[s][full] = true
	}
	for _, fulls := range simple {
		if len(fulls) >= 2 {
			c.NonTrivial()
			c.Class("repeated-simple-name")
			break
		}
	}
	c.Class(fmt.Sprintf("mode=%d", cs.Mode))
}

func keys(m map[string]*dproto.MethodDescriptor) []string {
	var out []string
	for k := range m {
		out = append(out, k)
	}
	sort.Strings(out)
	return out
}

func keysR(m map[string]protoreflect.MethodDescriptor) []string {
	var out []string
	for k := range m {
		out = append(out, k)
	}
	sort.Strings(out)
	return out
}

// ---------------------------------------------------------------------------
// generator: nested declarations, equal simple names in different scopes / packages / files

func genFields(t *rapid.T, refs []string, n int) []pmodel.Field {
	var fs []pmodel.Field
	usedN := map[int32]bool{}
	usedS := map[string]bool{}
	// the last four names have the 32-bit DJB hash 0 (the open-addressing name map marks an empty slot by hash 0)
	names := []string{"id", "item", "items", "name", "foo_bar", "fooBar2", "x", "val_1", "Data", "m_k", "zz_top_q", "glidphc", "nb7mbzk", "l5b7iqg", "v4j3vks"}
	for i := 0; i < n; i++ {
		var nm, jsonOpt string
		for {
			nm = names[rapid.IntRange(0, len(names)-1).Draw(t, "fname")]
			if djbZero := len(nm) == 7 && nm != "fooBar2"; djbZero {
				// keep it as it is
			} else if rapid.IntRange(0, 3).Draw(t, "suffix") == 0 {
				nm += fmt.Sprintf("_%d", rapid.IntRange(0, 9).Draw(t, "fsuffix"))
			}
			js := jsonNameOf(nm)
			explicit := ""
			if rapid.IntRange(0, 4).Draw(t, "explicitJSON") == 0 {
				explicit = []string{"J", "json_" + nm, strings.ToUpper(nm), nm + "X", "with space", "k.e-y"}[rapid.IntRange(0, 5).Draw(t, "jsonForm")]
			}
			if !usedS[nm] && !usedS[js] && !usedS[explicit] && !usedS[jsonNameOf(explicit)] && !usedS[strings.ToLower(explicit)] {
				usedS[nm], usedS[js] = true, true
				if explicit != "" {
					usedS[explicit], usedS[jsonNameOf(explicit)], usedS[strings.ToLower(explicit)] = true, true, true
					jsonOpt = explicit
				}
				break
			}
		}
		var num int32
		for {
			num = int32(rapid.IntRange(1, 40).Draw(t, "fnum"))
			if rapid.IntRange(0, 5).Draw(t, "bigNum") == 0 {
				num = []int32{15, 16, 127, 128, 2047, 2048, 18999, 20000, 65535, 65536, 65537, 70000, 100000, 131073}[rapid.IntRange(0, 13).Draw(t, "fnumB")]
			}
			if !usedN[num] {
				usedN[num] = true
				break
			}
		}
		f := pmodel.Field{Name: nm, Num: num, JSON: jsonOpt}
		kc := rapid.IntRange(0, 9).Draw(t, "kindClass")
		switch {
		case kc < 4 || len(refs) == 0:
			f.Kind = pmodel.ScalarKinds[rapid.IntRange(0, len(pmodel.ScalarKinds)-1).Draw(t, "scalar")]
		case kc == 4:
			f.Kind, f.Ref = "enum", "Color"
		default:
			f.Kind, f.Ref = "message", refs[rapid.IntRange(0, len(refs)-1).Draw(t, "ref")]
		}
		switch rapid.IntRange(0, 9).Draw(t, "label") {
		case 5, 6, 7:
			f.Label = "repeated"
		case 8, 9:
			f.Label = "map"
			f.KeyKind = pmodel.MapKeyKinds[rapid.IntRange(0, len(pmodel.MapKeyKinds)-1).Draw(t, "keyKind")]
		}
		fs = append(fs, f)
	}
	return fs
}

func jsonNameOf(n string) string {
	var b strings.Builder
	up := false
	for _, r := range n {
		if r == '_' {
			up = true
			continue
		}
		if up && r >= 'a' && r <= 'z' {
			r = r - 'a' + 'A'
		}
		up = false
		b.WriteRune(r)
	}
	return b.String()
}

func genSchema(t *rapid.T) pmodel.Schema {
	color := pmodel.Enum{Name: "Color", Values: []pmodel.EnumVal{{"RED", 0}, {"GREEN", 1}, {"BLUE", 2}}}
	// other.proto: package other.sub with its own Item
	other := pmodel.File{Name: "other.proto", Package: "other.sub", Enums: []pmodel.Enum{color}}
	other.Msgs = []pmodel.Msg{{Name: "Item", Fields: genFields(t, []string{"Item"}, rapid.IntRange(1, 4).Draw(t, "nOtherItem"))},
		{Name: "Extra", Fields: genFields(t, []string{"Item", "Extra"}, rapid.IntRange(0, 3).Draw(t, "nExtra"))}}
	// main.proto: package pkg; A and B each declare a nested Item (and maybe Item.Item); top-level Item as well (sometimes)
	refsInA := []string{"Item", "A", "B", "B.Item", ".pkg.B.Item", "other.sub.Item", ".other.sub.Item", "other.sub.Extra"}
	refsInB := []string{"Item", "A", "B", "A.Item", ".pkg.A.Item", "other.sub.Item"}
	refsTop := []string{"A", "B", "A.Item", "B.Item", "other.sub.Item", "other.sub.Extra"}
	topItem := rapid.Bool().Draw(t, "topLevelItem")
	if topItem {
		refsTop = append(refsTop, "Item", ".pkg.Item")
	}
	a := pmodel.Msg{Name: "A", Enums: []pmodel.Enum{color}}
	a.Nested = []pmodel.Msg{{Name: "Item", Fields: genFields(t, []string{"Item", "A"}, rapid.IntRange(1, 4).Draw(t, "nAItem"))}}
	if rapid.Bool().Draw(t, "deepNest") {
		a.Nested[0].Nested = []pmodel.Msg{{Name: "Item", Fields: genFields(t, nil, rapid.IntRange(1, 3).Draw(t, "nAItemItem"))}}
	}
	a.Fields = genFields(t, refsInA, rapid.IntRange(1, 6).Draw(t, "nA"))
	b := pmodel.Msg{Name: "B", Enums: []pmodel.Enum{color}}
	b.Nested = []pmodel.Msg{{Name: "Item", Fields: genFields(t, []string{"Item", "B"}, rapid.IntRange(1, 4).Draw(t, "nBItem"))}}
	b.Fields = genFields(t, refsInB, rapid.IntRange(1, 6).Draw(t, "nB"))
	req := pmodel.Msg{Name: "Req", Fields: genFields(t, refsTop, rapid.IntRange(1, 6).Draw(t, "nReq"))}
	resp := pmodel.Msg{Name: "Resp", Fields: genFields(t, refsTop, rapid.IntRange(1, 5).Draw(t, "nResp"))}
	main := pmodel.File{Name: "main.proto", Package: "pkg", Imports: []string{"other.proto"}, Enums: []pmodel.Enum{color}, Msgs: []pmodel.Msg{a, b, req, resp}}
	if rapid.IntRange(0, 3).Draw(t, "wide") == 0 {
		// a wide message of look-alike names (same length, two or ten different bytes per position): the name map of such a
		// message is a hash table, not a trie; "ab" and "bA" have the same 32-bit DJB hash, so every name has a twin of equal
		// hash and length
		wide := pmodel.Msg{Name: "Wide"}
		d := rapid.IntRange(50, 60).Draw(t, "wideDigits")
		first := rapid.IntRange(0, 1).Draw(t, "wideFirst")
		num := int32(1)
		for i := 0; i < d; i++ {
			for k := 0; k < 2; k++ {
				wide.Fields = append(wide.Fields, pmodel.Field{Name: fmt.Sprintf("f%s%02d", []string{"ab", "bA"}[(k+first)%2], i), Num: num, Kind: "int32"})
				num++
			}
		}
		main.Msgs = append(main.Msgs, wide)
		main.Msgs[2].Fields = append(main.Msgs[2].Fields, pmodel.Field{Name: "wide_ref", Num: 18990, Kind: "message", Ref: "Wide"})
	}
	if topItem {
		main.Msgs = append(main.Msgs, pmodel.Msg{Name: "Item", Fields: genFields(t, []string{"A", "B"}, rapid.IntRange(1, 3).Draw(t, "nTopItem"))})
	}
	nsvc := rapid.IntRange(1, 3).Draw(t, "nSvc")
	ins := []string{"Req", "A", "B", "A.Item", "other.sub.Item"}
	outs := []string{"Resp", "B", "B.Item", "other.sub.Extra", "A"}
	for s := 0; s < nsvc; s++ {
		sv := pmodel.Svc{Name: fmt.Sprintf("Svc%d", s)}
		nm := rapid.IntRange(1, 3).Draw(t, "nMeth")
		for i := 0; i < nm; i++ {
			name := fmt.Sprintf("M%d", i)
			if rapid.IntRange(0, 3).Draw(t, "uniqueMeth") != 0 {
				name = fmt.Sprintf("S%dM%d", s, i)
			}
			sv.Methods = append(sv.Methods, pmodel.Method{Name: name, In: ins[rapid.IntRange(0, len(ins)-1).Draw(t, "in")], Out: outs[rapid.IntRange(0, len(outs)-1).Draw(t, "out")],
				CS: rapid.IntRange(0, 3).Draw(t, "cs") == 0, SS: rapid.IntRange(0, 3).Draw(t, "ss") == 0})
		}
		main.Svcs = append(main.Svcs, sv)
	}
	return pmodel.Schema{Files: []pmodel.File{main, other}, Main: "main.proto"}
}

var Prop = pbt.Register(pbt.Prop[Case]{
	Name: "TestProtoDescriptors",
	Rule: "generated proto3 files (main package + imported package; nested message declarations; field names whose 32-bit DJB hash is 0, also as the only field of a message; the simple name Item declared in up to five scopes: A.Item, A.Item.Item, B.Item, pkg.Item, other.sub.Item; map fields with equal names in different messages; relative, qualified and fully-qualified type references; recursion; every map key kind; 1..3 services with unary/streaming methods) x ParseServiceMode; the dynamicgo descriptor graph is walked in parallel with protobuf-go's descriptors (built from jhump protoparse output): method set and streaming flags, per reachable message exactly the declared fields (their count, number, name, JSON name, kind, list/map structure, packedness, key kind), message-typed fields must describe the fully-qualified type the schema names; ByNumber over 0..max+2 (field numbers up to 131073), over every declared number shifted by multiples of 2^16 / 2^24 / 2^28 and negated, and ByName/ByJSONName over a key family must find a field iff declared; non-trivial = a simple message name reached under two different full names",
	Gen: func(t *rapid.T) Case {
		return Case{Schema: genSchema(t), Mode: rapid.IntRange(0, 2).Draw(t, "mode"), Reuse: rapid.Bool().Draw(t, "reuse"), Path: rapid.IntRange(0, 3).Draw(t, "fromPath") == 0}
	},
	Check: check,
})

func TestProtoDescriptors(t *testing.T) { pbt.Run(t, Prop) }
