// Package t2jcheck holds the Thrift->JSON check shared by C03 (default build) and C18 (text encoders of every native flavour and of the portable build).
package t2jcheck

import (
	"bytes"
	"context"
	"fmt"
	"runtime"
	"strings"
	"unicode/utf8"

	"github.com/cloudwego/dynamicgo/conv"
	"github.com/cloudwego/dynamicgo/conv/t2j"
	"github.com/cloudwego/dynamicgo/thrift"
	"pgregory.net/rapid"

	"verifharness/jmodel"
	"verifharness/pbt"
	"verifharness/tjson"
	tm "verifharness/tmodel"
)

type Opts struct {
	tjson.Opts
	DisallowUnknown bool `json:"disallow_unknown,omitempty"`
	UseNativeSkip   bool `json:"use_native_skip,omitempty"`
}

type Case struct {
	U          *tm.Universe `json:"u"`
	V          *tm.Value    `json:"v"`
	O          Opts         `json:"o"`
	BufCap     int          `json:"buf_cap"`
	FreshPools bool         `json:"fresh_pools,omitempty"`
}

func countUnknown(v *tm.Value, ty *tm.Type, u *tm.Universe) int {
	n := 0
	switch ty.K {
	case tm.STRUCT:
		sd := u.Struct(ty.Ref)
		for _, f := range v.Fields {
			if fd := sd.Field(f.ID); fd != nil {
				n += countUnknown(f.V, fd.T, u)
			} else {
				n++
			}
		}
	case tm.LIST, tm.SET, tm.MAP:
		for _, e := range v.Elems {
			n += countUnknown(e, ty.Elem, u)
		}
	}
	return n
}

type features struct {
	validUTF8    bool
	maxStr       int
	escapes      bool
	jsconvString bool // a js_conv string field whose text needs escaping
	jsconvAny    bool
	binAsString  bool // NoBase64Binary: binaries print as strings
}

func scan(v *tm.Value, ty *tm.Type, u *tm.Universe, jsconv bool, f *features) {
	switch ty.K {
	case tm.STRING:
		if !ty.Bin || f.binAsString {
			if !utf8.Valid(v.S) {
				f.validUTF8 = false
			}
			if len(v.S) > f.maxStr {
				f.maxStr = len(v.S)
			}
			esc := bytes.ContainsAny(v.S, "\"\\\x00\x01\x1f\n\t\r\b\f")
			if esc {
				f.escapes = true
			}
			if jsconv && esc {
				f.jsconvString = true
			}
		}
	case tm.STRUCT:
		sd := u.Struct(ty.Ref)
		for _, fv := range v.Fields {
			if fd := sd.Field(fv.ID); fd != nil {
				js := tjson.JSConv(fd)
				if js {
					f.jsconvAny = true
				}
				scan(fv.V, fd.T, u, js, f)
			}
		}
	case tm.LIST, tm.SET:
		for _, e := range v.Elems {
			scan(e, ty.Elem, u, jsconv, f)
		}
	case tm.MAP:
		for i, e := range v.Elems {
			scan(v.Keys[i], ty.Key, u, false, f)
			scan(e, ty.Elem, u, false, f)
		}
	}
}

func errClass(err error) string {
	s := err.Error()
	if i := strings.IndexAny(s, ":\n"); i > 0 {
		s = s[:i]
	}
	if len(s) > 50 {
		s = s[:50]
	}
	return s
}

func check(c *pbt.Ctx, cs Case) {
	comp, err := tm.CompileUniverse(cs.U, thrift.Options{})
	if err != nil {
		c.Failf("harness-idl", "IDL rejected: %v\n%s", err, cs.U.Render())
	}
	if cs.FreshPools {
		runtime.GC()
		runtime.GC()
	}
	enc := tm.Encode(cs.V)
	data := append(make([]byte, 0, len(enc)+16), enc...)
	o := conv.Options{Int642String: cs.O.Int642String, ByteAsUint8: cs.O.ByteAsUint8, NoBase64Binary: cs.O.NoBase64Binary,
		EnableValueMapping: cs.O.ValueMapping, DisallowUnknownField: cs.O.DisallowUnknown, UseNativeSkip: cs.O.UseNativeSkip}
	cv := t2j.NewBinaryConv(o)
	ctx := context.Background()
	var ft = features{validUTF8: true, binAsString: cs.O.NoBase64Binary}
	scan(cs.V, cs.U.Root, cs.U, false, &ft)
	finite := tjson.Finite(cs.V)
	unknown := countUnknown(cs.V, cs.U.Root, cs.U)
	switch {
	case !finite:
		c.Region("nonfinite-double")
	case ft.jsconvString && cs.O.ValueMapping:
		c.Region("jsconv-string-needing-escape")
	}
	c.Step("t2j.Do opts=%+v", cs.O)
	var out []byte
	if !c.Protect("", func() { out, err = cv.Do(ctx, comp.Root, data) }) {
		return
	}
	if !bytes.Equal(data, enc) {
		c.Failf("input-modified", "t2j.Do modified its input buffer")
	}
	// the caller's buffer is the caller's again: the returned document must not point into it
	keepOut := append([]byte(nil), out...)
	for i := range data {
		data[i] = 0xEE
	}
	if !bytes.Equal(out, keepOut) {
		c.Failf("result-aliases-input", "the document returned by t2j.Do changed when the caller overwrote its input buffer")
	}
	copy(data, enc)
	if err != nil {
		switch {
		case !finite:
			c.Class("error:nonfinite")
		case unknown > 0 && cs.O.DisallowUnknown:
			c.Class("error:unknown-disallowed")
		default:
			c.Class("error:other:" + errClass(err))
		}
		return
	}
	if unknown > 0 && cs.O.DisallowUnknown {
		c.Failf("unknown-accepted", "message carries %d undeclared fields, DisallowUnknownField is set, conversion succeeded: %s", unknown, out)
	}
	n, perr := jmodel.ParseRaw(out)
	if perr != nil {
		c.Failf("malformed-json", "nil error with malformed JSON (%v): %s", perr, trunc(out))
		return
	}
	if d := tjson.Expect(n, cs.V, cs.U.Root, cs.U, cs.O.Opts, "$"); d != "" {
		if c.Fail("", "wrong-json", "%s\nJSON: %s", d, trunc(out)) {
			return
		}
	}
	if ft.validUTF8 && !utf8.Valid(out) {
		c.Failf("invalid-utf8-output", "every string of the message is valid UTF-8, the JSON text is not: %s", trunc(out))
	}
	// DoInto with a caller buffer of the drawn capacity must produce the same text
	buf := make([]byte, 0, cs.BufCap)
	c.Step("t2j.DoInto cap=%d", cs.BufCap)
	var err2 error
	if !c.Protect("", func() { err2 = cv.DoInto(ctx, comp.Root, data, &buf) }) {
		return
	}
	if err2 != nil || !bytes.Equal(buf, out) {
		c.Failf("dointo-differs", "DoInto(cap=%d) err=%v output differs from Do:\n%s\nvs\n%s", cs.BufCap, err2, trunc(buf), trunc(out))
	}
	// the document returned by Do stays intact while the converter goes on working: convert a message of the same shape
	// whose strings and binaries all hold other bytes, then look at the first result again
	keep := append([]byte(nil), out...)
	other := cs.V.Clone()
	tm.Walk(other, func(_ []tm.Step, n *tm.Value, _ *tm.Value) {
		if n.K == tm.STRING {
			n.S = bytes.Repeat([]byte{'Z'}, len(n.S))
		}
	})
	c.Step("a second t2j.Do on another message; the first document must not change")
	c.Protect("", func() { _, _ = cv.Do(ctx, comp.Root, tm.Encode(other)) })
	if !bytes.Equal(out, keep) {
		c.Failf("result-overwritten", "the document returned by Do (%d bytes) changed during a later conversion:\n%s\nwas\n%s", len(out), trunc(out), trunc(keep))
	}
	if cs.BufCap == 7 || len(enc)%8 == 3 {
		c.Step("the same t2j conversion from 8 goroutines at once")
		c.Class("concurrent-callers")
		if d := pbt.Concurrently(8, 40, keep, false, func() ([]byte, error) {
			return cv.Do(ctx, comp.Root, append(make([]byte, 0, len(enc)+16), enc...))
		}); d != "" {
			c.Failf("concurrent-differs", "t2j called concurrently on one converter differs from the call alone: %s", d)
		}
	}
	if len(out) > 4096 {
		c.Class("document>4096")
	}
	if tm.Count(cs.V) >= 4 {
		c.NonTrivial()
	}
	if ft.maxStr >= 4095 {
		c.Class("string>=4095")
	}
	if ft.escapes {
		c.Class("string-with-escapes")
	}
	if !ft.validUTF8 {
		c.Class("invalid-utf8-string")
	}
	if unknown > 0 {
		c.Class("unknown-dropped")
	}
	if ft.jsconvAny && cs.O.ValueMapping {
		c.Class("jsconv")
	}
}

func trunc(b []byte) string {
	if len(b) > 1500 {
		return fmt.Sprintf("%s ...(%d bytes)... %s", b[:700], len(b), b[len(b)-700:])
	}
	return string(b)
}

// Prop returns the (unregistered) property under the given test name.
func Prop(name string) pbt.Prop[Case] {
	return pbt.Prop[Case]{
		Name: name,
		Rule: "generated IDL (requiredness, api.key aliases, api.js_conv fields, recursion, ids up to 32767) + conforming messages from the reference encoder (all double classes incl. non-finite, integer boundaries, strings with control characters/quotes/U+2028/invalid UTF-8 and lengths around 16/32/4096, empty containers, undeclared fields, shuffled wire order) x options (Int642String, ByteAsUint8, NoBase64Binary, EnableValueMapping, DisallowUnknownField, UseNativeSkip) x DoInto buffer capacity; a nil error requires: output accepted by the harness's RFC 8259 parser and by encoding/json.Valid, members exactly the keys of the declared present fields in wire order, values exact (integers as big.Int, doubles by bit pattern after ParseFloat, strings byte-exact, base64 text exact, decimal map keys); DoInto must produce the same text; non-trivial = successful conversion of a value with >= 4 nodes",
		Gen: func(t *rapid.T) Case {
			cfg := tm.GenCfg{MaxDepth: 3, KeyKinds: tjson.SupportedKeys, Reqs: true, Aliases: true, Recursive: true, WireOrder: true,
				BigSizes: rapid.IntRange(0, 4).Draw(t, "bigSizes") == 0, BigIDs: rapid.IntRange(0, 3).Draw(t, "bigIDs") == 0,
				FiniteDoubles: rapid.IntRange(0, 3).Draw(t, "finiteOnly") != 0}
			u := tm.GenUniverse(t, cfg)
			tjson.AddJSConv(t, u)
			v := tm.GenValue(t, u, u.Root, cfg)
			if rapid.IntRange(0, 2).Draw(t, "withUnknown") == 0 {
				tjson.InjectUnknown(t, v, u.Root, u)
			}
			var o Opts
			o.Int642String = rapid.Bool().Draw(t, "int642string")
			o.ByteAsUint8 = rapid.Bool().Draw(t, "byteAsUint8")
			o.NoBase64Binary = rapid.IntRange(0, 3).Draw(t, "noBase64") == 0
			o.ValueMapping = rapid.Bool().Draw(t, "valueMapping")
			o.DisallowUnknown = rapid.IntRange(0, 3).Draw(t, "disallowUnknown") == 0
			o.UseNativeSkip = rapid.Bool().Draw(t, "nativeSkip")
			return Case{U: u, V: v, O: o, BufCap: []int{0, 1, 7, 16, 64, 4096, 100000}[rapid.IntRange(0, 6).Draw(t, "bufCap")],
				FreshPools: rapid.IntRange(0, 15).Draw(t, "freshPools") == 0}
		},
		Check: check,
	}
}

// ---------------------------------------------------------------------------
// capacity sweep: the result of Thrift -> JSON must not depend on the capacity of the caller's buffer

func checkSweep(c *pbt.Ctx, cs Case) {
	comp, err := tm.CompileUniverse(cs.U, thrift.Options{})
	if err != nil {
		c.Failf("harness-idl", "IDL rejected: %v\n%s", err, cs.U.Render())
	}
	enc := tm.Encode(cs.V)
	data := append(make([]byte, 0, len(enc)), enc...)
	o := conv.Options{Int642String: cs.O.Int642String, ByteAsUint8: cs.O.ByteAsUint8, NoBase64Binary: cs.O.NoBase64Binary,
		EnableValueMapping: cs.O.ValueMapping, DisallowUnknownField: cs.O.DisallowUnknown, UseNativeSkip: cs.O.UseNativeSkip}
	cv := t2j.NewBinaryConv(o)
	ctx := context.Background()
	big := make([]byte, 0, 1<<20)
	var err0 error
	if !c.Protect("", func() { err0 = cv.DoInto(ctx, comp.Root, data, &big) }) {
		return
	}
	hi := len(big) + 40
	if hi > 2600 {
		hi = 2600
	}
	c.Step("t2j.DoInto with every capacity 0..%d (large-buffer result: %d bytes, err=%v)", hi, len(big), err0)
	for capn := 0; capn <= hi; capn++ {
		buf := make([]byte, 0, capn)
		var e error
		if !c.Protect("", func() { e = cv.DoInto(ctx, comp.Root, data, &buf) }) {
			return
		}
		if (e == nil) != (err0 == nil) || (e == nil && !bytes.Equal(buf, big)) {
			if c.Fail("", "capacity-dependent", "t2j.DoInto with capacity %d: err=%v, %d bytes; with a large buffer: err=%v, %d bytes\n%s\nvs\n%s", capn, e, len(buf), err0, len(big), trunc(buf), trunc(big)) {
				return
			}
		}
	}
	if !bytes.Equal(data, enc) {
		c.Failf("input-modified", "t2j.DoInto modified its input buffer")
	}
	c.NonTrivial()
	if err0 != nil {
		c.Class("rejected")
	}
	var ft features
	scan(cs.V, cs.U.Root, cs.U, false, &ft)
	if ft.escapes {
		c.Class("string-with-escapes")
	}
}

// SweepProp: the messages of Prop, converted into caller buffers of every capacity.
func SweepProp(name string) pbt.Prop[Case] {
	p := Prop(name)
	p.Rule = "the IDLs, messages and option sets of TestThriftToJSON (all double classes, integers at their boundaries, strings whose JSON text is up to six times their length, api.js_conv fields, undeclared fields); t2j.DoInto into caller buffers of every capacity from 0 to the output size + 40 (at most 2600): error-ness and text must equal the conversion into a 1 MiB buffer, no panic; every case is non-trivial"
	p.Check = checkSweep
	return p
}
