package c16

import (
	"testing"

	"verifharness/httpcheck"
	"verifharness/pbt"
	"verifharness/reqcheck"
)

func TestMain(m *testing.M)   { pbt.Main(m, "C16") }
func TestReplay(t *testing.T) { pbt.Replay(t) }

var Prop = pbt.Register(reqcheck.Prop("TestRequirednessTable"))

func TestRequirednessTable(t *testing.T) { pbt.Run(t, Prop) }

// Fields that are present and delivered to an http target (header, cookie, ...) are still present: the
// requiredness handling of t2j must not miss them (required ones one level below the response included).
var RespProp = pbt.Register(httpcheck.RespProp("TestMappedResponseFields"))

func TestMappedResponseFields(t *testing.T) { pbt.Run(t, RespProp) }

// The result of j2t does not depend on the capacity of the caller's buffer.
var SweepProp = pbt.Register(reqcheck.SweepProp("TestCapacitySweep"))

func TestCapacitySweep(t *testing.T) { pbt.Run(t, SweepProp) }

// requiredness and the Write*Field options on fields that have an http source (the request-mapping decision table)
var ReqProp = pbt.Register(httpcheck.ReqProp("TestMappedRequestFields"))

func TestMappedRequestFields(t *testing.T) { pbt.Run(t, ReqProp) }
