package c16

import (
	"testing"

	"verifharness/pbt"
	"verifharness/reqcheck"
)

func TestMain(m *testing.M)   { pbt.Main(m, "C16") }
func TestReplay(t *testing.T) { pbt.Replay(t) }

var Prop = pbt.Register(reqcheck.Prop("TestRequirednessTable"))

func TestRequirednessTable(t *testing.T) { pbt.Run(t, Prop) }
