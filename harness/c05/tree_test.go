package c05

import (
	"bytes"
	"fmt"
	"testing"

	"github.com/cloudwego/dynamicgo/thrift"
	"github.com/cloudwego/dynamicgo/thrift/generic"
	"pgregory.net/rapid"

	"verifharness/pbt"
	tm "verifharness/tmodel"
)

// ---------------------------------------------------------------------------
// DOM edits anywhere in a loaded tree (any container kind, any depth, recursive or lazy loads,
// reused trees). The model is the value itself plus a set of cleared children.

type TreeEdit struct {
	Path   []jStep   `json:"path"` // from the root; the last step addresses the edited child
	Kind   string    `json:"kind"` // set | clear | reset
	New    *tm.Value `json:"new,omitempty"`
	Direct bool      `json:"direct"`  // assign the child PathNode itself instead of calling SetField/SetByStr/SetByInt
	NavAPI bool      `json:"nav_api"` // walk down with Field/GetByStr/GetByInt where they exist
}

type TreeCase struct {
	U           *tm.Universe `json:"u"`
	V           *tm.Value    `json:"v"`
	Prev        *tm.Value    `json:"prev,omitempty"` // loaded into the same tree before V
	PrevRecurse bool         `json:"prev_recurse"`
	O           Opts         `json:"o"`
	Edits       []TreeEdit   `json:"edits"`
}

type goneSet map[*tm.Value]bool

// childOf returns the child of v addressed by s (nil if absent) and its position.
func childOf(v *tm.Value, s jStep) (*tm.Value, int) {
	switch {
	case s.Kind == "f" && v.K == tm.STRUCT:
		for i := range v.Fields {
			if v.Fields[i].ID == s.ID {
				return v.Fields[i].V, i
			}
		}
	case s.Kind == "i" && (v.K == tm.LIST || v.K == tm.SET):
		if s.Index >= 0 && s.Index < len(v.Elems) {
			return v.Elems[s.Index], s.Index
		}
	case s.Kind == "k" && v.K == tm.MAP:
		kb := tm.EncodeValue(s.Key)
		for i, k := range v.Keys {
			if bytes.Equal(tm.EncodeValue(k), kb) {
				return v.Elems[i], i
			}
		}
	}
	return nil, -1
}

// putChild stores nv as the child of v addressed by s (replacing or appending).
func putChild(v *tm.Value, s jStep, nv *tm.Value) {
	_, i := childOf(v, s)
	switch v.K {
	case tm.STRUCT:
		if i >= 0 {
			v.Fields[i].V = nv
		} else {
			v.Fields = append(v.Fields, tm.FieldVal{ID: s.ID, V: nv})
		}
	case tm.LIST, tm.SET:
		v.Elems[i] = nv
	case tm.MAP:
		if i >= 0 {
			v.Elems[i] = nv
		} else {
			v.Keys = append(v.Keys, s.Key)
			v.Elems = append(v.Elems, nv)
		}
	}
}

// applyTreeEdit performs the edit on the model; ok=false if the path does not resolve.
func applyTreeEdit(root *tm.Value, gone goneSet, ed TreeEdit) (parent, old *tm.Value, ok bool) {
	cur := root
	for _, s := range ed.Path[:len(ed.Path)-1] {
		n, _ := childOf(cur, s)
		if n == nil || gone[n] {
			return nil, nil, false
		}
		cur = n
	}
	last := ed.Path[len(ed.Path)-1]
	old, _ = childOf(cur, last)
	switch ed.Kind {
	case "set":
		if old != nil {
			delete(gone, old)
		}
		putChild(cur, last, ed.New.Clone())
	default:
		if old == nil {
			// clearing something that was never there stores an empty child: nothing to marshal
			e := &tm.Value{K: tm.I32}
			putChild(cur, last, e)
			gone[e] = true
		} else {
			gone[old] = true
		}
	}
	return cur, old, true
}

// live rebuilds the value without the cleared children.
func live(v *tm.Value, gone goneSet) *tm.Value {
	out := &tm.Value{K: v.K, KT: v.KT, ET: v.ET, B: v.B, I: v.I, F: v.F, S: v.S}
	switch v.K {
	case tm.STRUCT:
		for _, f := range v.Fields {
			if !gone[f.V] {
				out.Fields = append(out.Fields, tm.FieldVal{ID: f.ID, V: live(f.V, gone)})
			}
		}
	case tm.LIST, tm.SET:
		for _, e := range v.Elems {
			if !gone[e] {
				out.Elems = append(out.Elems, live(e, gone))
			}
		}
	case tm.MAP:
		for i, e := range v.Elems {
			if !gone[e] {
				out.Keys = append(out.Keys, v.Keys[i])
				out.Elems = append(out.Elems, live(e, gone))
			}
		}
	}
	return out
}

type liveNode struct {
	path []jStep
	v    *tm.Value
}

func collectLive(v *tm.Value, gone goneSet, path []jStep, withGone bool, out *[]liveNode) {
	add := func(s jStep, c *tm.Value) {
		p := append(append([]jStep{}, path...), s)
		if gone[c] {
			if withGone {
				*out = append(*out, liveNode{p, c})
			}
			return
		}
		*out = append(*out, liveNode{p, c})
		collectLive(c, gone, p, withGone, out)
	}
	switch v.K {
	case tm.STRUCT:
		for _, f := range v.Fields {
			add(jStep{Kind: "f", ID: f.ID}, f.V)
		}
	case tm.LIST, tm.SET:
		for i, e := range v.Elems {
			add(jStep{Kind: "i", Index: i}, e)
		}
	case tm.MAP:
		for i, e := range v.Elems {
			add(jStep{Kind: "k", Key: v.Keys[i]}, e)
		}
	}
}

func hasSetAPI(parent *tm.Value) bool {
	return parent.K == tm.STRUCT || (parent.K == tm.MAP && (parent.KT == tm.STRING || parent.KT.IsInt()))
}

func stepsOf(p []jStep) []tm.Step {
	var out []tm.Step
	for _, s := range p {
		out = append(out, s.step())
	}
	return out
}

func pathString(p []jStep) string {
	s := ""
	for _, st := range p {
		switch st.Kind {
		case "f":
			s += fmt.Sprintf("/f%d", st.ID)
		case "i":
			s += fmt.Sprintf("/i%d", st.Index)
		default:
			s += fmt.Sprintf("/k%x", tm.EncodeValue(st.Key))
		}
	}
	return s
}

func checkTree(c *pbt.Ctx, cs TreeCase) {
	o := cs.O.g()
	var tree generic.PathNode
	load := func(v *tm.Value, recurse bool) {
		enc := tm.Encode(v)
		buf := append(make([]byte, 0, len(enc)+16), enc...)
		tree.Node = generic.NewNode(thrift.Type(v.K), buf)
		c.Step("Load recurse=%v", recurse)
		if err := tree.Load(recurse, o); err != nil {
			c.Failf("load-error", "Load of a well-formed value failed: %v", err)
		}
	}
	if cs.Prev != nil {
		load(cs.Prev, cs.PrevRecurse)
		c.Class(fmt.Sprintf("reuse:prev-recurse=%v,recurse=%v", cs.PrevRecurse, cs.O.Recurse))
	}
	load(cs.V, cs.O.Recurse)

	// copies taken before the edits are independent of the tree (CopyTo into a fresh node, Fork)
	var cp generic.PathNode
	tree.CopyTo(&cp)
	fk := tree.Fork()
	model := cs.V.Clone()
	gone := goneSet{}
	sets, clears, deep, onLoaded := 0, 0, 0, 0
	for i, ed := range cs.Edits {
		tag := fmt.Sprintf("edit %d %s %s", i, ed.Kind, pathString(ed.Path))
		c.Step("%s direct=%v navapi=%v", tag, ed.Direct, ed.NavAPI)
		// walk down to the parent, expanding lazily loaded children on the way
		cur := &tree
		mcur := model
		for _, s := range ed.Path[:len(ed.Path)-1] {
			var nx *generic.PathNode
			c.Protect("", func() { nx = findChild(cur, s.step(), o, ed.NavAPI) })
			mn, _ := childOf(mcur, s)
			if nx == nil || nx.IsError() || nx.IsEmpty() || mn == nil {
				c.Failf("child-lost", "%s: step %s does not reach a child (tree %v, model %v)", tag, pathString([]jStep{s}), nx != nil, mn != nil)
			}
			if len(nx.Next) == 0 {
				if err := nx.Load(false, o); err != nil {
					c.Failf("load-error", "%s: lazy Load of an inner child failed: %v", tag, err)
				}
			}
			cur, mcur = nx, mn
		}
		if len(ed.Path) > 1 {
			deep++
		}
		last := ed.Path[len(ed.Path)-1]
		mparent, old, ok := applyTreeEdit(model, gone, ed)
		if !ok {
			c.Failf("harness", "%s: path does not resolve in the model", tag)
		}
		var node generic.Node
		var newEnc []byte
		if ed.Kind == "set" {
			newEnc = tm.EncodeValue(ed.New)
			node = generic.NewNode(thrift.Type(ed.New.K), append(make([]byte, 0, len(newEnc)+16), newEnc...))
			sets++
		} else {
			clears++
		}
		if ed.Direct {
			var pn *generic.PathNode
			c.Protect("", func() { pn = findChild(cur, last.step(), o, false) })
			if pn == nil {
				c.Failf("child-lost", "%s: the parent's Next holds no child with this path", tag)
			}
			if len(pn.Next) > 0 {
				onLoaded++
			}
			switch ed.Kind {
			case "set":
				*pn = generic.PathNode{Path: pn.Path, Node: node}
			case "clear":
				pn.Node = generic.Node{}
			default:
				pn.ResetValue()
			}
		} else {
			if pn := findChild(cur, last.step(), o, false); pn != nil && len(pn.Next) > 0 {
				onLoaded++
			}
			var existed bool
			var err error
			c.Protect("", func() {
				switch {
				case last.Kind == "f":
					existed, err = cur.SetField(thrift.FieldID(last.ID), node, o)
				case last.Key.K == tm.STRING:
					existed, err = cur.SetByStr(string(last.Key.S), node, o)
				default:
					ki := int(last.Key.I)
					if last.Key.K == tm.BYTE {
						ki = int(uint8(last.Key.I))
					}
					existed, err = cur.SetByInt(ki, node, o)
				}
			})
			if err != nil {
				c.Failf("set-error", "%s: %v", tag, err)
			}
			if existed != (old != nil) {
				c.Failf("exist-flag", "%s: existed=%v, model says %v", tag, existed, old != nil)
			}
		}
		// the lookup returns what was stored last
		if hasSetAPI(mparent) {
			var r *generic.PathNode
			c.Protect("", func() { r = findChild(cur, last.step(), o, true) })
			if ed.Kind == "set" {
				if r == nil || r.IsError() || !bytes.Equal(r.Node.Raw(), newEnc) {
					c.Failf("lookup-stale", "%s: lookup does not return the child just stored", tag)
				}
			} else if r != nil && !r.IsEmpty() {
				c.Failf("cleared-found", "%s: lookup of the cleared child returns a non-empty node", tag)
			}
		}
	}

	out, err := tree.Marshal(o)
	if err != nil {
		c.Failf("marshal-error", "Marshal after edits: %v", err)
	}
	expected := live(model, gone)
	got, derr := tm.DecodeStrict(cs.V.K, out)
	if derr != nil {
		c.Failf("marshal-malformed", "Marshal after edits is not well-formed: %v\n out  %x\n want %s", derr, out, expected.Short())
	}
	if d := tm.Diff(tm.Canon(got), tm.Canon(expected)); d != "" {
		c.Failf("marshal-different-value", "Marshal after edits: %s\n got  %s\n want %s", d, got.Short(), expected.Short())
	}
	for _, x := range []struct {
		n string
		t *generic.PathNode
	}{{"CopyTo", &cp}, {"Fork", &fk}} {
		c.Step("Marshal of the %s copy taken before the edits", x.n)
		cout, cerr := x.t.Marshal(o)
		if cerr != nil {
			c.Failf("copy-marshal-error", "Marshal of the %s copy: %v", x.n, cerr)
		}
		cgot, cderr := tm.DecodeStrict(cs.V.K, cout)
		if cderr != nil {
			c.Failf("copy-changed", "the %s copy taken before the edits no longer marshals to a well-formed value: %v", x.n, cderr)
		}
		if d := tm.Diff(tm.Canon(cgot), tm.Canon(cs.V)); d != "" {
			c.Failf("copy-changed", "the %s copy taken before the edits changed with the tree: %s", x.n, d)
		}
	}
	// the bytes returned by Marshal stay what they are while another tree is marshalled
	keep := append([]byte(nil), out...)
	otherV := cs.V.Clone()
	tm.Walk(otherV, func(_ []tm.Step, n *tm.Value, _ *tm.Value) {
		if n.K == tm.STRING {
			n.S = bytes.Repeat([]byte{'Z'}, len(n.S))
		}
		if n.K == tm.I32 || n.K == tm.I64 {
			n.I ^= 0x55
		}
	})
	c.Step("Marshal of another tree; the first result must not change")
	c.Protect("", func() {
		oenc := tm.Encode(otherV)
		ot := generic.PathNode{Node: generic.NewNode(thrift.Type(otherV.K), append(make([]byte, 0, len(oenc)+16), oenc...))}
		if err := ot.Load(true, o); err == nil {
			_, _ = ot.Marshal(o)
		}
	})
	if !bytes.Equal(out, keep) {
		c.Failf("result-overwritten", "the bytes returned by Marshal (%d) changed while another tree was marshalled", len(out))
	}
	if sets >= 1 && clears >= 1 && deep >= 1 {
		c.NonTrivial()
	}
	c.Class(fmt.Sprintf("load:recurse=%v", cs.O.Recurse))
	if onLoaded > 0 {
		c.Class("edit-on-child-with-loaded-children")
	}
	if deep > 0 {
		c.Class("edit-below-depth-1")
	}
}

var treeCfg = tm.GenCfg{MaxDepth: 3, BigSizes: true, BigIDs: true, WireOrder: true, Recursive: true, MaxWidth: 3,
	KeyKinds: []tm.Kind{tm.STRING, tm.BYTE, tm.I16, tm.I32, tm.I64, tm.DOUBLE, tm.BOOL, tm.STRUCT}}

var TreeProp = pbt.Register(pbt.Prop[TreeCase]{
	Name: "TestDomTree",
	Rule: "generated value of any shape (every container and key kind) loaded recursively or lazily (optionally into a tree that held another value loaded in the other mode) under StoreChildrenById/StoreChildrenByHash/NotScanParentNode, then 1..10 edits at any depth: a child replaced through SetField/SetByStr/SetByInt or by assigning the child PathNode (list/set elements and bool/double/struct-keyed entries have no setter), cleared (empty Node) or reset (ResetValue), new fields/keys added, inner children expanded lazily on the way down; after every edit the lookup returns the child just stored; copies taken before the edits (CopyTo, Fork) must still marshal to the original value; the final Marshal must decode to the model value without the cleared children and its bytes must stay intact while another tree is marshalled; non-trivial = a set, a clear and an edit below depth 1",
	Gen: func(t *rapid.T) TreeCase {
		u := tm.GenUniverse(t, treeCfg)
		if !isComplex(u.Root.K) {
			u.Root = &tm.Type{K: tm.STRUCT, Ref: "S0"}
		}
		cs := TreeCase{U: u, V: tm.GenValue(t, u, u.Root, treeCfg)}
		tm.SanitizeDoubleKeys(cs.V)
		cs.O = Opts{Recurse: rapid.Bool().Draw(t, "recurse"), ById: rapid.Bool().Draw(t, "byId"), ByHash: rapid.Bool().Draw(t, "byHash"),
			NotScanParent: rapid.IntRange(0, 3).Draw(t, "notScan") == 0, NativeSkip: rapid.Bool().Draw(t, "nativeSkip")}
		if rapid.IntRange(0, 2).Draw(t, "reuse") == 0 {
			cs.Prev = tm.GenValue(t, u, u.Root, treeCfg)
			tm.SanitizeDoubleKeys(cs.Prev)
			cs.PrevRecurse = rapid.IntRange(0, 3).Draw(t, "prevSameMode") == 0 == cs.O.Recurse
		}
		valCfg := tm.GenCfg{MaxDepth: 2, MaxWidth: 3, WireOrder: true, KeyKinds: treeCfg.KeyKinds}
		model := cs.V.Clone()
		gone := goneSet{}
		ne := rapid.IntRange(1, 10).Draw(t, "nEdits")
		for len(cs.Edits) < ne {
			var nodes []liveNode
			collectLive(model, gone, nil, true, &nodes)
			ed := TreeEdit{NavAPI: rapid.Bool().Draw(t, "navAPI")}
			fresh := rapid.IntRange(0, 4).Draw(t, "fresh") == 0 || len(nodes) == 0
			if fresh {
				// a new field / key in a live container that has a setter
				conts := []liveNode{{nil, model}}
				for _, n := range nodes {
					if !gone[n.v] {
						conts = append(conts, n)
					}
				}
				var cands []liveNode
				for _, n := range conts {
					if hasSetAPI(n.v) {
						cands = append(cands, n)
					}
				}
				if len(cands) == 0 {
					if len(nodes) == 0 {
						break
					}
					fresh = false
				} else {
					p := cands[rapid.IntRange(0, len(cands)-1).Draw(t, "cont")]
					var st jStep
					var ty *tm.Type
					pty := tm.TypeAt(u, u.Root, stepsOf(p.path))
					if p.v.K == tm.STRUCT {
						// a declared but absent field, else an undeclared id
						var sd *tm.StructDef
						if pty != nil {
							sd = u.Struct(pty.Ref)
						}
						if sd != nil {
							for _, f := range sd.Fields {
								if c, _ := childOf(p.v, jStep{Kind: "f", ID: f.ID}); c == nil {
									st, ty = jStep{Kind: "f", ID: f.ID}, f.T
									break
								}
							}
						}
						if ty == nil {
							id := int16(rapid.IntRange(1, 300).Draw(t, "newID"))
							if c, _ := childOf(p.v, jStep{Kind: "f", ID: id}); c != nil {
								continue
							}
							st, ty = jStep{Kind: "f", ID: id}, &tm.Type{K: tm.I32}
						}
					} else {
						if pty == nil || pty.Key == nil || pty.Elem == nil {
							continue
						}
						k := tm.GenValue(t, u, pty.Key, valCfg)
						if c, _ := childOf(p.v, jStep{Kind: "k", Key: k}); c != nil {
							continue
						}
						st, ty = jStep{Kind: "k", Key: k}, pty.Elem
					}
					ed.Path = append(append([]jStep{}, p.path...), st)
					ed.Kind = "set"
					ed.New = tm.GenValue(t, u, ty, valCfg)
					tm.SanitizeDoubleKeys(ed.New)
				}
			}
			if !fresh {
				n := nodes[rapid.IntRange(0, len(nodes)-1).Draw(t, "node")]
				if rapid.IntRange(0, 2).Draw(t, "preferDeep") == 0 {
					// prefer a complex child (it has loaded children after a recursive load)
					for k := 0; k < len(nodes); k++ {
						m := nodes[(k+len(cs.Edits)*7)%len(nodes)]
						if isComplex(m.v.K) && m.v.Len() > 0 && !gone[m.v] {
							n = m
							break
						}
					}
				}
				ed.Path = n.path
				parent := model
				for _, s := range n.path[:len(n.path)-1] {
					parent, _ = childOf(parent, s)
				}
				ed.Direct = !hasSetAPI(parent) || rapid.IntRange(0, 2).Draw(t, "direct") == 0
				switch k := rapid.IntRange(0, 5).Draw(t, "kind"); {
				case k <= 2:
					ed.Kind = "set"
					ty := tm.TypeAt(u, u.Root, stepsOf(n.path))
					if ty == nil || ty.K != n.v.K {
						ty = &tm.Type{K: n.v.K, Key: &tm.Type{K: n.v.KT}, Elem: &tm.Type{K: n.v.ET}}
						if isComplex(n.v.K) {
							// undeclared complex child: store a copy of itself
							ed.New = n.v.Clone()
						}
					}
					if ed.New == nil {
						ed.New = tm.GenValue(t, u, ty, valCfg)
						tm.SanitizeDoubleKeys(ed.New)
					}
				case k <= 4 || !ed.Direct:
					ed.Kind = "clear"
				default:
					ed.Kind = "reset"
				}
			}
			if _, _, ok := applyTreeEdit(model, gone, ed); !ok {
				continue
			}
			cs.Edits = append(cs.Edits, ed)
		}
		if len(cs.Edits) == 0 {
			// an empty root without a setter: nothing to edit, keep the load/marshal part
			cs.Edits = nil
		}
		return cs
	},
	Check: checkTree,
})

func TestDomTree(t *testing.T) { pbt.Run(t, TreeProp) }
