package c05

import (
	"bytes"
	"fmt"
	"testing"
	"unsafe"

	"github.com/cloudwego/dynamicgo/thrift"
	"github.com/cloudwego/dynamicgo/thrift/generic"
	"pgregory.net/rapid"

	"verifharness/pbt"
	tm "verifharness/tmodel"
)

func TestMain(m *testing.M)   { pbt.Main(m, "C05") }
func TestReplay(t *testing.T) { pbt.Replay(t) }

type Opts struct {
	Recurse       bool `json:"recurse"`
	ById          bool `json:"by_id"`
	ByHash        bool `json:"by_hash"`
	NotScanParent bool `json:"not_scan_parent"`
	NativeSkip    bool `json:"native_skip"`
}

func (o Opts) g() *generic.Options {
	return &generic.Options{StoreChildrenById: o.ById, StoreChildrenByHash: o.ByHash, NotScanParentNode: o.NotScanParent, UseNativeSkip: o.NativeSkip}
}

func (o Opts) isDefault() bool { return !o.ById && !o.ByHash && !o.NotScanParent }

type LoadCase struct {
	U          *tm.Universe `json:"u"`
	V          *tm.Value    `json:"v"`
	Prev       []*tm.Value  `json:"prev"`  // values loaded into the same tree before (tree reuse)
	Reset      int          `json:"reset"` // between loads: 0 nothing, 1 ResetValue, 2 ResetAll
	O          Opts         `json:"o"`
	IntoBuffer bool         `json:"into_buffer"`
	Pick       uint64       `json:"pick"`
}

type lcg uint64

func (l *lcg) n(k int) int {
	*l = *l*6364136223846793005 + 1442695040888963407
	if k <= 0 {
		return 0
	}
	return int((uint64(*l) >> 33) % uint64(k))
}

func hasNode(v *tm.Value, pred func(*tm.Value) bool) bool {
	found := false
	tm.Walk(v, func(_ []tm.Step, n *tm.Value, _ *tm.Value) {
		if pred(n) {
			found = true
		}
	})
	return found
}

func isComplex(k tm.Kind) bool { return k == tm.STRUCT || k.IsContainer() }

// findChild navigates one model step in a loaded tree using the public lookup API where one
// exists (Field / GetByStr / GetByInt) and the stored path otherwise.
func findChild(pn *generic.PathNode, s tm.Step, o *generic.Options, useAPI bool) *generic.PathNode {
	switch s.Kind {
	case 'f':
		if useAPI {
			return pn.Field(thrift.FieldID(s.ID), o)
		}
		for i := range pn.Next {
			if pn.Next[i].Path.Type() == generic.PathFieldId && pn.Next[i].Path.Id() == thrift.FieldID(s.ID) {
				return &pn.Next[i]
			}
		}
	case 'i':
		for i := range pn.Next {
			if pn.Next[i].Path.Type() == generic.PathIndex && pn.Next[i].Path.Int() == s.Index {
				return &pn.Next[i]
			}
		}
	case 'k':
		k := s.Key
		switch {
		case k.K == tm.STRING:
			if useAPI {
				return pn.GetByStr(string(k.S), o)
			}
			for i := range pn.Next {
				if pn.Next[i].Path.Type() == generic.PathStrKey && pn.Next[i].Path.Str() == string(k.S) {
					return &pn.Next[i]
				}
			}
		case k.K.IsInt():
			ki := int(k.I)
			if k.K == tm.BYTE {
				ki = int(uint8(k.I))
			}
			if useAPI {
				return pn.GetByInt(ki, o)
			}
			for i := range pn.Next {
				if pn.Next[i].Path.Type() == generic.PathIntKey && pn.Next[i].Path.Int() == ki {
					return &pn.Next[i]
				}
			}
		default:
			kb := tm.EncodeValue(k)
			for i := range pn.Next {
				if pn.Next[i].Path.Type() == generic.PathBinKey && bytes.Equal(pn.Next[i].Path.Bin(), kb) {
					return &pn.Next[i]
				}
			}
		}
	}
	return nil
}

func checkLoad(c *pbt.Ctx, cs LoadCase) {
	o := cs.O.g()
	var tree generic.PathNode
	load := func(v *tm.Value) []byte {
		enc := tm.Encode(v)
		buf := append(make([]byte, 0, len(enc)+16), enc...)
		tree.Node = generic.NewNode(thrift.Type(v.K), buf)
		c.Step("Load recurse=%v %+v", cs.O.Recurse, cs.O)
		if err := tree.Load(cs.O.Recurse, o); err != nil {
			c.Failf("load-error", "Load of a well-formed value failed: %v (%s)", err, v.Short())
		}
		return buf
	}
	for _, pv := range cs.Prev {
		load(pv)
		switch cs.Reset {
		case 1:
			tree.ResetValue()
		case 2:
			tree.ResetAll()
		}
	}
	if len(cs.Prev) > 0 {
		c.Class(fmt.Sprintf("reuse:reset=%d", cs.Reset))
		if tm.Count(cs.Prev[len(cs.Prev)-1]) > tm.Count(cs.V) {
			c.Class("reuse:bigger-then-smaller")
		}
	}
	v := cs.V
	buf := load(v)
	base := uintptr(unsafe.Pointer(&buf[0]))
	c.Class(fmt.Sprintf("opts:recurse=%v,byid=%v,byhash=%v,notscan=%v", cs.O.Recurse, cs.O.ById, cs.O.ByHash, cs.O.NotScanParent))
	bigMap := hasNode(v, func(n *tm.Value) bool { return n.K == tm.MAP && len(n.Elems) > 16 })
	bigID := hasNode(v, func(n *tm.Value) bool {
		for _, f := range n.Fields {
			if f.ID >= 256 {
				return true
			}
		}
		return false
	})
	if bigMap {
		c.Class("map>16")
	}
	if bigID {
		c.Class("id>=256")
	}
	if bigMap || bigID || (len(cs.Prev) > 0 && tm.Count(cs.Prev[len(cs.Prev)-1]) > tm.Count(v)) {
		c.NonTrivial()
	}

	// known-risk region attribution (predicates over the generated case)
	region := ""
	if cs.O.NotScanParent && cs.O.Recurse {
		region = "notscan-parent"
	}

	// ---- marshal
	var out []byte
	var err error
	c.Step("Marshal")
	if cs.IntoBuffer {
		b := make([]byte, 0, 8)
		b = append(b, 0xAA, 0xBB)
		err = tree.MarshalIntoBuffer(&b, o)
		if err == nil && (len(b) < 2 || b[0] != 0xAA || b[1] != 0xBB) {
			c.Failf("marshal-buffer-prefix", "MarshalIntoBuffer clobbered the bytes already in the buffer")
		}
		if len(b) >= 2 {
			out = b[2:]
		}
	} else {
		out, err = tree.Marshal(o)
	}
	if err != nil {
		if c.Fail(region, "marshal-error", "Marshal after Load failed: %v", err) {
			return
		}
	}
	got, derr := tm.DecodeStrict(v.K, out)
	if derr != nil {
		if c.Fail(region, "marshal-malformed", "Marshal(Load(x)) is not well-formed: %v\n in  %x\n out %x", derr, buf, out) {
			return
		}
	}
	if d := tm.Diff(tm.Canon(got), tm.Canon(v)); d != "" {
		if c.Fail(region, "marshal-different-value", "Marshal(Load(x)) decodes to a different value: %s\n in  %x\n out %x", d, buf, out) {
			return
		}
	}
	if cs.O.isDefault() && !bytes.Equal(out, buf) {
		c.Failf("marshal-not-identical", "default options: Marshal(Load(x)) differs from x\n in  %x\n out %x", buf, out)
	}

	// ---- lookups along model paths
	rnd := lcg(cs.Pick | 1)
	var nodes [][]tm.Step
	var vals []*tm.Value
	tm.Walk(v, func(p []tm.Step, n *tm.Value, _ *tm.Value) {
		if len(p) > 0 && (cs.O.Recurse || len(p) == 1) {
			nodes = append(nodes, append([]tm.Step{}, p...))
			vals = append(vals, n)
		}
	})
	for k := 0; k < 40 && len(nodes) > 0; k++ {
		i := rnd.n(len(nodes))
		if k == 0 {
			i = len(nodes) - 1
		}
		path, want := nodes[i], vals[i]
		useAPI := rnd.n(4) != 0
		cur := &tree
		ok := true
		for _, s := range path {
			c.Step("lookup %v (api=%v)", path, useAPI)
			nx := findChild(cur, s, o, useAPI)
			if nx == nil {
				c.Failf("lookup-missed", "tree lookup along %v lost the child at step %+v (api=%v, opts %+v)", path, s, useAPI, cs.O)
				ok = false
				break
			}
			if nx.IsError() {
				c.Failf("lookup-error", "tree lookup along %v: %v", path, nx.Error())
			}
			cur = nx
		}
		if !ok {
			continue
		}
		if cur.Node.Type() != thrift.Type(want.K) {
			c.Failf("lookup-wrong-type", "tree node at %v has type %v want %v", path, cur.Node.Type(), want.K)
		}
		if cs.O.NotScanParent && cs.O.Recurse && isComplex(want.K) {
			continue // documented: parent nodes of complex type are not assigned data
		}
		raw := cur.Node.Raw()
		if len(raw) == 0 || int(uintptr(unsafe.Pointer(&raw[0]))-base) != want.Start || len(raw) != want.End-want.Start {
			c.Failf("lookup-wrong-span", "tree node at %v: span differs from the model [%d,%d) (len %d)", path, want.Start, want.End, len(raw))
		}
	}
	// absent keys must not be found
	tm.Walk(v, func(p []tm.Step, n *tm.Value, _ *tm.Value) {
		if len(p) != 0 && !cs.O.Recurse {
			return
		}
		if rnd.n(3) != 0 {
			return
		}
		cur := &tree
		for _, s := range p {
			cur = findChild(cur, s, o, false)
			if cur == nil {
				return
			}
		}
		switch n.K {
		case tm.STRUCT:
			for _, id := range []int16{1, 2, 255, 256, 257, 300, 32767, int16(rnd.n(400) + 1)} {
				if n.Field(id) == nil {
					c.Step("absent Field(%d) at %v", id, p)
					reg := ""
					if cs.O.ById {
						reg = "byid-absent-field-lookup"
					}
					c.Protect(reg, func() {
						if r := cur.Field(thrift.FieldID(id), o); r != nil && !r.IsEmpty() && !r.IsError() {
							c.Fail(reg, "absent-found", "Field(%d) at %v returns a node of type %v for an absent field", id, p, r.Node.Type())
						}
					})
				}
			}
		case tm.MAP:
			if n.KT == tm.STRING {
				cands := []string{"no such key \x00", "", "k", "\x00"}
				if len(n.Keys) > 0 {
					cands = append(cands, string(n.Keys[rnd.n(len(n.Keys))].S)+"x")
				}
				for _, ks := range cands {
					absent := true
					for _, k := range n.Keys {
						if string(k.S) == ks {
							absent = false
						}
					}
					if !absent {
						continue
					}
					ks := ks
					c.Protect("", func() {
						if r := cur.GetByStr(ks, o); r != nil && !r.IsError() && !r.IsEmpty() {
							c.Failf("absent-found", "GetByStr(%q) at %v returns a node for an absent key", ks, p)
						} else if r != nil && r.IsEmpty() && !r.IsError() && r.Path.Type() == 0 {
							c.Failf("absent-found", "GetByStr(%q) at %v returns an unused slot of the children table (no path, no node) for an absent key instead of nil", ks, p)
						}
					})
				}
			} else if n.KT.IsInt() {
				for _, ki := range []int{0, 1, -1, 7, 1 << 40, rnd.n(1000)} {
					absent := true
					for _, k := range n.Keys {
						kk := int(k.I)
						if k.K == tm.BYTE {
							kk = int(uint8(k.I))
						}
						if kk == ki {
							absent = false
						}
					}
					if absent {
						c.Protect("", func() {
							if r := cur.GetByInt(ki, o); r != nil && !r.IsError() && !r.IsEmpty() {
								c.Failf("absent-found", "GetByInt(%d) at %v returns a node for an absent key", ki, p)
							}
						})
					}
				}
			}
		}
	})

	// ---- PathNodeToInterface
	if !cs.O.NotScanParent {
		c.Step("PathNodeToInterface")
		want := tm.ToGo(v, nil, nil, tm.GoShape{AllIntAsInt: true, ByteAsUint8: true, ByteKeyU8: true, StructAsInt: true})
		var gotI interface{}
		c.Protect("", func() { gotI = generic.PathNodeToInterface(tree, &generic.Options{}, true) })
		if d := tm.GoEqual(gotI, want); d != "" {
			c.Failf("tointerface-mismatch", "PathNodeToInterface differs: %s", d)
		}
	}
}

var loadCfg = tm.GenCfg{MaxDepth: 3, BigSizes: true, BigIDs: true, WireOrder: true, Recursive: true, MaxWidth: 4,
	KeyKinds: []tm.Kind{tm.STRING, tm.STRING, tm.BYTE, tm.I16, tm.I32, tm.I64, tm.I32, tm.DOUBLE, tm.BOOL, tm.STRUCT}}

var LoadProp = pbt.Register(pbt.Prop[LoadCase]{
	Name: "TestLoadMarshal",
	Rule: "generated value (+0..3 earlier values loaded into the same PathNode, bigger-then-smaller and smaller-then-bigger, with ResetValue/ResetAll/nothing in between) x {recurse,lazy} x StoreChildrenById x StoreChildrenByHash x NotScanParentNode x UseNativeSkip; Marshal/MarshalIntoBuffer output decoded by the reference decoder equals the value (byte-identical under default options); tree lookups (Field/GetByStr/GetByInt) reach every model node with the right span, absent keys are not found; PathNodeToInterface equals the model; non-trivial = map > 16 entries, id >= 256, or reuse after a bigger load",
	Gen: func(t *rapid.T) LoadCase {
		u := tm.GenUniverse(t, loadCfg)
		if !isComplex(u.Root.K) {
			u.Root = &tm.Type{K: tm.STRUCT, Ref: "S0"} // a scalar has no children to load
		}
		cs := LoadCase{U: u, V: tm.GenValue(t, u, u.Root, loadCfg)}
		tm.SanitizeDoubleKeys(cs.V)
		np := rapid.IntRange(0, 3).Draw(t, "nPrev")
		if rapid.Bool().Draw(t, "noReuse") {
			np = 0
		}
		for i := 0; i < np; i++ {
			pv := tm.GenValue(t, u, u.Root, loadCfg)
			tm.SanitizeDoubleKeys(pv)
			cs.Prev = append(cs.Prev, pv)
		}
		cs.Reset = rapid.IntRange(0, 2).Draw(t, "reset")
		cs.O = Opts{Recurse: rapid.Bool().Draw(t, "recurse"), ById: rapid.Bool().Draw(t, "byId"), ByHash: rapid.Bool().Draw(t, "byHash"),
			NotScanParent: rapid.IntRange(0, 3).Draw(t, "notScan") == 0, NativeSkip: rapid.Bool().Draw(t, "nativeSkip")}
		cs.IntoBuffer = rapid.Bool().Draw(t, "intoBuffer")
		cs.Pick = rapid.Uint64().Draw(t, "pick")
		return cs
	},
	Check: checkLoad,
})

func TestLoadMarshal(t *testing.T) { pbt.Run(t, LoadProp) }

// ---------------------------------------------------------------------------
// DOM edits on one container

// (tm.Step has no JSON tags: mirror it)
type jStep struct {
	Kind  string    `json:"kind"`
	ID    int16     `json:"id,omitempty"`
	Index int       `json:"index,omitempty"`
	Key   *tm.Value `json:"key,omitempty"`
}

type EditOp struct {
	Kind string    `json:"kind"`
	Step jStep     `json:"step"`
	New  *tm.Value `json:"new,omitempty"`
}

type EditCase struct {
	V     *tm.Value `json:"v"` // a struct, or a map with string / integer keys
	O     Opts      `json:"o"`
	Edits []EditOp  `json:"edits"`
}

func (s jStep) step() tm.Step {
	return tm.Step{Kind: s.Kind[0], ID: s.ID, Index: s.Index, Key: s.Key}
}

func keyOf(s jStep) string {
	if s.Kind == "f" {
		return fmt.Sprintf("f%d", s.ID)
	}
	return "k" + string(tm.EncodeValue(s.Key))
}

func checkEdits(c *pbt.Ctx, cs EditCase) {
	o := cs.O.g()
	v := cs.V
	enc := tm.Encode(v)
	buf := append(make([]byte, 0, len(enc)+16), enc...)
	tree := generic.PathNode{Node: generic.NewNode(thrift.Type(v.K), buf)}
	if err := tree.Load(false, o); err != nil {
		c.Failf("load-error", "Load failed: %v", err)
	}
	// model: key -> encoded child ("" = cleared), plus insertion order
	type ent struct {
		step jStep
		enc  []byte
		k    tm.Kind
	}
	model := map[string]*ent{}
	var order []string
	switch v.K {
	case tm.STRUCT:
		for _, f := range v.Fields {
			s := jStep{Kind: "f", ID: f.ID}
			model[keyOf(s)] = &ent{s, tm.EncodeValue(f.V), f.V.K}
			order = append(order, keyOf(s))
		}
	case tm.MAP:
		for i, k := range v.Keys {
			s := jStep{Kind: "k", Key: k}
			model[keyOf(s)] = &ent{s, tm.EncodeValue(v.Elems[i]), v.Elems[i].K}
			order = append(order, keyOf(s))
		}
	}
	region := func(s jStep) string {
		if s.Kind == "f" && cs.O.ById {
			return "byid-setfield"
		}
		if s.Kind == "k" && cs.O.ByHash && len(v.Elems) > 16 {
			return "byhash-map"
		}
		return ""
	}
	sets, clears, news := 0, 0, 0
	for i, ed := range cs.Edits {
		s := ed.Step
		key := keyOf(s)
		reg := region(s)
		c.Step("edit %d %s %s", i, ed.Kind, key)
		switch ed.Kind {
		case "set", "clear":
			var node generic.Node
			var e *ent
			if ed.Kind == "set" {
				b := tm.EncodeValue(ed.New)
				node = generic.NewNode(thrift.Type(ed.New.K), b)
				e = &ent{s, b, ed.New.K}
				sets++
			} else {
				e = &ent{s, nil, 0}
				clears++
			}
			var existed bool
			var err error
			quarantined := false
			c.Protect(reg, func() {
				switch {
				case s.Kind == "f":
					existed, err = tree.SetField(thrift.FieldID(s.ID), node, o)
				case s.Key.K == tm.STRING:
					existed, err = tree.SetByStr(string(s.Key.S), node, o)
				default:
					existed, err = tree.SetByInt(int(s.Key.I), node, o)
				}
			})
			if err != nil {
				if c.Fail(reg, "set-error", "edit %d: %v", i, err) {
					quarantined = true
				}
			}
			_, had := model[key]
			if existed != had && !quarantined {
				if c.Fail(reg, "exist-flag", "edit %d %s %s: existed=%v, model says %v", i, ed.Kind, key, existed, had) {
					quarantined = true
				}
			}
			if quarantined {
				return
			}
			if !had {
				order = append(order, key)
				news++
			}
			model[key] = e
		case "get":
			var r *generic.PathNode
			c.Protect(reg, func() {
				switch {
				case s.Kind == "f":
					r = tree.Field(thrift.FieldID(s.ID), o)
				case s.Key.K == tm.STRING:
					r = tree.GetByStr(string(s.Key.S), o)
				default:
					r = tree.GetByInt(int(s.Key.I), o)
				}
			})
			e, had := model[key]
			switch {
			case !had:
				if r != nil && !r.IsEmpty() && !r.IsError() {
					if c.Fail(reg, "absent-found", "edit %d: lookup of never-stored %s returns a node", i, key) {
						return
					}
				}
				if s.Kind != "f" && r != nil && !r.IsError() && r.Path.Type() == 0 {
					if c.Fail(reg, "absent-found", "edit %d: lookup of never-stored %s returns an unused slot of the children table (no path, no node) instead of nil", i, key) {
						return
					}
				}
			case e.enc == nil:
				if r != nil && !r.IsEmpty() {
					if c.Fail(reg, "cleared-found", "edit %d: lookup of cleared %s returns a non-empty node", i, key) {
						return
					}
				}
			default:
				if r == nil || r.IsError() || !bytes.Equal(r.Node.Raw(), e.enc) {
					if c.Fail(reg, "lookup-stale", "edit %d: lookup of %s does not return the child last stored", i, key) {
						return
					}
				}
			}
		}
	}
	// marshal and compare with the model
	out, err := tree.Marshal(o)
	if err != nil {
		c.Failf("marshal-error", "Marshal after edits: %v", err)
	}
	expected := &tm.Value{K: v.K, KT: v.KT, ET: v.ET}
	for _, k := range order {
		e := model[k]
		if e.enc == nil {
			continue
		}
		cv, derr := tm.DecodeStrict(e.k, e.enc)
		if derr != nil {
			c.Failf("harness", "model child undecodable: %v", derr)
		}
		if v.K == tm.STRUCT {
			expected.Fields = append(expected.Fields, tm.FieldVal{ID: e.step.ID, V: cv})
		} else {
			expected.Keys = append(expected.Keys, e.step.Key)
			expected.Elems = append(expected.Elems, cv)
		}
	}
	got, derr := tm.DecodeStrict(v.K, out)
	anyReg := ""
	if cs.O.ById && v.K == tm.STRUCT {
		anyReg = "byid-setfield"
	}
	if derr != nil {
		c.Fail(anyReg, "marshal-malformed", "Marshal after edits is not well-formed: %v\n out %x", derr, out)
		return
	}
	if d := tm.Diff(tm.Canon(got), tm.Canon(expected)); d != "" {
		c.Fail(anyReg, "marshal-different-value", "Marshal after edits: %s\n got  %s\n want %s", d, got.Short(), expected.Short())
		return
	}
	if sets >= 2 && (clears >= 1 || news >= 1) {
		c.NonTrivial()
	}
	c.Class(fmt.Sprintf("edit:%v,byid=%v,byhash=%v", v.K, cs.O.ById, cs.O.ByHash))
	if len(v.Elems) > 16 || len(v.Fields) > 16 {
		c.Class("edit:container>16")
	}
}

var EditProp = pbt.Register(pbt.Prop[EditCase]{
	Name: "TestDomEdits",
	Rule: "a struct (ids around 256 included) or a string-/integer-keyed map (sizes around the hash threshold 16) loaded lazily under StoreChildrenById/StoreChildrenByHash, then a history of SetField/SetByStr/SetByInt on existing and new keys, clearing (empty Node) and interleaved Field/GetByStr/GetByInt lookups compared with a model map; the final Marshal must decode to the model (children cleared are gone, container sizes consistent); non-trivial = >= 2 sets and a clear or a new key",
	Gen: func(t *rapid.T) EditCase {
		var cs EditCase
		cs.O = Opts{ById: rapid.Bool().Draw(t, "byId"), ByHash: rapid.Bool().Draw(t, "byHash")}
		scal := func() *tm.Value {
			k := []tm.Kind{tm.BOOL, tm.I32, tm.STRING, tm.I64, tm.DOUBLE}[rapid.IntRange(0, 4).Draw(t, "sk")]
			return tm.GenValue(t, &tm.Universe{}, &tm.Type{K: k}, tm.GenCfg{})
		}
		var fresh func() jStep
		if rapid.Bool().Draw(t, "isStruct") {
			cs.V = &tm.Value{K: tm.STRUCT}
			n := rapid.IntRange(0, 6).Draw(t, "nFields")
			if rapid.IntRange(0, 4).Draw(t, "wide") == 0 {
				n = rapid.IntRange(15, 30).Draw(t, "nFieldsWide")
			}
			used := map[int16]bool{}
			genID := func() int16 {
				for {
					var id int16
					switch rapid.IntRange(0, 3).Draw(t, "idc") {
					case 0:
						id = []int16{1, 2, 254, 255, 256, 257, 258, 1000, 32767}[rapid.IntRange(0, 8).Draw(t, "idb")]
					default:
						id = int16(rapid.IntRange(1, 40).Draw(t, "id"))
					}
					if !used[id] {
						used[id] = true
						return id
					}
				}
			}
			for i := 0; i < n; i++ {
				cs.V.Fields = append(cs.V.Fields, tm.FieldVal{ID: genID(), V: scal()})
			}
			fresh = func() jStep { return jStep{Kind: "f", ID: genID()} }
		} else {
			kt := []tm.Kind{tm.STRING, tm.I32, tm.I64, tm.I16}[rapid.IntRange(0, 3).Draw(t, "kt")]
			cs.V = &tm.Value{K: tm.MAP, KT: kt, ET: tm.I32}
			n := rapid.IntRange(0, 6).Draw(t, "nEntries")
			if rapid.IntRange(0, 2).Draw(t, "big") == 0 {
				n = rapid.IntRange(15, 40).Draw(t, "nEntriesBig")
			}
			used := map[string]bool{}
			genKey := func() *tm.Value {
				for {
					k := &tm.Value{K: kt}
					if kt == tm.STRING {
						k.S = []byte(fmt.Sprintf("k%d", rapid.IntRange(0, 200).Draw(t, "ks")))
						if rapid.IntRange(0, 7).Draw(t, "emptyKey") == 0 {
							k.S = []byte{}
						}
					} else {
						k.I = int64(rapid.IntRange(0, 300).Draw(t, "ki"))
						if rapid.IntRange(0, 5).Draw(t, "kneg") == 0 && kt != tm.I16 {
							k.I = -k.I
						}
					}
					kb := string(tm.EncodeValue(k))
					if !used[kb] {
						used[kb] = true
						return k
					}
				}
			}
			for i := 0; i < n; i++ {
				cs.V.Keys = append(cs.V.Keys, genKey())
				cs.V.Elems = append(cs.V.Elems, &tm.Value{K: tm.I32, I: int64(rapid.IntRange(-5, 5).Draw(t, "ev"))})
			}
			fresh = func() jStep { return jStep{Kind: "k", Key: genKey()} }
			scal = func() *tm.Value { return &tm.Value{K: tm.I32, I: int64(tm.GenInt(t, tm.I32))} }
		}
		var known []jStep
		for _, f := range cs.V.Fields {
			known = append(known, jStep{Kind: "f", ID: f.ID})
		}
		for _, k := range cs.V.Keys {
			known = append(known, jStep{Kind: "k", Key: k})
		}
		// the empty / zero key: the key an unused slot of a children table could be mistaken for
		zeroKey := func() jStep {
			if cs.V.KT == tm.STRING {
				return jStep{Kind: "k", Key: &tm.Value{K: tm.STRING, S: []byte{}}}
			}
			return jStep{Kind: "k", Key: &tm.Value{K: cs.V.KT}}
		}
		if cs.V.K == tm.MAP && rapid.Bool().Draw(t, "zeroKeyFirst") {
			cs.Edits = append(cs.Edits, EditOp{Kind: "get", Step: zeroKey()})
		}
		ne := rapid.IntRange(1, 14).Draw(t, "nEdits")
		for i := 0; i < ne; i++ {
			var st jStep
			if len(known) > 0 && rapid.IntRange(0, 3).Draw(t, "onKnown") > 0 {
				st = known[rapid.IntRange(0, len(known)-1).Draw(t, "which")]
			} else {
				st = fresh()
			}
			switch rapid.IntRange(0, 5).Draw(t, "ek") {
			case 0, 1, 2:
				nv := scal()
				if st.Kind == "f" {
					// keep the wire type of an existing field
					for _, f := range cs.V.Fields {
						if f.ID == st.ID {
							nv = tm.GenValue(t, &tm.Universe{}, &tm.Type{K: f.V.K}, tm.GenCfg{})
						}
					}
				}
				cs.Edits = append(cs.Edits, EditOp{Kind: "set", Step: st, New: nv})
				known = append(known, st)
			case 3:
				cs.Edits = append(cs.Edits, EditOp{Kind: "clear", Step: st})
				known = append(known, st)
			default:
				cs.Edits = append(cs.Edits, EditOp{Kind: "get", Step: st})
			}
			if cs.V.K == tm.MAP && rapid.IntRange(0, 9).Draw(t, "zeroKey") == 0 {
				cs.Edits = append(cs.Edits, EditOp{Kind: "set", Step: zeroKey(), New: scal()}, EditOp{Kind: "get", Step: zeroKey()})
			}
		}
		return cs
	},
	Check: checkEdits,
})

func TestDomEdits(t *testing.T) { pbt.Run(t, EditProp) }
