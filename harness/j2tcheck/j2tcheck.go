// Package j2tcheck holds the JSON->Thrift check shared by C02 (default build) and C18 (every native flavour and the portable build).
package j2tcheck

import (
	"bytes"
	"context"
	"fmt"
	"runtime"
	"strings"

	"github.com/cloudwego/dynamicgo/conv"
	"github.com/cloudwego/dynamicgo/conv/j2t"
	"github.com/cloudwego/dynamicgo/meta"
	"github.com/cloudwego/dynamicgo/thrift"
	"pgregory.net/rapid"

	"verifharness/jmodel"
	"verifharness/pbt"
	"verifharness/tjson"
	tm "verifharness/tmodel"
)

type Opts struct {
	tjson.Opts
	DisallowUnknown bool `json:"disallow_unknown,omitempty"`
	MapFieldWay     int  `json:"map_field_way,omitempty"`
}

type Case struct {
	U    *tm.Universe `json:"u"`
	O    Opts         `json:"o"`
	Prev Opts         `json:"prev"` // options the converter object had before SetOptions(O)
	Text []byte       `json:"text"`
	Show string       `json:"show"` // Text, for reading (lossy when huge)
	Want *tm.Value    `json:"want"` // value the document denotes; nil when Mode demands an error
	Mode string       `json:"mode"` // valid | contradiction:<what> | malformed:<what> | unknown-disallowed
	// a second, unrelated document converted afterwards with the same converter (earlier results must stay intact)
	Text2      []byte         `json:"text2"`
	Want2      *tm.Value      `json:"want2"`
	Feat       map[string]int `json:"feat,omitempty"`  // writer statistics of the first document (jsconv-i16, jsconv-null, ...)
	Feat2      map[string]int `json:"feat2,omitempty"` // of the second document
	BufCap     int            `json:"buf_cap"`
	FreshPools bool           `json:"fresh_pools,omitempty"`
}

func toConv(o Opts) conv.Options {
	return conv.Options{String2Int64: o.String2Int64, NoBase64Binary: o.NoBase64Binary, EnableValueMapping: o.ValueMapping, DisallowUnknownField: o.DisallowUnknown}
}

func sanitize(v *tm.Value) {
	if v.K == tm.STRING {
		v.S = []byte(strings.ToValidUTF8(string(v.S), "?"))
	}
	for _, f := range v.Fields {
		sanitize(f.V)
	}
	for _, k := range v.Keys {
		sanitize(k)
	}
	for _, e := range v.Elems {
		sanitize(e)
	}
}

var structural = []byte("{}[],:\"")

func mutate(t *rapid.T, text []byte) ([]byte, string) {
	if len(text) < 2 {
		return text, ""
	}
	var pos []int
	for i, b := range text {
		if bytes.IndexByte(structural, b) >= 0 {
			pos = append(pos, i)
		}
	}
	pick := func() int {
		if len(pos) > 0 && rapid.IntRange(0, 3).Draw(t, "atStructural") != 0 {
			return pos[rapid.IntRange(0, len(pos)-1).Draw(t, "structPos")]
		}
		return rapid.IntRange(0, len(text)-1).Draw(t, "bytePos")
	}
	out := append([]byte(nil), text...)
	switch rapid.IntRange(0, 4).Draw(t, "mutation") {
	case 0:
		i := rapid.IntRange(1, len(text)-1).Draw(t, "cut")
		return out[:i], fmt.Sprintf("truncate@%d", i)
	case 1:
		i := pick()
		return append(out[:i], out[i+1:]...), fmt.Sprintf("delete %q", text[i])
	case 2:
		i := pick()
		r := []byte("{}[],:\"x0 \\")[rapid.IntRange(0, 10).Draw(t, "replacement")]
		out[i] = r
		return out, fmt.Sprintf("replace %q by %q", text[i], r)
	case 3:
		i := pick()
		r := []byte(",:]}x\"-.e")[rapid.IntRange(0, 8).Draw(t, "insertion")]
		out = append(out[:i], append([]byte{r}, text[i:]...)...)
		return out, fmt.Sprintf("insert %q", r)
	}
	// control character inside the text
	i := pick()
	out[i] = []byte{0, 1, 0x1f, 0x7f, 0xff}[rapid.IntRange(0, 4).Draw(t, "ctl")]
	return out, fmt.Sprintf("replace %q by byte %#x", text[i], out[i])
}

func show(b []byte) string {
	if len(b) > 1200 {
		return fmt.Sprintf("%s ...(%d bytes)... %s", b[:600], len(b), b[len(b)-500:])
	}
	return string(b)
}

func gen(t *rapid.T) Case {
	var o Opts
	o.String2Int64 = rapid.Bool().Draw(t, "string2int64")
	o.NoBase64Binary = rapid.IntRange(0, 3).Draw(t, "noBase64") == 0
	o.ValueMapping = rapid.Bool().Draw(t, "valueMapping")
	o.DisallowUnknown = rapid.IntRange(0, 3).Draw(t, "disallowUnknown") == 0
	o.MapFieldWay = rapid.IntRange(0, 2).Draw(t, "mapFieldWay")
	prev := Opts{}
	prev.String2Int64 = rapid.Bool().Draw(t, "prevString2int64")
	prev.NoBase64Binary = rapid.Bool().Draw(t, "prevNoBase64")
	prev.DisallowUnknown = rapid.Bool().Draw(t, "prevDisallow")
	cfg := tm.GenCfg{MaxDepth: 3, KeyKinds: tjson.SupportedKeys, Reqs: true, Aliases: true, Lookalike: true, Recursive: true, WireOrder: true, ValidUTF8: true, FiniteDoubles: true,
		BigSizes: rapid.IntRange(0, 4).Draw(t, "bigSizes") == 0, BigIDs: rapid.IntRange(0, 3).Draw(t, "bigIDs") == 0}
	u := tm.GenUniverse(t, cfg)
	tjson.AddJSConvTo(t, u, false)
	v := tm.GenValue(t, u, u.Root, cfg)
	if o.NoBase64Binary {
		sanitize(v)
	}
	wo := tjson.WOpts{Opts: o.Opts, Nulls: rapid.Bool().Draw(t, "nulls"), Unknown: rapid.Bool().Draw(t, "unknowns"), StrInts: rapid.Bool().Draw(t, "strInts"),
		UseNames: o.MapFieldWay}
	mode := rapid.IntRange(0, 9).Draw(t, "mode")
	wo.Contradict = mode == 7 || mode == 8
	doc := tjson.Write(t, v, u.Root, u, wo, rapid.IntRange(0, 3).Draw(t, "variants") != 0)
	cs := Case{U: u, O: o, Prev: prev, Text: doc.Text, Want: doc.Denote, Mode: "valid", Feat: doc.Stats}
	switch {
	case doc.Contradiction != "":
		cs.Mode, cs.Want = "contradiction:"+doc.Contradiction, nil
	case mode == 9 && u.Root.K != tm.STRING: // a root STRING accepts any unquoted text by design
		if mt, what := mutate(t, doc.Text); what != "" {
			if _, err := jmodel.ParseRaw(mt); err != nil && !strings.HasPrefix(err.Error(), "trailing data") && !strings.Contains(err.Error(), "duplicate member") {
				cs.Text, cs.Mode, cs.Want = mt, "malformed:"+what, nil
			}
		}
	}
	if cs.Want != nil && doc.Unknown > 0 && o.DisallowUnknown {
		cs.Mode, cs.Want = "unknown-disallowed", nil
	}
	cs.Show = show(cs.Text)
	// second document: small, same descriptor
	cfg2 := cfg
	cfg2.MaxDepth, cfg2.BigSizes = 1, false
	v2 := tm.GenValue(t, u, u.Root, cfg2)
	if o.NoBase64Binary {
		sanitize(v2)
	}
	d2 := tjson.Write(t, v2, u.Root, u, tjson.WOpts{Opts: o.Opts, UseNames: o.MapFieldWay}, false)
	cs.Text2, cs.Want2, cs.Feat2 = d2.Text, d2.Denote, d2.Stats
	cs.BufCap = []int{0, 1, 7, 16, 64, 4096, 100000}[rapid.IntRange(0, 6).Draw(t, "bufCap")]
	if rapid.IntRange(0, 1).Draw(t, "bufFit") == 0 {
		// a caller buffer just large enough for the document: the output outgrows it late
		cs.BufCap = rapid.IntRange(len(cs.Text), 6*len(cs.Text)+24).Draw(t, "bufFitCap")
	}
	cs.FreshPools = rapid.IntRange(0, 15).Draw(t, "freshPools") == 0
	return cs
}

// RegionPrefix is put in front of every known-finding region (C18 sets it to "<build variant>:").
var RegionPrefix = ""

// region names the known-finding region a failure of the given symptom falls into ("" = none).
func region(cs Case, symptom string, feat map[string]int) string {
	if r := region0(cs, symptom, feat); r != "" {
		return RegionPrefix + r
	}
	return ""
}

func region0(cs Case, symptom string, feat map[string]int) string {
	switch symptom {
	case "accepted":
		if strings.HasPrefix(cs.Mode, "malformed:") {
			_, err := jmodel.ParseRaw(cs.Text)
			r := "malformed:" + jmodel.ErrClass(err)
			if feat["unknown-member"] > 0 {
				r += "+unknown-members"
			}
			return r
		}
		return cs.Mode
	case "wrong-encoding":
		if cs.O.ValueMapping && feat["jsconv-i16"] > 0 {
			return "jsconv-i16"
		}
	case "valid-rejected":
		if cs.O.ValueMapping && feat["jsconv-null"] > 0 {
			return "jsconv-null"
		}
	}
	return ""
}

func check(c *pbt.Ctx, cs Case) {
	comp, err := tm.CompileUniverse(cs.U, thrift.Options{MapFieldWay: meta.MapFieldWay(cs.O.MapFieldWay)})
	if err != nil {
		c.Failf("harness-idl", "IDL rejected: %v\n%s", err, cs.U.Render())
	}
	if cs.FreshPools {
		runtime.GC()
		runtime.GC()
	}
	ctx := context.Background()
	cv := j2t.NewBinaryConv(toConv(cs.Prev))
	cv.SetOptions(toConv(cs.O))
	text := append(make([]byte, 0, len(cs.Text)+16), cs.Text...)
	c.Step("j2t.Do mode=%s opts=%+v", cs.Mode, cs.O)
	var out []byte
	if !c.Protect("", func() { out, err = cv.Do(ctx, comp.Root, text) }) {
		return
	}
	if !bytes.Equal(text, cs.Text) {
		c.Failf("input-modified", "j2t.Do modified its input")
	}
	if cs.Want == nil {
		if err == nil {
			c.Fail(region(cs, "accepted", cs.Feat), "accepted", "mode %s: conversion succeeded with %d output bytes (%x); document: %s", cs.Mode, len(out), head(out), cs.Show)
		}
		c.Class("rejected:" + strings.SplitN(cs.Mode, ":", 2)[0])
		if strings.HasPrefix(cs.Mode, "contradiction:") {
			c.Class(strings.SplitN(cs.Mode, "<-", 2)[0])
		}
		c.NonTrivial()
		return
	}
	if err != nil {
		c.Fail(region(cs, "valid-rejected", cs.Feat), "valid-rejected", "a document denoting a conforming value is rejected: %v\ndocument: %s", err, cs.Show)
		return
	}
	want := tm.Encode(cs.Want)
	if !bytes.Equal(out, want) {
		d := tm.DecodeCompare(cs.U.Root.K, out, cs.Want)
		c.Fail(region(cs, "wrong-encoding", cs.Feat), "wrong-encoding", "output is not the encoding of the denoted value: %s\ndocument: %s\n got %x\nwant %x", d, cs.Show, head(out), head(want))
		return
	}
	keep := append([]byte(nil), out...)
	// DoInto with the drawn capacity
	buf, guard := pbt.GuardedBuf(cs.BufCap)
	c.Step("j2t.DoInto cap=%d", cs.BufCap)
	var err2 error
	if !c.Protect("", func() { err2 = cv.DoInto(ctx, comp.Root, text, &buf) }) {
		return
	}
	if g := guard(buf); g != "" {
		c.Failf("buffer-overflow", "DoInto(cap=%d): %s\ndocument: %s", cs.BufCap, g, cs.Show)
		return
	}
	if err2 != nil || !bytes.Equal(buf, want) {
		c.Fail(region(cs, "wrong-encoding", cs.Feat), "dointo-differs", "DoInto(cap=%d): err=%v, output differs from the expected encoding: %s\ndocument: %s", cs.BufCap, err2, tm.DecodeCompare(cs.U.Root.K, buf, cs.Want), cs.Show)
		return
	}
	// a second conversion with the same converter; the first result must stay intact
	c.Step("second j2t.Do")
	var out2 []byte
	if !c.Protect("", func() { out2, err2 = cv.Do(ctx, comp.Root, cs.Text2) }) {
		return
	}
	if err2 != nil || !bytes.Equal(out2, tm.Encode(cs.Want2)) {
		c.Fail(region(cs, "wrong-encoding", cs.Feat2), "second-conversion", "second document: err=%v %s\ndocument: %s", err2, tm.DecodeCompare(cs.U.Root.K, out2, cs.Want2), show(cs.Text2))
		return
	}
	if !bytes.Equal(out, keep) {
		c.Failf("result-aliased", "the bytes returned by the first Do changed during the second Do (result aliases a pooled buffer); first output had %d bytes", len(keep))
		return
	}
	// the same conversion from several goroutines at once on the one converter gives what it gives alone
	if cs.BufCap%5 == 1 || len(cs.Text)%8 == 3 {
		c.Step("the same j2t conversion from 8 goroutines at once")
		c.Class("concurrent-callers")
		if d := pbt.Concurrently(8, 40, keep, false, func() ([]byte, error) {
			return cv.Do(ctx, comp.Root, append(make([]byte, 0, len(cs.Text)+16), cs.Text...))
		}); d != "" {
			c.Failf("concurrent-differs", "j2t called concurrently on one converter differs from the call alone: %s\ndocument: %s", d, cs.Show)
		}
	}
	if tm.Count(cs.Want) >= 4 {
		c.NonTrivial()
	}
	c.Class("valid")
	if len(cs.Text) > 4096 {
		c.Class("document>4096")
	}
	if len(want) > 4096 {
		c.Class("output>4096")
	}
}

func head(b []byte) []byte {
	if len(b) > 300 {
		return b[:300]
	}
	return b
}

// Prop returns the (unregistered) property under the given test name.
func Prop(name string) pbt.Prop[Case] {
	return pbt.Prop[Case]{
		Name:  name,
		Rule:  "generated IDL (requiredness, api.key aliases x MapFieldWay, api.js_conv fields, recursion, ids up to 32767) + conforming values rendered as JSON with drawn member order, whitespace, escape forms (\\uXXXX, surrogate pairs, \\/), number spellings (decimal/exponent forms of integers <= 2^53, integer tokens for doubles, 17-digit doubles, strings under String2Int64), base64 binaries, decimal map keys, null members, unknown members (incl. the plain name of an aliased field) x options (String2Int64, NoBase64Binary, DisallowUnknownField, EnableValueMapping; set through SetOptions on a converter that had other options) x DoInto capacity; 20% of cases carry one wrong-kind value, 10% a byte-level mutation that the harness's RFC 8259 parser rejects inside the top-level value; oracle: output bytes == reference encoding of the denoted value (document order, nulls omitted, unknown skipped), error for contradiction/malformed/disallowed-unknown documents, first result intact after a second conversion; non-trivial = valid document with >= 4 value nodes, or a document that must be rejected",
		Gen:   gen,
		Check: check,
	}
}

// ---------------------------------------------------------------------------
// deep nesting: up to the depth limit the conversion is exact, beyond it an error - never a crash or different bytes

type DeepCase struct {
	Depth int    `json:"depth"`
	Via   string `json:"via"` // struct | list | map | mixed
}

const deepIDL = `struct R { 1: optional R next, 2: list<R> kids, 3: map<string,R> m, 4: i32 v }
service Svc { R Call(1: R req) }`

func deepValue(cs DeepCase, level int) *tm.Value {
	v := &tm.Value{K: tm.STRUCT}
	if level < cs.Depth {
		via := cs.Via
		if via == "mixed" {
			via = []string{"struct", "list", "map"}[level%3]
		}
		child := deepValue(cs, level+1)
		switch via {
		case "struct":
			v.Fields = append(v.Fields, tm.FieldVal{ID: 1, V: child})
		case "list":
			v.Fields = append(v.Fields, tm.FieldVal{ID: 2, V: &tm.Value{K: tm.LIST, ET: tm.STRUCT, Elems: []*tm.Value{child}}})
		default:
			v.Fields = append(v.Fields, tm.FieldVal{ID: 3, V: &tm.Value{K: tm.MAP, KT: tm.STRING, ET: tm.STRUCT, Keys: []*tm.Value{{K: tm.STRING, S: []byte("k")}}, Elems: []*tm.Value{child}}})
		}
	}
	v.Fields = append(v.Fields, tm.FieldVal{ID: 4, V: &tm.Value{K: tm.I32, I: int64(level)}})
	return v
}

func deepJSON(v *tm.Value, b *bytes.Buffer) {
	b.WriteString("{")
	for i, f := range v.Fields {
		if i > 0 {
			b.WriteString(",")
		}
		switch f.ID {
		case 1:
			b.WriteString(`"next":`)
			deepJSON(f.V, b)
		case 2:
			b.WriteString(`"kids":[`)
			deepJSON(f.V.Elems[0], b)
			b.WriteString("]")
		case 3:
			b.WriteString(`"m":{"k":`)
			deepJSON(f.V.Elems[0], b)
			b.WriteString("}")
		default:
			fmt.Fprintf(b, `"v":%d`, f.V.I)
		}
	}
	b.WriteString("}")
}

func checkDeep(c *pbt.Ctx, cs DeepCase) {
	comp, err := tm.Compile(deepIDL, thrift.Options{})
	if err != nil {
		c.Failf("harness-idl", "%v", err)
	}
	v := deepValue(cs, 0)
	var doc bytes.Buffer
	deepJSON(v, &doc)
	cv := j2t.NewBinaryConv(conv.Options{})
	var out []byte
	c.Step("j2t depth=%d via=%s", cs.Depth, cs.Via)
	if !c.Protect("", func() { out, err = cv.Do(context.Background(), comp.Root, doc.Bytes()) }) {
		return
	}
	if err != nil {
		c.Class("rejected")
		if cs.Depth < 200 {
			c.Failf("valid-rejected", "nesting depth %d (%s) rejected: %v", cs.Depth, cs.Via, err)
		}
		c.NonTrivial()
		return
	}
	if want := tm.Encode(v); !bytes.Equal(out, want) {
		c.Failf("wrong-encoding", "nesting depth %d (%s): output differs from the reference encoding (%d vs %d bytes)", cs.Depth, cs.Via, len(out), len(want))
		return
	}
	c.Class("converted")
	if cs.Depth >= 8 {
		c.NonTrivial()
	}
}

// DeepProp returns the deep-nesting property under the given test name.
func DeepProp(name string) pbt.Prop[DeepCase] {
	return pbt.Prop[DeepCase]{
		Name: name,
		Rule: "a recursive struct (next / list / map links, or a mix) nested to a drawn depth (1..64, and around 128, 256, 1024, 2048, 4096, 8192, 20000); the conversion must give exactly the reference encoding, or - only for depths >= 200 - an error; no panic, no crash, no different bytes; non-trivial = depth >= 8",
		Gen: func(t *rapid.T) DeepCase {
			d := rapid.IntRange(1, 64).Draw(t, "depth")
			if rapid.IntRange(0, 2).Draw(t, "deep") == 0 {
				d = []int{127, 128, 129, 255, 256, 257, 1023, 1024, 1025, 1364, 1365, 1366, 2047, 2048, 2049, 4094, 4095, 4096, 4097, 8192, 20000}[rapid.IntRange(0, 20).Draw(t, "deepDepth")] + rapid.IntRange(-2, 2).Draw(t, "jitter")
			}
			return DeepCase{Depth: d, Via: []string{"struct", "list", "map", "mixed"}[rapid.IntRange(0, 3).Draw(t, "via")]}
		},
		Check: checkDeep,
	}
}
