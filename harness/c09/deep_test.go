package c09

import (
	"bytes"
	"context"
	"fmt"
	"testing"

	"github.com/cloudwego/dynamicgo/conv"
	"github.com/cloudwego/dynamicgo/conv/j2p"
	"google.golang.org/protobuf/encoding/protowire"
	"google.golang.org/protobuf/proto"
	"pgregory.net/rapid"

	"verifharness/pbt"
	"verifharness/pmodel"
)

// deep nesting: exact up to the converter's depth limit, an error beyond it - never a panic or different bytes

type DeepCase struct {
	Depth int    `json:"depth"`
	Via   string `json:"via"` // next | kids | m
}

var deepSchema = pmodel.Schema{Main: "main.proto", Files: []pmodel.File{{Name: "main.proto", Package: "pkg",
	Msgs: []pmodel.Msg{{Name: "Root", Fields: []pmodel.Field{
		{Name: "next", Num: 1, Kind: "message", Ref: "Root"},
		{Name: "kids", Num: 2, Kind: "message", Ref: "Root", Label: "repeated"},
		{Name: "m", Num: 3, Kind: "message", Ref: "Root", Label: "map", KeyKind: "string"},
		{Name: "v", Num: 4, Kind: "int32"}}}},
	Svcs: []pmodel.Svc{{Name: "Svc", Methods: []pmodel.Method{{Name: "Call", In: "Root", Out: "Root"}}}}}}}

func deepBytes(cs DeepCase, level int) []byte {
	var b []byte
	if level < cs.Depth {
		child := deepBytes(cs, level+1)
		switch cs.Via {
		case "next":
			b = protowire.AppendTag(b, 1, protowire.BytesType)
			b = protowire.AppendBytes(b, child)
		case "kids":
			b = protowire.AppendTag(b, 2, protowire.BytesType)
			b = protowire.AppendBytes(b, child)
		default:
			var e []byte
			e = protowire.AppendTag(e, 1, protowire.BytesType)
			e = protowire.AppendString(e, "k")
			e = protowire.AppendTag(e, 2, protowire.BytesType)
			e = protowire.AppendBytes(e, child)
			b = protowire.AppendTag(b, 3, protowire.BytesType)
			b = protowire.AppendBytes(b, e)
		}
	}
	b = protowire.AppendTag(b, 4, protowire.VarintType)
	b = protowire.AppendVarint(b, uint64(level+1))
	return b
}

func deepDoc(cs DeepCase, level int, w *bytes.Buffer) {
	w.WriteString("{")
	if level < cs.Depth {
		switch cs.Via {
		case "next":
			w.WriteString(`"next":`)
			deepDoc(cs, level+1, w)
		case "kids":
			w.WriteString(`"kids":[`)
			deepDoc(cs, level+1, w)
			w.WriteString("]")
		default:
			w.WriteString(`"m":{"k":`)
			deepDoc(cs, level+1, w)
			w.WriteString("}")
		}
		w.WriteString(",")
	}
	fmt.Fprintf(w, `"v":%d}`, level+1)
}

func checkDeep(c *pbt.Ctx, cs DeepCase) {
	comp, err := pmodel.Compile(deepSchema.Render(), deepSchema.Main)
	if err != nil || comp.SvcErr != nil {
		c.Failf("harness-schema", "%v %v", err, comp.SvcErr)
	}
	desc := comp.Svc.LookupMethodByName("Call").Input()
	var doc bytes.Buffer
	deepDoc(cs, 0, &doc)
	cv := j2p.NewBinaryConv(conv.Options{})
	var out []byte
	c.Step("j2p depth=%d via=%s", cs.Depth, cs.Via)
	if !c.Protect("deep-nesting", func() { out, err = cv.Do(context.Background(), desc, doc.Bytes()) }) {
		return
	}
	if err != nil {
		c.Class("rejected")
		if cs.Depth < 60 {
			c.Failf("valid-rejected", "nesting depth %d (%s) rejected: %v", cs.Depth, cs.Via, err)
		}
		c.NonTrivial()
		return
	}
	want := deepBytes(cs, 0)
	if !bytes.Equal(out, want) {
		// the reference decides: both must decode to the same message
		a, e1 := pmodel.Unmarshal(comp.Msg("pkg.Root"), out)
		b, e2 := pmodel.Unmarshal(comp.Msg("pkg.Root"), want)
		if e1 != nil || e2 != nil || !proto.Equal(a, b) {
			c.Fail("deep-nesting", "wrong-encoding", "nesting depth %d (%s): output (%d bytes, decodes: %v) differs from the expected message (%d bytes)", cs.Depth, cs.Via, len(out), e1, len(want))
			return
		}
	}
	c.Class("converted")
	if cs.Depth >= 8 {
		c.NonTrivial()
	}
}

var Deep = pbt.Register(pbt.Prop[DeepCase]{
	Name: "TestDeepNesting",
	Rule: "a recursive message nested through a message field, a repeated field or a map value to a drawn depth (1..40 and around 64, 85, 127, 128, 255, 256, 1000); the output must decode (protobuf-go) to the denoted message, or - only for depths >= 60 - be an error; no panic; non-trivial = depth >= 8",
	Gen: func(t *rapid.T) DeepCase {
		d := rapid.IntRange(1, 40).Draw(t, "depth")
		if rapid.IntRange(0, 2).Draw(t, "deep") == 0 {
			d = []int{63, 64, 65, 84, 85, 86, 126, 127, 128, 129, 254, 255, 256, 257, 1000}[rapid.IntRange(0, 14).Draw(t, "deepDepth")]
		}
		return DeepCase{Depth: d, Via: []string{"next", "kids", "m"}[rapid.IntRange(0, 2).Draw(t, "via")]}
	},
	Check: checkDeep,
})

func TestDeepNesting(t *testing.T) { pbt.Run(t, Deep) }
