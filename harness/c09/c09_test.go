package c09

import (
	"bytes"
	"context"
	"encoding/base64"
	"fmt"
	"sort"
	"strconv"
	"testing"

	"github.com/cloudwego/dynamicgo/conv"
	"github.com/cloudwego/dynamicgo/conv/j2p"
	"google.golang.org/protobuf/proto"
	"google.golang.org/protobuf/reflect/protoreflect"
	"pgregory.net/rapid"

	"verifharness/jmodel"
	"verifharness/pbt"
	"verifharness/pmodel"
)

func TestMain(m *testing.M)   { pbt.Main(m, "C09") }
func TestReplay(t *testing.T) { pbt.Replay(t) }

type Case struct {
	Schema   pmodel.Schema `json:"schema"`
	JSON     string        `json:"json"`
	Want     []byte        `json:"want"` // reference encoding of the message the JSON denotes
	Disallow bool          `json:"disallow_unknown"`
	Unknown  bool          `json:"has_unknown"` // the document carries unknown members
	Mismatch string        `json:"mismatch"`    // != "": one member has a value of the wrong kind (description)
	Features []string      `json:"features"`    // constructs used by the document (for region attribution)
	IntoBuf  bool          `json:"into_buf"`
	BufCap   int           `json:"buf_cap"`
	PadSize  int           `json:"pad_size"`
}

func has(fs []string, f string) bool {
	for _, x := range fs {
		if x == f {
			return true
		}
	}
	return false
}

// region: the first known-risk construct the document uses (predicate over the generated case)
func region(cs Case) string {
	for _, f := range []string{"enum-member", "uint64>=2^63", "null-member", "null-map-value", "empty-object", "empty-array", "unknown-member"} {
		if has(cs.Features, f) {
			return f
		}
	}
	return ""
}

func check(c *pbt.Ctx, cs Case) {
	comp, err := pmodel.Compile(cs.Schema.Render(), cs.Schema.Main)
	if err != nil {
		c.Failf("harness-schema", "generated schema rejected by the reference: %v", err)
	}
	if comp.SvcErr != nil {
		c.Failf("idl-error", "dynamicgo rejects the schema: %v", comp.SvcErr)
	}
	md := comp.Msg("pkg.Root")
	want, err := pmodel.Unmarshal(md, cs.Want)
	if err != nil {
		c.Failf("harness-msg", "reference cannot decode the expected message: %v", err)
	}
	if _, perr := jmodel.Parse([]byte(cs.JSON)); perr != nil {
		c.Failf("harness-json", "generated JSON is not valid: %v\n%s", perr, cs.JSON)
	}
	desc := comp.Svc.LookupMethodByName("Call").Input()
	cv := j2p.NewBinaryConv(conv.Options{DisallowUnknownField: cs.Disallow})
	var out []byte
	c.Step("j2p")
	for _, f := range cs.Features {
		c.Class("feature:" + f)
	}
	if cs.PadSize > 0 {
		c.Class(fmt.Sprintf("nested-size=%d", cs.PadSize))
	}
	reg := region(cs)
	ran := c.Protect(reg, func() {
		if cs.IntoBuf {
			buf := make([]byte, 0, cs.BufCap)
			err = cv.DoInto(context.Background(), desc, []byte(cs.JSON), &buf)
			out = buf
		} else {
			out, err = cv.Do(context.Background(), desc, []byte(cs.JSON))
		}
	})
	if !ran {
		return
	}
	js := cs.JSON
	if len(js) > 500 {
		js = js[:500] + "..."
	}
	switch {
	case cs.Mismatch != "":
		c.Class("mismatch")
		if err == nil {
			back, derr := pmodel.Unmarshal(md, out)
			c.Fail("mismatch:"+cs.Mismatch, "mismatch-accepted", "a member with a value of the wrong kind (%s) was accepted; output %x decodes to %v (%v)\n json %s", cs.Mismatch, out, back, derr, js)
		}
		return
	case cs.Disallow && cs.Unknown:
		c.Class("disallowed-unknown")
		if err == nil {
			c.Failf("missing-error", "unknown member with DisallowUnknownField but the conversion succeeded\n json %s", js)
		}
		return // (the statement asks for an error, not for a particular class; j2p wraps every cause in ErrConvert)
	}
	if err != nil {
		c.Fail(reg, "unexpected-error", "conversion of a conforming document failed: %v\n json %s", err, js)
		return
	}
	back, derr := pmodel.Unmarshal(md, out)
	if derr != nil {
		c.Fail(reg, "rejected-by-reference", "output is rejected by the reference implementation: %v\n out %x\n json %s", derr, out, js)
		return
	}
	if len(back.GetUnknown()) != 0 {
		c.Fail(reg, "undeclared-field-in-output", "output carries undeclared fields %x\n json %s", back.GetUnknown(), js)
		return
	}
	if !proto.Equal(back, want) {
		c.Fail(reg, "different-message", "output decodes to a different message\n got  %v\n want %v\n json %s", back, want, js)
		return
	}
	// the bytes stay intact while the converter converts another document of the same shape: the same text with
	// every letter and digit inside string values replaced (member names are kept)
	keep := append([]byte(nil), out...)
	c.Step("a second j2p on another document; the first result must not change")
	c.Protect("", func() { _, _ = cv.Do(context.Background(), desc, zapStrings([]byte(cs.JSON))) })
	if !bytes.Equal(out, keep) {
		c.Failf("result-overwritten", "the bytes returned by j2p (%d) changed during a later conversion\n json %s", len(out), js)
	}
	if cs.BufCap%5 == 1 || len(cs.JSON)%8 == 3 {
		c.Step("the same j2p conversion from 8 goroutines at once")
		c.Class("concurrent-callers")
		if d := pbt.Concurrently(8, 40, keep, false, func() ([]byte, error) {
			return cv.Do(context.Background(), desc, []byte(cs.JSON))
		}); d != "" {
			c.Failf("concurrent-differs", "j2p called concurrently on one converter differs from the call alone: %s\n json %s", d, js)
		}
	}
	if len(out) > 4096 {
		c.Class("output>4096")
	}
	if has(cs.Features, "nested>=2") && (cs.PadSize >= 128 || has(cs.Features, "payload>=128")) {
		c.NonTrivial()
	}
}

// zapStrings rewrites every string literal that is a value (not followed by ':') so that its ASCII letters become 'Z'
// (escapes keep their length class; base64 stays base64).
func zapStrings(doc []byte) []byte {
	out := append([]byte(nil), doc...)
	for i := 0; i < len(out); i++ {
		if out[i] != '"' {
			continue
		}
		j := i + 1
		for j < len(out) && out[j] != '"' {
			if out[j] == '\\' {
				j++
			}
			j++
		}
		k := j + 1
		for k < len(out) && (out[k] == ' ' || out[k] == '\t' || out[k] == '\n' || out[k] == '\r') {
			k++
		}
		if k >= len(out) || out[k] != ':' {
			for x := i + 1; x < j && x < len(out); x++ {
				if out[x] == '\\' {
					x++
					if x < j && out[x] == 'u' {
						x += 4
					}
					continue
				}
				if (out[x] >= 'a' && out[x] <= 'z') || (out[x] >= 'A' && out[x] <= 'Y') {
					out[x] = 'Z'
				}
			}
		}
		i = j
	}
	return out
}

// ---------------------------------------------------------------------------
// generator: reference message -> JSON text

type gen struct {
	t        *rapid.T
	w        *jmodel.W
	feat     map[string]bool
	mismatch string
	wantMis  bool // inject one wrong-kind value
	unknown  bool
	nulls    bool
}

func (g *gen) f(name string) { g.feat[name] = true }

func keyText(kd protoreflect.FieldDescriptor, k protoreflect.MapKey) string {
	switch kd.Kind() {
	case protoreflect.StringKind:
		return k.String()
	case protoreflect.BoolKind:
		return strconv.FormatBool(k.Bool())
	case protoreflect.Uint32Kind, protoreflect.Fixed32Kind, protoreflect.Uint64Kind, protoreflect.Fixed64Kind:
		return strconv.FormatUint(k.Uint(), 10)
	}
	return strconv.FormatInt(k.Int(), 10)
}

// wrongKind writes a value whose kind contradicts a field of the given descriptor.
func (g *gen) wrongKind(fd protoreflect.FieldDescriptor, container string) {
	type alt struct {
		name string
		w    func()
	}
	var alts []alt
	str := alt{"string", func() { g.w.Str("oops") }}
	num := alt{"number", func() { g.w.Int(7, false) }}
	boo := alt{"bool", func() { g.w.Bool(true) }}
	arr := alt{"array", func() { g.w.Raw("[1]") }}
	obj := alt{"object", func() { g.w.Raw(`{"a":1}`) }}
	switch {
	case container == "list":
		alts = []alt{str, num, boo, obj}
	case container == "map" || fd.Kind() == protoreflect.MessageKind:
		alts = []alt{str, num, boo, arr}
	case fd.Kind() == protoreflect.StringKind || fd.Kind() == protoreflect.BytesKind:
		alts = []alt{num, boo, arr, obj}
	case fd.Kind() == protoreflect.BoolKind:
		alts = []alt{str, num, arr, obj}
	default: // numeric / enum
		alts = []alt{str, boo, arr, obj}
	}
	a := alts[rapid.IntRange(0, len(alts)-1).Draw(g.t, "wrongKind")]
	what := fd.Kind().String()
	if container != "" {
		what = container
	}
	g.mismatch = a.name + "-for-" + what
	a.w()
}

func (g *gen) scalar(fd protoreflect.FieldDescriptor, v protoreflect.Value) {
	switch fd.Kind() {
	case protoreflect.BoolKind:
		g.w.Bool(v.Bool())
	case protoreflect.StringKind:
		g.w.Str(v.String())
		if len(v.String()) >= 128 {
			g.f("payload>=128")
		}
	case protoreflect.BytesKind:
		g.w.Str(base64.StdEncoding.EncodeToString(v.Bytes()))
		if len(v.Bytes()) >= 128 {
			g.f("payload>=128")
		}
	case protoreflect.EnumKind:
		g.f("enum-member")
		g.w.Int(int64(v.Enum()), false)
	case protoreflect.FloatKind:
		// the shortest spelling of the float32 value parses back to it
		if v.Float() == 0 {
			g.w.Float(v.Float())
		} else {
			g.w.Raw(strconv.FormatFloat(v.Float(), 'g', -1, 32))
		}
	case protoreflect.DoubleKind:
		g.w.Float(v.Float())
	case protoreflect.Uint32Kind, protoreflect.Fixed32Kind:
		g.w.Uint(v.Uint(), false)
	case protoreflect.Uint64Kind, protoreflect.Fixed64Kind:
		if v.Uint() >= 1<<63 {
			g.f("uint64>=2^63")
		}
		g.w.Uint(v.Uint(), false)
	default:
		g.w.Int(v.Int(), false)
	}
}

func (g *gen) value(fd protoreflect.FieldDescriptor, v protoreflect.Value, depth int) {
	switch {
	case fd.IsMap():
		if g.takeMismatch() {
			g.wrongKind(fd, "map")
			return
		}
		mp := v.Map()
		type ent struct {
			k protoreflect.MapKey
			v protoreflect.Value
		}
		var ents []ent
		mp.Range(func(k protoreflect.MapKey, e protoreflect.Value) bool { ents = append(ents, ent{k, e}); return true })
		sort.Slice(ents, func(i, j int) bool { return ents[i].k.String() < ents[j].k.String() })
		if len(ents) == 0 {
			g.f("empty-object")
		}
		g.f("map-key:" + fd.MapKey().Kind().String())
		// entries whose value is null denote nothing (like null members): keys the map does not hold, at drawn positions
		nullAt := map[int]int{}
		if g.nulls && rapid.IntRange(0, 2).Draw(g.t, "nullEntries") == 0 {
			for j, n := 0, rapid.IntRange(1, 2).Draw(g.t, "nNullEntries"); j < n; j++ {
				nullAt[rapid.IntRange(0, len(ents)).Draw(g.t, "nullEntryPos")]++
			}
			g.f("null-map-value")
		}
		nullKeys := 0
		first := true
		nullEntries := func(pos int) {
			for j := 0; j < nullAt[pos]; j++ {
				if !first {
					g.w.Raw(",")
				}
				first = false
				g.w.WS()
				if fd.MapKey().Kind() == protoreflect.StringKind {
					g.w.Str(fmt.Sprintf("\x00null-entry-%d", nullKeys))
				} else {
					g.w.Str(strconv.Itoa(2000000000 + nullKeys))
				}
				nullKeys++
				g.w.WS()
				g.w.Raw(":")
				g.w.WS()
				g.w.Null()
			}
		}
		g.w.Raw("{")
		for i, en := range ents {
			nullEntries(i)
			if !first {
				g.w.Raw(",")
			}
			first = false
			g.w.WS()
			g.w.Str(keyText(fd.MapKey(), en.k))
			g.w.WS()
			g.w.Raw(":")
			g.w.WS()
			if fd.MapValue().Kind() == protoreflect.MessageKind {
				g.message(en.v.Message(), depth+1)
			} else if g.takeMismatch() {
				g.wrongKind(fd.MapValue(), "")
			} else {
				g.scalar(fd.MapValue(), en.v)
			}
		}
		nullEntries(len(ents))
		g.w.WS()
		g.w.Raw("}")
	case fd.IsList():
		if g.takeMismatch() {
			g.wrongKind(fd, "list")
			return
		}
		l := v.List()
		if l.Len() == 0 {
			g.f("empty-array")
		}
		if fd.IsPacked() {
			g.f("packed-list")
		}
		g.w.Raw("[")
		for i := 0; i < l.Len(); i++ {
			if i > 0 {
				g.w.Raw(",")
			}
			g.w.WS()
			if fd.Kind() == protoreflect.MessageKind {
				g.message(l.Get(i).Message(), depth+1)
			} else if g.takeMismatch() {
				g.wrongKind(fd, "")
			} else {
				g.scalar(fd, l.Get(i))
			}
		}
		g.w.WS()
		g.w.Raw("]")
	case fd.Kind() == protoreflect.MessageKind:
		if g.takeMismatch() {
			g.wrongKind(fd, "")
			return
		}
		g.message(v.Message(), depth+1)
	default:
		if g.takeMismatch() {
			g.wrongKind(fd, "")
			return
		}
		g.scalar(fd, v)
	}
}

func (g *gen) takeMismatch() bool {
	if !g.wantMis || g.mismatch != "" {
		return false
	}
	return rapid.IntRange(0, 3).Draw(g.t, "mismatchHere") == 0
}

func (g *gen) message(m protoreflect.Message, depth int) {
	if depth >= 2 {
		g.f("nested>=2")
	}
	type mem struct {
		fd protoreflect.FieldDescriptor
		v  protoreflect.Value
	}
	var mems []mem
	m.Range(func(fd protoreflect.FieldDescriptor, v protoreflect.Value) bool {
		mems = append(mems, mem{fd, v})
		return true
	})
	sort.Slice(mems, func(i, j int) bool { return mems[i].fd.Number() < mems[j].fd.Number() })
	if len(mems) > 1 {
		mems = rapid.Permutation(mems).Draw(g.t, "memberOrder")
	}
	// null members for unset fields, unknown members
	type item struct {
		kind int // 0 member, 1 null, 2 unknown
		m    mem
		name string
	}
	var items []item
	for _, x := range mems {
		items = append(items, item{kind: 0, m: x})
	}
	fds := m.Descriptor().Fields()
	if g.nulls {
		for i := 0; i < fds.Len(); i++ {
			fd := fds.Get(i)
			if !m.Has(fd) && rapid.IntRange(0, 3).Draw(g.t, "nullMember") == 0 {
				pos := rapid.IntRange(0, len(items)).Draw(g.t, "nullPos")
				items = append(items[:pos:pos], append([]item{{kind: 1, m: mem{fd: fd}}}, items[pos:]...)...)
				g.f("null-member")
			}
		}
	}
	if g.unknown && rapid.IntRange(0, 2).Draw(g.t, "unknownHere") == 0 {
		pos := rapid.IntRange(0, len(items)).Draw(g.t, "unknownPos")
		items = append(items[:pos:pos], append([]item{{kind: 2, name: fmt.Sprintf("no_such_member_%d", depth)}}, items[pos:]...)...)
		g.f("unknown-member")
	}
	if len(items) == 0 {
		g.f("empty-object")
	}
	g.w.Raw("{")
	for i, it := range items {
		if i > 0 {
			g.w.Raw(",")
		}
		g.w.WS()
		switch it.kind {
		case 2:
			g.w.Str(it.name)
			g.w.WS()
			g.w.Raw(":")
			g.w.WS()
			g.w.JunkValue(0)
			continue
		}
		key := string(it.m.fd.Name())
		if rapid.Bool().Draw(g.t, "jsonName") {
			key = it.m.fd.JSONName()
		}
		g.w.Str(key)
		g.w.WS()
		g.w.Raw(":")
		g.w.WS()
		if it.kind == 1 {
			g.w.Null()
		} else {
			g.value(it.m.fd, it.m.v, depth)
		}
	}
	g.w.WS()
	g.w.Raw("}")
}

var Prop = pbt.Register(pbt.Prop[Case]{
	Name: "TestJSONToProto",
	Rule: "generated proto3 schema + reference message rendered as JSON (members in drawn order, keyed by field name or JSON name, whitespace / escape / float spelling variants, null members for unset fields, map entries with a null value (denoting nothing), unknown members with scalar/array/object values, nested message sizes padded to 126..129 / 16382..16385); j2p output must be accepted by protobuf-go and proto.Equal to the message; a member with a wrong-kind value must yield an error; unknown member + DisallowUnknownField => ErrUnknownField; the returned bytes stay intact during a second conversion of the same document with other string contents; non-trivial = nesting >= 2 and a length-delimited payload >= 128 bytes",
	Gen: func(t *rapid.T) Case {
		sc := pmodel.GenSchema(t, pmodel.GenOpts{JSONNames: true, Unpacked: true, AllKinds: rapid.IntRange(0, 3).Draw(t, "allKinds") == 0, KeyKinds: pmodel.SupportedKeyKinds})
		comp, err := pmodel.Compile(sc.Render(), sc.Main)
		if err != nil {
			t.Fatalf("generator produced an invalid schema: %v", err)
		}
		m := pmodel.GenMessage(t, comp.Msg("pkg.Root"), pmodel.MsgOpts{MaxDepth: 3, MaxElems: 3, FiniteOnly: true})
		cs := Case{Schema: sc}
		if rapid.IntRange(0, 2).Draw(t, "pad") == 0 {
			cs.PadSize = pmodel.PadToBoundary(t, m)
		}
		g := &gen{t: t, w: jmodel.NewW(t, rapid.IntRange(0, 3).Draw(t, "variants") != 0), feat: map[string]bool{}}
		g.wantMis = rapid.IntRange(0, 4).Draw(t, "mismatch") == 0
		g.unknown = !g.wantMis && rapid.IntRange(0, 2).Draw(t, "unknown") == 0
		g.nulls = !g.wantMis && rapid.IntRange(0, 2).Draw(t, "nulls") == 0
		g.w.WS()
		g.message(m, 0)
		g.w.WS()
		cs.JSON = string(g.w.B)
		cs.Want = pmodel.Marshal(m)
		cs.Mismatch = g.mismatch
		cs.Unknown = g.feat["unknown-member"]
		cs.Disallow = rapid.IntRange(0, 3).Draw(t, "disallow") == 0
		for f := range g.feat {
			cs.Features = append(cs.Features, f)
		}
		for f, n := range g.w.Stats {
			if n > 0 {
				cs.Features = append(cs.Features, "spelling:"+f)
			}
		}
		sort.Strings(cs.Features)
		cs.IntoBuf = rapid.Bool().Draw(t, "intoBuf")
		cs.BufCap = []int{0, 1, 7, 64, 4096}[rapid.IntRange(0, 4).Draw(t, "bufCap")]
		return cs
	},
	Check: check,
})

func TestJSONToProto(t *testing.T) { pbt.Run(t, Prop) }

// ---------------------------------------------------------------------------
// capacity sweep: the message j2p writes must not depend on the capacity of the caller's buffer

func checkSweep(c *pbt.Ctx, cs Case) {
	comp, err := pmodel.Compile(cs.Schema.Render(), cs.Schema.Main)
	if err != nil || comp.SvcErr != nil {
		c.Failf("harness-schema", "schema rejected: %v %v", err, comp.SvcErr)
	}
	desc := comp.Svc.LookupMethodByName("Call").Input()
	cv := j2p.NewBinaryConv(conv.Options{DisallowUnknownField: cs.Disallow})
	reg := region(cs)
	doc := []byte(cs.JSON)
	big := make([]byte, 0, 1<<20)
	var err0 error
	if !c.Protect(reg, func() { err0 = cv.DoInto(context.Background(), desc, doc, &big) }) {
		return
	}
	hi := len(big) + 40
	if hi > 2600 {
		hi = 2600
	}
	c.Step("j2p.DoInto with every capacity 0..%d (large-buffer result: %d bytes, err=%v)", hi, len(big), err0)
	for capn := 0; capn <= hi; capn++ {
		buf := make([]byte, 0, capn)
		var e error
		if !c.Protect(reg, func() { e = cv.DoInto(context.Background(), desc, doc, &buf) }) {
			return
		}
		if (e == nil) != (err0 == nil) || (e == nil && !bytes.Equal(buf, big)) {
			if c.Fail(reg, "capacity-dependent", "j2p.DoInto with capacity %d: err=%v, %d bytes; with a large buffer: err=%v, %d bytes\n%x\nvs\n%x", capn, e, len(buf), err0, len(big), buf, big) {
				return
			}
		}
	}
	if string(doc) != cs.JSON {
		c.Failf("input-modified", "j2p.DoInto modified its input")
	}
	c.NonTrivial()
	if err0 != nil {
		c.Class("rejected")
	}
}

var SweepProp = pbt.Register(pbt.Prop[Case]{
	Name:  "TestJ2PCapacitySweep",
	Rule:  "the schemas, documents and option sets of TestJSONToProto; j2p.DoInto into caller buffers of every capacity from 0 to the output size + 40 (at most 2600): error-ness and bytes must equal the conversion into a 1 MiB buffer, no panic; every case is non-trivial",
	Gen:   Prop.Gen,
	Check: checkSweep,
})

func TestJ2PCapacitySweep(t *testing.T) { pbt.Run(t, SweepProp) }
