package c10

import (
	"bytes"
	"fmt"
	"math"
	"sort"
	"strings"
	"testing"

	dproto "github.com/cloudwego/dynamicgo/proto"
	"github.com/cloudwego/dynamicgo/proto/generic"
	"google.golang.org/protobuf/encoding/protowire"
	"google.golang.org/protobuf/proto"
	"google.golang.org/protobuf/reflect/protoreflect"
	"google.golang.org/protobuf/types/dynamicpb"
	"pgregory.net/rapid"

	"verifharness/pbt"
	"verifharness/pmodel"
)

func TestMain(m *testing.M)   { pbt.Main(m, "C10") }
func TestReplay(t *testing.T) { pbt.Replay(t) }

// Step addresses a child: field by number (Name chooses name addressing), list index, map key.
type Step struct {
	Kind string `json:"kind"` // "f", "i", "k"
	Num  int32  `json:"num,omitempty"`
	Name bool   `json:"name,omitempty"`
	Idx  int    `json:"idx,omitempty"`
	KStr string `json:"kstr,omitempty"`
	KInt int64  `json:"kint,omitempty"`
	KIsS bool   `json:"kiss,omitempty"`
}

// NewVal is the replacement: a scalar (by 64-bit pattern / bytes) or a message (reference-encoded payload).
type NewVal struct {
	U64 uint64 `json:"u64,omitempty"`
	Bin []byte `json:"bin,omitempty"`
	Msg []byte `json:"msg,omitempty"`
	// Whole: a whole repeated / map field as it is on the wire (the encoding of a message of the parent's type that holds only this field)
	Whole []byte `json:"whole,omitempty"`
}

type Op struct {
	Kind string     `json:"kind"` // set, unset, setmany
	Path []Step     `json:"path"`
	New  NewVal     `json:"new"`
	Many []ManyEdit `json:"many,omitempty"` // setmany: edits of direct children of the container addressed by Path (a message or a list)
}

type ManyEdit struct {
	Num int32  `json:"num,omitempty"` // message container: field number; list container: unused (append)
	New NewVal `json:"new"`
}

type Case struct {
	Schema pmodel.Schema `json:"schema"`
	Msg    []byte        `json:"msg"`
	Ops    []Op          `json:"ops"`
}

// ---------------------------------------------------------------------------
// model navigation (protobuf-go)

type target struct {
	parent protoreflect.Message // message holding the field
	fd     protoreflect.FieldDescriptor
	kind   string // "field", "elem", "entry"
	idx    int
	key    protoreflect.MapKey
	ok     bool // path resolvable down to the parent container
	exists bool
}

func mapKeyOf(fd protoreflect.FieldDescriptor, s Step) protoreflect.MapKey {
	kd := fd.MapKey()
	switch kd.Kind() {
	case protoreflect.StringKind:
		return protoreflect.ValueOfString(s.KStr).MapKey()
	case protoreflect.Int32Kind, protoreflect.Sint32Kind, protoreflect.Sfixed32Kind:
		return protoreflect.ValueOfInt32(int32(s.KInt)).MapKey()
	case protoreflect.Int64Kind, protoreflect.Sint64Kind, protoreflect.Sfixed64Kind:
		return protoreflect.ValueOfInt64(s.KInt).MapKey()
	case protoreflect.Uint32Kind, protoreflect.Fixed32Kind:
		return protoreflect.ValueOfUint32(uint32(s.KInt)).MapKey()
	case protoreflect.Uint64Kind, protoreflect.Fixed64Kind:
		return protoreflect.ValueOfUint64(uint64(s.KInt)).MapKey()
	}
	return protoreflect.ValueOfBool(s.KInt != 0).MapKey()
}

// resolve walks the model along path and returns the last addressed child.
func resolve(root protoreflect.Message, path []Step) target {
	cur := root
	var t target
	for i := 0; i < len(path); i++ {
		s := path[i]
		if s.Kind != "f" {
			return target{}
		}
		fd := cur.Descriptor().Fields().ByNumber(protoreflect.FieldNumber(s.Num))
		if fd == nil {
			return target{}
		}
		last := i == len(path)-1
		switch {
		case fd.IsList():
			if last {
				return target{parent: cur, fd: fd, kind: "field", ok: true, exists: cur.Has(fd)}
			}
			i++
			e := path[i]
			if e.Kind != "i" {
				return target{}
			}
			l := cur.Get(fd).List()
			t = target{parent: cur, fd: fd, kind: "elem", idx: e.Idx, ok: true, exists: e.Idx >= 0 && e.Idx < l.Len()}
			if i == len(path)-1 {
				return t
			}
			if !t.exists || fd.Kind() != protoreflect.MessageKind {
				return target{}
			}
			cur = l.Get(e.Idx).Message()
		case fd.IsMap():
			if last {
				return target{parent: cur, fd: fd, kind: "field", ok: true, exists: cur.Has(fd)}
			}
			i++
			e := path[i]
			if e.Kind != "k" {
				return target{}
			}
			k := mapKeyOf(fd, e)
			mp := cur.Get(fd).Map()
			t = target{parent: cur, fd: fd, kind: "entry", key: k, ok: true, exists: mp.Has(k)}
			if i == len(path)-1 {
				return t
			}
			if !t.exists || fd.MapValue().Kind() != protoreflect.MessageKind {
				return target{}
			}
			cur = mp.Get(k).Message()
		default:
			if last {
				return target{parent: cur, fd: fd, kind: "field", ok: true, exists: cur.Has(fd)}
			}
			if fd.Kind() != protoreflect.MessageKind || !cur.Has(fd) {
				return target{}
			}
			cur = cur.Get(fd).Message()
		}
	}
	return t
}

func scalarValue(fd protoreflect.FieldDescriptor, nv NewVal) protoreflect.Value {
	u := nv.U64
	switch fd.Kind() {
	case protoreflect.BoolKind:
		return protoreflect.ValueOfBool(u&1 == 1)
	case protoreflect.EnumKind:
		vs := fd.Enum().Values()
		return protoreflect.ValueOfEnum(vs.Get(int(u % uint64(vs.Len()))).Number())
	case protoreflect.Int32Kind, protoreflect.Sint32Kind, protoreflect.Sfixed32Kind:
		return protoreflect.ValueOfInt32(int32(u))
	case protoreflect.Int64Kind, protoreflect.Sint64Kind, protoreflect.Sfixed64Kind:
		return protoreflect.ValueOfInt64(int64(u))
	case protoreflect.Uint32Kind, protoreflect.Fixed32Kind:
		return protoreflect.ValueOfUint32(uint32(u))
	case protoreflect.Uint64Kind, protoreflect.Fixed64Kind:
		return protoreflect.ValueOfUint64(u)
	case protoreflect.FloatKind:
		return protoreflect.ValueOfFloat32(math.Float32frombits(uint32(u)))
	case protoreflect.DoubleKind:
		return protoreflect.ValueOfFloat64(math.Float64frombits(u))
	case protoreflect.StringKind:
		return protoreflect.ValueOfString(string(nv.Bin))
	case protoreflect.BytesKind:
		return protoreflect.ValueOfBytes(append([]byte{}, nv.Bin...))
	}
	panic("scalarValue")
}

// elemDesc is the descriptor that describes one element / map value / the field itself.
func elemFD(t target) protoreflect.FieldDescriptor {
	if t.kind == "entry" {
		return t.fd.MapValue()
	}
	return t.fd
}

var dtypeOfKind = map[protoreflect.Kind]dproto.Type{
	protoreflect.BoolKind: dproto.BOOL, protoreflect.EnumKind: dproto.ENUM, protoreflect.Int32Kind: dproto.INT32, protoreflect.Sint32Kind: dproto.SINT32,
	protoreflect.Uint32Kind: dproto.UINT32, protoreflect.Int64Kind: dproto.INT64, protoreflect.Sint64Kind: dproto.SINT64, protoreflect.Uint64Kind: dproto.UINT64,
	protoreflect.Sfixed32Kind: dproto.SFIX32, protoreflect.Fixed32Kind: dproto.FIX32, protoreflect.FloatKind: dproto.FLOAT, protoreflect.Sfixed64Kind: dproto.SFIX64,
	protoreflect.Fixed64Kind: dproto.FIX64, protoreflect.DoubleKind: dproto.DOUBLE, protoreflect.StringKind: dproto.STRING, protoreflect.BytesKind: dproto.BYTE,
	protoreflect.MessageKind: dproto.MESSAGE,
}

func isWhole(t target) bool { return t.kind == "field" && (t.fd.IsList() || t.fd.IsMap()) }

func modelValue(t target, nv NewVal) (protoreflect.Value, error) {
	if isWhole(t) {
		tmp := dynamicpb.NewMessage(t.fd.ContainingMessage())
		if err := proto.Unmarshal(nv.Whole, tmp); err != nil {
			return protoreflect.Value{}, err
		}
		return tmp.Get(t.fd), nil
	}
	fd := elemFD(t)
	if fd.Kind() == protoreflect.MessageKind {
		m := dynamicpb.NewMessage(fd.Message())
		if err := proto.Unmarshal(nv.Msg, m); err != nil {
			return protoreflect.Value{}, err
		}
		return protoreflect.ValueOfMessage(m), nil
	}
	return scalarValue(fd, nv), nil
}

// sutNode builds the replacement node for dynamicgo.
func sutNode(t target, nv NewVal) generic.Node {
	if isWhole(t) {
		raw := append(make([]byte, 0, len(nv.Whole)+16), nv.Whole...)
		if t.fd.IsMap() {
			return generic.NewComplexNode(dproto.MAP, dtypeOfKind[t.fd.MapValue().Kind()], dtypeOfKind[t.fd.MapKey().Kind()], raw)
		}
		return generic.NewComplexNode(dproto.LIST, dtypeOfKind[t.fd.Kind()], dproto.UNKNOWN, raw)
	}
	fd := elemFD(t)
	u := nv.U64
	switch fd.Kind() {
	case protoreflect.MessageKind:
		// length prefix + payload, as GetByPath returns message nodes; the buffer carries spare capacity like every harness
		// buffer (a node at the very end of an exact-size buffer holds a pointer one past the allocation: C06-end-pointer-caller-buffer)
		return generic.NewNode(dproto.MESSAGE, protowire.AppendBytes(make([]byte, 0, len(nv.Msg)+32), nv.Msg))
	case protoreflect.BoolKind:
		return generic.NewNodeBool(u&1 == 1)
	case protoreflect.EnumKind:
		return generic.NewNodeEnum(int32(scalarValue(fd, nv).Enum()))
	case protoreflect.Int32Kind:
		return generic.NewNodeInt32(int32(u))
	case protoreflect.Sint32Kind:
		return generic.NewNodeSint32(int32(u))
	case protoreflect.Sfixed32Kind:
		return generic.NewNodeSfixed32(int32(u))
	case protoreflect.Uint32Kind:
		return generic.NewNodeUint32(uint32(u))
	case protoreflect.Fixed32Kind:
		return generic.NewNodeFixed32(uint32(u))
	case protoreflect.Int64Kind:
		return generic.NewNodeInt64(int64(u))
	case protoreflect.Sint64Kind:
		return generic.NewNodeSint64(int64(u))
	case protoreflect.Sfixed64Kind:
		return generic.NewNodeSfixed64(int64(u))
	case protoreflect.Uint64Kind:
		return generic.NewNodeUint64(u)
	case protoreflect.Fixed64Kind:
		return generic.NewNodeFixed64(u)
	case protoreflect.FloatKind:
		return generic.NewNodeFloat(math.Float32frombits(uint32(u)))
	case protoreflect.DoubleKind:
		return generic.NewNodeDouble(math.Float64frombits(u))
	case protoreflect.StringKind:
		return generic.NewNodeString(string(nv.Bin))
	case protoreflect.BytesKind:
		return generic.NewNodeBytes(append([]byte{}, nv.Bin...))
	}
	panic("sutNode")
}

func sutPath(root protoreflect.MessageDescriptor, path []Step) []generic.Path {
	out := make([]generic.Path, 0, len(path))
	md := root
	var lastFD protoreflect.FieldDescriptor
	for _, s := range path {
		switch s.Kind {
		case "f":
			var fd protoreflect.FieldDescriptor
			if md != nil {
				fd = md.Fields().ByNumber(protoreflect.FieldNumber(s.Num))
			}
			if s.Name && fd != nil {
				out = append(out, generic.NewPathFieldName(string(fd.Name())))
			} else {
				out = append(out, generic.NewPathFieldId(dproto.FieldNumber(s.Num)))
			}
			lastFD = fd
			md = nil
			if fd != nil && fd.Kind() == protoreflect.MessageKind && !fd.IsList() && !fd.IsMap() {
				md = fd.Message()
			}
		case "i":
			out = append(out, generic.NewPathIndex(s.Idx))
			if lastFD != nil && lastFD.Kind() == protoreflect.MessageKind {
				md = lastFD.Message()
			}
		case "k":
			if s.KIsS {
				out = append(out, generic.NewPathStrKey(s.KStr))
			} else {
				out = append(out, generic.NewPathIntKey(int(s.KInt)))
			}
			if lastFD != nil && lastFD.IsMap() && lastFD.MapValue().Kind() == protoreflect.MessageKind {
				md = lastFD.MapValue().Message()
			}
		}
	}
	return out
}

// features names the shape of the addressed position: used as the known-finding region.
func features(op Op, t target, root protoreflect.Message) string {
	var fs []string
	fs = append(fs, op.Kind)
	if t.exists {
		fs = append(fs, "present")
	} else {
		fs = append(fs, "absent")
	}
	fd := elemFD(t)
	switch t.kind {
	case "field":
		switch {
		case t.fd.IsList():
			fs = append(fs, "whole-list")
		case t.fd.IsMap():
			fs = append(fs, "whole-map")
		case fd.Kind() == protoreflect.MessageKind:
			fs = append(fs, "message-field")
		default:
			fs = append(fs, "scalar-field")
		}
	case "elem":
		p := "unpacked"
		if t.fd.IsPacked() {
			p = "packed"
		}
		k := "scalar"
		if fd.Kind() == protoreflect.MessageKind {
			k = "message"
		}
		fs = append(fs, p+"-"+k+"-elem")
	case "entry":
		k := "scalar"
		if fd.Kind() == protoreflect.MessageKind {
			k = "message"
		}
		fs = append(fs, "map-"+k+"-value")
	}
	// what the path passes through
	through := map[string]bool{}
	for i := 0; i < len(op.Path)-1; i++ {
		switch op.Path[i].Kind {
		case "i":
			if i < len(op.Path)-1 {
				through["list-elem"] = true
			}
		case "k":
			through["map-value"] = true
		}
	}
	last := op.Path[len(op.Path)-1]
	if last.Kind == "f" && len(op.Path) > 1 {
		through["message"] = true
	}
	var th []string
	for k := range through {
		th = append(th, k)
	}
	sort.Strings(th)
	if len(th) > 0 {
		fs = append(fs, "through-"+strings.Join(th, "+"))
	}
	return strings.Join(fs, ":")
}

func applyModel(t target, op Op, nv NewVal) error {
	switch op.Kind {
	case "set":
		v, err := modelValue(t, nv)
		if err != nil {
			return err
		}
		switch t.kind {
		case "field":
			t.parent.Set(t.fd, v)
		case "elem":
			l := t.parent.Mutable(t.fd).List()
			if t.exists {
				l.Set(t.idx, v)
			} else {
				l.Append(v)
			}
		case "entry":
			t.parent.Mutable(t.fd).Map().Set(t.key, v)
		}
	case "unset":
		switch t.kind {
		case "field":
			t.parent.Clear(t.fd)
		case "elem":
			if t.exists {
				l := t.parent.Get(t.fd).List()
				nl := t.parent.NewField(t.fd).List()
				for i := 0; i < l.Len(); i++ {
					if i != t.idx {
						nl.Append(l.Get(i))
					}
				}
				if nl.Len() == 0 {
					t.parent.Clear(t.fd)
				} else {
					t.parent.Set(t.fd, protoreflect.ValueOfList(nl))
				}
			}
		case "entry":
			if t.exists {
				t.parent.Mutable(t.fd).Map().Clear(t.key)
			}
		}
	}
	return nil
}

func check(c *pbt.Ctx, cs Case) {
	comp, err := pmodel.Compile(cs.Schema.Render(), cs.Schema.Main)
	if err != nil {
		c.Failf("harness-schema", "generated schema rejected by the reference: %v", err)
	}
	if comp.SvcErr != nil {
		c.Failf("idl-error", "dynamicgo rejects the schema: %v", comp.SvcErr)
	}
	md := comp.Msg("pkg.Root")
	model, err := pmodel.Unmarshal(md, cs.Msg)
	if err != nil {
		c.Failf("harness-msg", "reference cannot decode its own message: %v", err)
	}
	desc := comp.Svc.LookupMethodByName("Call").Input()
	root := generic.NewRootValue(desc, append(make([]byte, 0, len(cs.Msg)+16), cs.Msg...))

	// DOM load + marshal of the current state must preserve the message
	// one more tree is kept across the whole history and loaded in alternating modes (Load resets what it held before)
	var reused generic.PathNode
	reuseN := 0
	// bytes returned by earlier Marshal calls stay what they were while later calls marshal other states
	type heldOut struct {
		out, copy []byte
		when      string
	}
	var held []heldOut
	hold := func(out []byte, when string) {
		for _, h := range held {
			if !bytes.Equal(h.out, h.copy) {
				c.Failf("dom-result-overwritten", "the bytes Marshal returned %s changed while a later state was marshalled (%s)\n now %x\n was %x", h.when, when, h.out, h.copy)
			}
		}
		if len(held) < 4 {
			held = append(held, heldOut{out, append([]byte(nil), out...), when})
		}
	}
	dom := func(when string) {
		{
			recurse := reuseN%2 == len(cs.Msg)&1
			reuseN++
			c.Step("DOM reused tree Load(recurse=%v)+Marshal %s", recurse, when)
			c.Protect("dom-reuse", func() {
				reused.Node = root.Node
				if err := reused.Load(recurse, &generic.Options{}, desc); err != nil {
					c.Fail("dom-reuse", "dom-load-error", "%s: Load(recurse=%v) into a reused tree: %v", when, recurse, err)
					return
				}
				out, err := reused.Marshal(&generic.Options{})
				if err != nil {
					c.Fail("dom-reuse", "dom-marshal-error", "%s: Marshal of a reused tree: %v", when, err)
					return
				}
				hold(out, when)
				back, derr := pmodel.Unmarshal(md, out)
				if derr != nil {
					c.Fail("dom-reuse", "dom-malformed", "%s: Marshal(Load(x), recurse=%v) of a reused tree is rejected by the reference: %v\n in  %x\n out %x", when, recurse, derr, root.Raw(), out)
					return
				}
				if !proto.Equal(back, model) {
					c.Fail("dom-reuse", "dom-different-message", "%s: Marshal(Load(x), recurse=%v) of a reused tree decodes to a different message\n got  %v\n want %v", when, recurse, back, model)
				}
			})
		}
		for _, recurse := range []bool{false, true} {
			c.Step("DOM Load(recurse=%v)+Marshal %s", recurse, when)
			reg := ""
			if recurse {
				reg = "dom-recurse"
			}
			okk := c.Protect(reg, func() {
				tree := generic.PathNode{Node: root.Node}
				if err := tree.Load(recurse, &generic.Options{}, desc); err != nil {
					c.Fail(reg, "dom-load-error", "%s: Load(recurse=%v): %v", when, recurse, err)
					return
				}
				out, err := tree.Marshal(&generic.Options{})
				if err != nil {
					c.Fail(reg, "dom-marshal-error", "%s: Marshal: %v", when, err)
					return
				}
				back, derr := pmodel.Unmarshal(md, out)
				if derr != nil {
					c.Fail(reg, "dom-malformed", "%s: Marshal(Load(x), recurse=%v) is rejected by the reference: %v\n in  %x\n out %x", when, recurse, derr, root.Raw(), out)
					return
				}
				if !proto.Equal(back, model) {
					c.Fail(reg, "dom-different-message", "%s: Marshal(Load(x), recurse=%v) decodes to a different message\n got  %v\n want %v", when, recurse, back, model)
				}
			})
			_ = okk
		}
	}
	dom("initially")

	edits, deep, widthChange := 0, false, false
	for oi, op := range cs.Ops {
		if op.Kind == "setmany" {
			if m2, ok := checkSetMany(c, cs, oi, op, md, desc, &root, model); ok {
				model = m2
				edits++
				dom(fmt.Sprintf("after op %d", oi))
			}
			continue
		}
		t := resolve(model, op.Path)
		if !t.ok {
			continue // the path is not valid for the current model (an earlier quarantined op was skipped)
		}
		if op.Kind == "unset" && !t.exists {
			continue
		}
		sp := sutPath(md, op.Path)
		reg := features(op, t, model)
		tag := fmt.Sprintf("op %d %s %v [%s]", oi, op.Kind, op.Path, reg)
		c.Step(tag)
		c.Class(reg)
		before := append([]byte{}, root.Raw()...)
		var oerr error
		var exist bool
		quarantined := false
		ran := c.Protect(reg, func() {
			switch op.Kind {
			case "set":
				exist, oerr = root.SetByPath(sutNode(t, op.New), sp...)
			case "unset":
				oerr = root.UnsetByPath(sp...)
			}
		})
		if !ran {
			quarantined = true
		}
		if !quarantined && oerr != nil {
			if c.Fail(reg, "valid-edit-error", "%s: %v", tag, oerr) {
				quarantined = true
			}
		}
		// (a proto3 scalar explicitly set to its default is on the wire although the reference reports it
		// unset, so only the unambiguous direction is asserted)
		if !quarantined && op.Kind == "set" && t.exists && !exist {
			if c.Fail(reg, "exist-flag", "%s: exist=%v, model says %v", tag, exist, t.exists) {
				quarantined = true
			}
		}
		if !quarantined {
			expected := proto.Clone(model.Interface()).(*dynamicpb.Message)
			et := resolve(expected, op.Path)
			if err := applyModel(et, op, op.New); err != nil {
				c.Failf("harness-model", "%s: %v", tag, err)
			}
			back, derr := pmodel.Unmarshal(md, root.Raw())
			if derr != nil {
				if c.Fail(reg, "malformed-after-edit", "%s: result is rejected by the reference: %v\n before %x\n after  %x", tag, derr, before, root.Raw()) {
					quarantined = true
				}
			} else if !proto.Equal(back, expected) {
				if c.Fail(reg, "wrong-result-after-edit", "%s: result decodes to a different message\n got  %v\n want %v\n before %x\n after  %x", tag, back, expected, before, root.Raw()) {
					quarantined = true
				}
			}
			if !quarantined {
				model = expected
				edits++
				if len(op.Path) >= 3 {
					deep = true
				}
				if (len(before) < 128) != (len(root.Raw()) < 128) {
					widthChange = true
				}
			}
		}
		if quarantined {
			// restore the state before the quarantined operation and go on
			root = generic.NewRootValue(desc, append(make([]byte, 0, len(before)+16), before...))
			continue
		}
		dom(fmt.Sprintf("after op %d", oi))
	}
	if edits >= 2 && deep {
		c.NonTrivial()
	}
	if widthChange {
		c.Class("root-size-crossed-128")
	}
}

// checkSetMany runs one SetMany request with the calling convention of the repository's own tests:
// on the root with empty address/path, on a nested value with GetByPathWithAddress + a sentinel last path.
func checkSetMany(c *pbt.Ctx, cs Case, oi int, op Op, md protoreflect.MessageDescriptor, desc *dproto.TypeDescriptor, root *generic.Value, model *dynamicpb.Message) (*dynamicpb.Message, bool) {
	expected := proto.Clone(model.Interface()).(*dynamicpb.Message)
	// locate the container in the model
	var cont protoreflect.Message = expected
	var listFD protoreflect.FieldDescriptor
	var listParent protoreflect.Message
	if len(op.Path) > 0 {
		t := resolve(expected, op.Path)
		if !t.ok || !t.exists || t.kind != "field" {
			return nil, false
		}
		switch {
		case t.fd.IsList():
			listFD, listParent = t.fd, t.parent
		case t.fd.Kind() == protoreflect.MessageKind && !t.fd.IsMap():
			cont = t.parent.Mutable(t.fd).Message()
		default:
			return nil, false
		}
	}
	var pn []generic.PathNode
	kind := "message"
	for _, ed := range op.Many {
		if listFD != nil {
			kind = "list"
			tg := target{parent: listParent, fd: listFD, kind: "elem", idx: 1 << 20, ok: true}
			pn = append(pn, generic.PathNode{Path: generic.NewPathIndex(1024), Node: sutNode(tg, ed.New)})
			if err := applyModel(tg, Op{Kind: "set"}, ed.New); err != nil {
				c.Failf("harness-model", "setmany model: %v", err)
			}
			continue
		}
		fd := cont.Descriptor().Fields().ByNumber(protoreflect.FieldNumber(ed.Num))
		if fd == nil || fd.IsList() || fd.IsMap() {
			return nil, false
		}
		tg := target{parent: cont, fd: fd, kind: "field", ok: true, exists: cont.Has(fd)}
		pn = append(pn, generic.PathNode{Path: generic.NewPathFieldId(dproto.FieldNumber(ed.Num)), Node: sutNode(tg, ed.New)})
		if err := applyModel(tg, Op{Kind: "set"}, ed.New); err != nil {
			c.Failf("harness-model", "setmany model: %v", err)
		}
	}
	if len(pn) == 0 {
		return nil, false
	}
	where := "root"
	if len(op.Path) > 0 {
		where = "nested"
	}
	reg := "setmany:" + where + ":" + kind
	tag := fmt.Sprintf("op %d setmany %v (%d edits) [%s]", oi, op.Path, len(pn), reg)
	c.Step(tag)
	c.Class(reg)
	before := append([]byte{}, root.Raw()...)
	restore := func() {
		*root = generic.NewRootValue(desc, append(make([]byte, 0, len(before)+16), before...))
	}
	var err error
	ran := c.Protect(reg, func() {
		if len(op.Path) == 0 {
			err = root.SetMany(pn, &generic.Options{}, root, []int{})
			return
		}
		sp := sutPath(md, op.Path)
		vv, addr := root.GetByPathWithAddress(sp...)
		if vv.IsError() {
			err = vv
			return
		}
		sentinel := generic.NewPathFieldId(1024)
		if kind == "list" {
			sentinel = generic.NewPathIndex(1024)
		}
		path2root := append(append([]generic.Path{}, sp...), sentinel)
		address2root := append(append([]int{}, addr...), 0)
		err = vv.SetMany(pn, &generic.Options{}, root, address2root, path2root...)
	})
	if !ran {
		restore()
		return nil, false
	}
	if err != nil {
		if c.Fail(reg, "valid-edit-error", "%s: %v", tag, err) {
			restore()
			return nil, false
		}
	}
	back, derr := pmodel.Unmarshal(md, root.Raw())
	if derr != nil {
		if c.Fail(reg, "malformed-after-edit", "%s: result is rejected by the reference: %v\n before %x\n after  %x", tag, derr, before, root.Raw()) {
			restore()
			return nil, false
		}
	}
	if !proto.Equal(back, expected) {
		if c.Fail(reg, "wrong-result-after-edit", "%s: result decodes to a different message\n got  %v\n want %v\n before %x\n after  %x", tag, back, expected, before, root.Raw()) {
			restore()
			return nil, false
		}
	}
	return expected, true
}

// ---------------------------------------------------------------------------
// generator

type pos struct {
	path []Step
	t    target
}

func keyStep(fd protoreflect.FieldDescriptor, k protoreflect.MapKey) Step {
	s := Step{Kind: "k"}
	switch fd.MapKey().Kind() {
	case protoreflect.StringKind:
		s.KIsS, s.KStr = true, k.String()
	case protoreflect.Uint32Kind, protoreflect.Uint64Kind, protoreflect.Fixed32Kind, protoreflect.Fixed64Kind:
		s.KInt = int64(k.Uint())
	case protoreflect.BoolKind:
		if k.Bool() {
			s.KInt = 1
		}
	default:
		s.KInt = k.Int()
	}
	return s
}

// positions lists addressable positions (present and insertable) up to a depth.
func positions(m protoreflect.Message, prefix []Step, depth int, out *[]pos) {
	fds := m.Descriptor().Fields()
	for i := 0; i < fds.Len(); i++ {
		fd := fds.Get(i)
		fs := append(append([]Step{}, prefix...), Step{Kind: "f", Num: int32(fd.Number())})
		switch {
		case fd.IsList():
			l := m.Get(fd).List()
			// (an empty list/map is not on the wire: a path below it is an absent-inner path, outside "valid paths")
			for j := 0; j <= l.Len() && l.Len() > 0; j++ {
				p := append(append([]Step{}, fs...), Step{Kind: "i", Idx: j})
				*out = append(*out, pos{p, target{parent: m, fd: fd, kind: "elem", idx: j, ok: true, exists: j < l.Len()}})
				if j < l.Len() && fd.Kind() == protoreflect.MessageKind && depth < 2 {
					positions(l.Get(j).Message(), p, depth+1, out)
				}
			}
			*out = append(*out, pos{fs, target{parent: m, fd: fd, kind: "field", ok: true, exists: l.Len() > 0}})
		case fd.IsMap():
			mp := m.Get(fd).Map()
			var keys []protoreflect.MapKey
			mp.Range(func(k protoreflect.MapKey, _ protoreflect.Value) bool { keys = append(keys, k); return true })
			sort.Slice(keys, func(a, b int) bool { return keys[a].String() < keys[b].String() })
			for _, k := range keys {
				p := append(append([]Step{}, fs...), keyStep(fd, k))
				*out = append(*out, pos{p, target{parent: m, fd: fd, kind: "entry", key: k, ok: true, exists: true}})
				if fd.MapValue().Kind() == protoreflect.MessageKind && depth < 2 {
					positions(mp.Get(k).Message(), p, depth+1, out)
				}
			}
			// a new key
			var nk protoreflect.MapKey
			if fd.MapKey().Kind() == protoreflect.StringKind {
				nk = protoreflect.ValueOfString(fmt.Sprintf("new%d", mp.Len())).MapKey()
			} else {
				cand := int64(1000 + mp.Len())
				nk = mapKeyOf(fd, Step{KInt: cand})
			}
			if !mp.Has(nk) && mp.Len() > 0 {
				p := append(append([]Step{}, fs...), keyStep(fd, nk))
				*out = append(*out, pos{p, target{parent: m, fd: fd, kind: "entry", key: nk, ok: true, exists: false}})
			}
			if supportedMapKey(fd) {
				*out = append(*out, pos{fs, target{parent: m, fd: fd, kind: "field", ok: true, exists: mp.Len() > 0}})
			} else if mp.Len() > 0 {
				*out = append(*out, pos{fs, target{parent: m, fd: fd, kind: "field", ok: true, exists: true}})
			}
		default:
			*out = append(*out, pos{fs, target{parent: m, fd: fd, kind: "field", ok: true, exists: m.Has(fd)}})
			if fd.Kind() == protoreflect.MessageKind && m.Has(fd) && depth < 2 {
				positions(m.Get(fd).Message(), fs, depth+1, out)
			}
		}
	}
}

func genNew(t *rapid.T, tg target) NewVal {
	fd := elemFD(tg)
	var nv NewVal
	switch fd.Kind() {
	case protoreflect.MessageKind:
		m := pmodel.GenMessage(t, fd.Message(), pmodel.MsgOpts{MaxDepth: 1, MaxElems: 2})
		nv.Msg = pmodel.Marshal(m)
	case protoreflect.StringKind:
		nv.Bin = []byte(genSized(t, true))
	case protoreflect.BytesKind:
		nv.Bin = []byte(genSized(t, false))
	case protoreflect.DoubleKind:
		nv.U64 = pmodel.GenF64Bits(t, false)
	case protoreflect.FloatKind:
		nv.U64 = uint64(pmodel.GenF32Bits(t, false))
	default:
		nv.U64 = uint64(pmodel.GenInt64(t))
	}
	return nv
}

// genSized draws text whose length moves enclosing length prefixes across 127/128 and back to 0.
func genSized(t *rapid.T, utf8 bool) string {
	switch rapid.IntRange(0, 5).Draw(t, "sizedClass") {
	case 0:
		return ""
	case 1:
		n := []int{100, 120, 125, 126, 127, 128, 129, 130, 200, 300}[rapid.IntRange(0, 9).Draw(t, "sizedLen")]
		return strings.Repeat("s", n)
	}
	if utf8 {
		return pmodel.GenUTF8(t)
	}
	return string(pmodel.GenBytes(t))
}

func genOps(t *rapid.T, md protoreflect.MessageDescriptor, msg []byte) []Op {
	model, err := pmodel.Unmarshal(md, msg)
	if err != nil {
		t.Fatalf("unmarshal: %v", err)
	}
	n := rapid.IntRange(1, 8).Draw(t, "nOps")
	var ops []Op
	for len(ops) < n {
		var ps []pos
		positions(model, nil, 0, &ps)
		if len(ps) == 0 {
			break
		}
		if rapid.IntRange(0, 5).Draw(t, "setmany") == 0 {
			if op, ok := genSetMany(t, model, ps); ok {
				ops = append(ops, op)
				continue
			}
		}
		p := ps[rapid.IntRange(0, len(ps)-1).Draw(t, "pos")]
		if rapid.IntRange(0, 2).Draw(t, "deepBias") == 0 {
			// prefer the deepest positions
			best := p
			for _, q := range ps {
				if len(q.path) > len(best.path) {
					best = q
				}
			}
			if rapid.Bool().Draw(t, "takeDeepest") {
				p = best
			}
		}
		for i := range p.path {
			if p.path[i].Kind == "f" {
				p.path[i].Name = rapid.Bool().Draw(t, "byName")
			}
		}
		op := Op{Path: p.path}
		whole := p.t.kind == "field" && (p.t.fd.IsList() || p.t.fd.IsMap())
		if whole && (!p.t.exists || rapid.Bool().Draw(t, "wholeSet")) && (!p.t.fd.IsMap() || supportedMapKey(p.t.fd)) {
			// the whole repeated / map field is replaced or inserted as one LIST / MAP node
			op.Kind = "set"
			tmp := dynamicpb.NewMessage(p.t.fd.ContainingMessage())
			for tries := 0; tries < 20 && !tmp.Has(p.t.fd); tries++ {
				g := pmodel.GenMessage(t, p.t.fd.ContainingMessage(), pmodel.MsgOpts{MaxDepth: 1, MaxElems: 3, FillAll: true})
				if g.Has(p.t.fd) {
					tmp.Set(p.t.fd, g.Get(p.t.fd))
				}
			}
			if !tmp.Has(p.t.fd) {
				continue
			}
			op.New = NewVal{Whole: pmodel.Marshal(tmp)}
		} else if whole || (p.t.exists && rapid.IntRange(0, 3).Draw(t, "unset") == 0) {
			op.Kind = "unset"
			if !p.t.exists {
				continue
			}
		} else {
			op.Kind = "set"
			op.New = genNew(t, p.t)
		}
		tg := resolve(model, op.Path)
		if !tg.ok {
			continue
		}
		if err := applyModel(tg, op, op.New); err != nil {
			t.Fatalf("model: %v", err)
		}
		ops = append(ops, op)
	}
	return ops
}

// genSetMany draws a SetMany request on the root message, on a present message field or on a present
// repeated field (append), and applies it to the generator's model.
func genSetMany(t *rapid.T, model *dynamicpb.Message, ps []pos) (Op, bool) {
	var conts []pos
	for _, p := range ps {
		if p.t.kind == "field" && p.t.exists && len(p.path) <= 2 && (p.t.fd.IsList() || (p.t.fd.Kind() == protoreflect.MessageKind && !p.t.fd.IsMap())) {
			conts = append(conts, p)
		}
	}
	op := Op{Kind: "setmany"}
	var cont protoreflect.Message = model
	var listT *target
	if len(conts) > 0 && rapid.Bool().Draw(t, "nestedMany") {
		p := conts[rapid.IntRange(0, len(conts)-1).Draw(t, "manyCont")]
		op.Path = append([]Step{}, p.path...)
		if p.t.fd.IsList() {
			tt := p.t
			listT = &tt
		} else {
			cont = p.t.parent.Mutable(p.t.fd).Message()
		}
	}
	n := rapid.IntRange(1, 3).Draw(t, "nMany")
	if listT != nil {
		for i := 0; i < n; i++ {
			tg := target{parent: listT.parent, fd: listT.fd, kind: "elem", idx: 1 << 20, ok: true}
			nv := genNew(t, tg)
			op.Many = append(op.Many, ManyEdit{New: nv})
			applyModel(tg, Op{Kind: "set"}, nv)
		}
		return op, true
	}
	fds := cont.Descriptor().Fields()
	used := map[int32]bool{}
	for i := 0; i < n; i++ {
		fd := fds.Get(rapid.IntRange(0, fds.Len()-1).Draw(t, "manyField"))
		if fd.IsList() || fd.IsMap() || used[int32(fd.Number())] {
			continue
		}
		used[int32(fd.Number())] = true
		tg := target{parent: cont, fd: fd, kind: "field", ok: true, exists: cont.Has(fd)}
		nv := genNew(t, tg)
		op.Many = append(op.Many, ManyEdit{Num: int32(fd.Number()), New: nv})
		applyModel(tg, Op{Kind: "set"}, nv)
	}
	return op, len(op.Many) > 0
}

var Prop = pbt.Register(pbt.Prop[Case]{
	Name: "TestProtoEdits",
	Rule: "model-based history: generated proto3 schema + reference-encoded message, then 1..8 SetByPath/UnsetByPath operations drawn against the evolving reference message (existing scalars, message fields, packed/unpacked list elements, map values at depth <= 3, insertion of absent fields / new map keys / index == len, whole repeated and map fields replaced or inserted as one LIST / MAP node, unsetting fields, whole lists/maps, elements and keys; replacement sizes around 127/128 and empty); after every step the bytes must be accepted by protobuf-go and equal the model with the same edit applied, and PathNode.Load(lazy and recursive)+Marshal of every intermediate state must decode to the same message; non-trivial = >= 2 successful edits with one at path depth >= 3",
	Gen: func(t *rapid.T) Case {
		sc := pmodel.GenSchema(t, pmodel.GenOpts{KeyKinds: pmodel.SupportedKeyKinds, MaxFields: 5})
		comp, err := pmodel.Compile(sc.Render(), sc.Main)
		if err != nil {
			t.Fatalf("generator produced an invalid schema: %v", err)
		}
		md := comp.Msg("pkg.Root")
		m := pmodel.GenMessage(t, md, pmodel.MsgOpts{MaxDepth: 2, MaxElems: 3})
		msg := pmodel.Marshal(m)
		return Case{Schema: sc, Msg: msg, Ops: genOps(t, md, msg)}
	},
	Check: check,
})

func TestProtoEdits(t *testing.T) { pbt.Run(t, Prop) }

func supportedMapKey(fd protoreflect.FieldDescriptor) bool {
	switch fd.MapKey().Kind() {
	case protoreflect.StringKind, protoreflect.Int32Kind, protoreflect.Int64Kind, protoreflect.Uint32Kind, protoreflect.Uint64Kind:
		return true
	}
	return false
}
