package c20

import (
	"bytes"
	"fmt"
	"testing"

	"github.com/cloudwego/dynamicgo/proto/binary"
	"google.golang.org/protobuf/proto"
	"google.golang.org/protobuf/reflect/protoreflect"
	"pgregory.net/rapid"

	"verifharness/pbt"
	"verifharness/pmodel"
)

// (c) descriptor-driven writer/reader over generated schemas

type DescCase struct {
	Schema       pmodel.Schema `json:"schema"`
	Msg          []byte        `json:"msg"` // reference encoding of the message of type pkg.Root
	UseFieldName bool          `json:"use_field_name"`
	MapForm      int           `json:"map_form"`
	Cast         bool          `json:"cast"`
	Shuffle      uint64        `json:"shuffle"` // seed of the field-order permutation of the second read input
}

// kinds used in the message, for region attribution
func usesKind(m protoreflect.Message, pred func(fd protoreflect.FieldDescriptor) bool) bool {
	found := false
	m.Range(func(fd protoreflect.FieldDescriptor, v protoreflect.Value) bool {
		if pred(fd) {
			found = true
			return false
		}
		switch {
		case fd.IsMap():
			if fd.MapValue().Kind() == protoreflect.MessageKind {
				v.Map().Range(func(_ protoreflect.MapKey, e protoreflect.Value) bool {
					if usesKind(e.Message(), pred) {
						found = true
					}
					return !found
				})
			}
		case fd.IsList():
			if fd.Kind() == protoreflect.MessageKind {
				for i := 0; i < v.List().Len() && !found; i++ {
					found = usesKind(v.List().Get(i).Message(), pred)
				}
			}
		case fd.Kind() == protoreflect.MessageKind:
			found = usesKind(v.Message(), pred)
		}
		return !found
	})
	return found
}

func checkDesc(c *pbt.Ctx, cs DescCase) {
	comp, err := pmodel.Compile(cs.Schema.Render(), cs.Schema.Main)
	if err != nil {
		c.Failf("harness-schema", "generated schema rejected by the reference: %v", err)
	}
	if comp.SvcErr != nil {
		c.Failf("idl-error", "dynamicgo rejects a schema the reference accepts: %v", comp.SvcErr)
	}
	md := comp.Msg("pkg.Root")
	ref, err := pmodel.Unmarshal(md, cs.Msg)
	if err != nil {
		c.Failf("harness-msg", "reference cannot decode its own message: %v", err)
	}
	desc := comp.Svc.LookupMethodByName("Call").Input()

	composite := usesKind(ref, func(fd protoreflect.FieldDescriptor) bool {
		return fd.IsList() || fd.IsMap() || fd.Kind() == protoreflect.MessageKind
	})
	if composite {
		c.NonTrivial()
		c.Class("composite")
	}
	if usesKind(ref, func(fd protoreflect.FieldDescriptor) bool { return fd.IsMap() }) {
		c.Class("map")
	}
	if usesKind(ref, func(fd protoreflect.FieldDescriptor) bool { return fd.IsList() && fd.IsPacked() }) {
		c.Class("packed-list")
	}
	c.Class(fmt.Sprintf("name=%v,mapform=%d,cast=%v", cs.UseFieldName, cs.MapForm, cs.Cast))

	want := pmodel.NormalizeDynGo(md, pmodel.ToDynGo(ref, cs.UseFieldName, pmodel.MapFormIface))
	read := func(what string, src []byte) {
		q := binary.NewBinaryProtol(append([]byte{}, src...))
		c.Step("ReadAnyWithDesc " + what)
		got, rerr := q.ReadAnyWithDesc(desc, false, true, false, cs.UseFieldName)
		if rerr != nil {
			c.Failf("read-error:"+what, "ReadAnyWithDesc(%x): %v", src, rerr)
		}
		if ok, why := pmodel.DynGoEqual(got, want); !ok {
			c.Failf("read-mismatch:"+what, "ReadAnyWithDesc differs at %s\n got  %v\n want %v\n bytes %x", why, got, want, src)
		}
		if q.Read != len(src) {
			c.Failf("read-consumed:"+what, "ReadAnyWithDesc consumed %d of %d bytes", q.Read, len(src))
		}
	}
	// ---- read the reference encoding, and the same message with fields in another order
	read("reference-bytes", cs.Msg)
	shuf := pmodel.Shuffle(md, cs.Msg, cs.Shuffle)
	if back, err := pmodel.Unmarshal(md, shuf); err != nil || !proto.Equal(back, ref) {
		c.Failf("harness-shuffle", "shuffled encoding is not the same message: %v", err)
	}
	read("shuffled-bytes", shuf)

	// ---- unknown fields at every level: a lenient read returns the same value; a strict read fails, leaves the
	// reader's buffer as it was, and the same reader object rewound to the start then reads leniently like a fresh one
	withUnknown := pmodel.InjectUnknown(md, cs.Msg, cs.Shuffle)
	if len(withUnknown) != len(cs.Msg) {
		if _, err := pmodel.Unmarshal(md, withUnknown); err != nil {
			c.Failf("harness-unknown", "message with injected unknown fields is rejected by the reference: %v", err)
		}
		src := append(make([]byte, 0, len(withUnknown)+16), withUnknown...)
		q := binary.NewBinaryProtol(src)
		c.Step("ReadAnyWithDesc with-unknown-fields, disallowUnknown")
		if _, rerr := q.ReadAnyWithDesc(desc, false, true, true, cs.UseFieldName); rerr == nil {
			c.Failf("unknown-accepted", "ReadAnyWithDesc(disallowUnknown) accepts a message with undeclared fields: %x", withUnknown)
		}
		if len(q.Buf) != len(withUnknown) || !bytes.Equal(q.Buf, withUnknown) {
			c.Failf("reader-buffer-changed", "after a rejected read the reader's buffer is %d bytes, it was given %d", len(q.Buf), len(withUnknown))
		}
		q.Read = 0
		c.Step("lenient ReadAnyWithDesc with the same reader, rewound")
		got, rerr := q.ReadAnyWithDesc(desc, false, true, false, cs.UseFieldName)
		if rerr != nil {
			c.Failf("read-error:after-rejected-read", "ReadAnyWithDesc(%x) after a rejected strict read: %v", withUnknown, rerr)
		}
		if ok, why := pmodel.DynGoEqual(got, want); !ok {
			c.Failf("read-mismatch:after-rejected-read", "ReadAnyWithDesc after a rejected strict read differs at %s\n got  %v\n want %v\n bytes %x", why, got, want, withUnknown)
		}
		read("with-unknown-fields", withUnknown)
		c.Class("unknown-fields-injected")
	}

	// ---- write (the writer iterates over Go maps: its field order varies from call to call, so write twice)
	for rep := 0; rep < 2; rep++ {
		val := pmodel.ToDynGo(ref, cs.UseFieldName, cs.MapForm)
		p := binary.NewBinaryProtocolBuffer()
		c.Step("WriteAnyWithDesc")
		werr := p.WriteAnyWithDesc(desc, val, false, cs.Cast, false, cs.UseFieldName)
		if werr != nil {
			c.Failf("write-error", "WriteAnyWithDesc(%v): %v", val, werr)
		}
		out := append([]byte{}, p.Buf...)
		binary.FreeBinaryProtocol(p)
		back, err := pmodel.Unmarshal(md, out)
		if err != nil {
			c.Failf("write-rejected-by-reference", "reference rejects written bytes %x: %v (value %v)", out, err, val)
		}
		if !proto.Equal(back, ref) {
			c.Failf("write-different-message", "written bytes decode to a different message:\n got  %v\n want %v\n bytes %x", back, ref, out)
		}
		read("written-bytes", out)
	}
}

var DescProp = pbt.Register(pbt.Prop[DescCase]{
	Name: "TestDescRoundTrip",
	Rule: "generated proto3 schema (all scalar kinds, enums, nested/recursive messages, repeated, maps of every key kind) + reference-generated message; Go value in dynamicgo's documented shape written with WriteAnyWithDesc must be accepted by the reference as the same message; ReadAnyWithDesc of the reference bytes and of the written bytes must return the Go value; both field-name and field-number addressing; the message with undeclared fields injected at every level reads to the same value leniently, is rejected under disallowUnknown, and the rejected read leaves the reader's buffer intact (the same reader rewound reads like a fresh one); non-trivial = message with a repeated/map/message field",
	Gen: func(t *rapid.T) DescCase {
		sc := pmodel.GenSchema(t, pmodel.GenOpts{AllKinds: rapid.Bool().Draw(t, "allKinds")})
		comp, err := pmodel.Compile(sc.Render(), sc.Main)
		if err != nil {
			t.Fatalf("generator produced an invalid schema: %v\n%s", err, sc.Render()[sc.Main])
		}
		m := pmodel.GenMessage(t, comp.Msg("pkg.Root"), pmodel.MsgOpts{})
		cs := DescCase{Schema: sc, Msg: pmodel.Marshal(m)}
		cs.UseFieldName = rapid.Bool().Draw(t, "useFieldName")
		cs.MapForm = rapid.IntRange(0, 2).Draw(t, "mapForm")
		cs.Shuffle = rapid.Uint64().Draw(t, "shuffle")
		cs.Cast = rapid.Bool().Draw(t, "cast") || cs.MapForm == pmodel.MapFormInt
		return cs
	},
	Check: checkDesc,
})

func TestDescRoundTrip(t *testing.T) { pbt.Run(t, DescProp) }
