package c20

import (
	"bytes"
	"fmt"
	"testing"

	"github.com/cloudwego/dynamicgo/proto/binary"
	"google.golang.org/protobuf/proto"
	"google.golang.org/protobuf/reflect/protoreflect"
	"google.golang.org/protobuf/types/dynamicpb"
	"pgregory.net/rapid"

	"verifharness/pbt"
	"verifharness/pmodel"
)

// Size sweep of the descriptor-driven writer: a leading bytes field grows by one byte per step over a
// whole range of sizes, so the end of each nested message (whose length prefix is written speculatively
// as one byte and then widened) crosses every capacity the pooled write buffer can have.

const writeSweepProto = `syntax = "proto3";
package pkg;
message In { bytes body = 1; int32 x = 2; string s = 3; }
message Root { bytes pad = 1; In one = 2; repeated In many = 3; int32 tail = 5; }
service Svc { rpc Call(Root) returns (Root); }
`

type WriteSweepCase struct {
	Bodies       []int `json:"bodies"` // body length of "one" and of each element of "many"
	Pad0         int   `json:"pad0"`
	Steps        int   `json:"steps"`
	UseFieldName bool  `json:"use_field_name"`
}

func checkWriteSweep(c *pbt.Ctx, cs WriteSweepCase) {
	comp, err := pmodel.Compile(map[string]string{"main.proto": writeSweepProto}, "main.proto")
	if err != nil || comp.SvcErr != nil {
		c.Failf("harness-schema", "schema rejected: %v %v", err, comp.SvcErr)
	}
	md := comp.Msg("pkg.Root")
	desc := comp.Svc.LookupMethodByName("Call").Input()
	imd := md.Fields().ByName("one").Message()
	mkIn := func(n int) protoreflect.Message {
		in := dynamicpb.NewMessage(imd)
		if n > 0 {
			in.Set(imd.Fields().ByName("body"), protoreflect.ValueOfBytes(bytes.Repeat([]byte{'b'}, n)))
		}
		in.Set(imd.Fields().ByName("x"), protoreflect.ValueOfInt32(int32(n)))
		in.Set(imd.Fields().ByName("s"), protoreflect.ValueOfString("s"))
		return in
	}
	m := dynamicpb.NewMessage(md)
	for i, n := range cs.Bodies {
		if i == 0 {
			m.Set(md.Fields().ByName("one"), protoreflect.ValueOfMessage(mkIn(n)))
		} else {
			m.Mutable(md.Fields().ByName("many")).List().Append(protoreflect.ValueOfMessage(mkIn(n)))
		}
	}
	m.Set(md.Fields().ByName("tail"), protoreflect.ValueOfInt32(7))
	pad := bytes.Repeat([]byte{'p'}, cs.Pad0+cs.Steps)
	padFd := md.Fields().ByName("pad")
	for k := 0; k < cs.Steps; k++ {
		n := cs.Pad0 + k
		if n > 0 {
			m.Set(padFd, protoreflect.ValueOfBytes(pad[:n]))
		}
		val := pmodel.ToDynGo(m, cs.UseFieldName, pmodel.MapFormIface)
		p := binary.NewBinaryProtocolBuffer()
		var werr error
		if !c.Protect("", func() { werr = p.WriteAnyWithDesc(desc, val, false, false, false, cs.UseFieldName) }) {
			return
		}
		if werr != nil {
			c.Failf("write-error", "pad %d: WriteAnyWithDesc: %v", n, werr)
		}
		out := append([]byte{}, p.Buf...)
		binary.FreeBinaryProtocol(p)
		back, uerr := pmodel.Unmarshal(md, out)
		if uerr != nil {
			c.Failf("write-rejected-by-reference", "pad %d (output %d bytes): reference rejects the written bytes: %v", n, len(out), uerr)
		}
		if !proto.Equal(back, m) {
			c.Failf("write-different-message", "pad %d (output %d bytes): written bytes decode to a different message", n, len(out))
		}
	}
	c.NonTrivial()
	c.Class(fmt.Sprintf("sweep-to>=%d", (cs.Pad0+cs.Steps)/4096*4096))
}

var WriteSweepProp = pbt.Register(pbt.Prop[WriteSweepCase]{
	Name: "TestDescWriteSweep",
	Rule: "fixed schema with a nested message occurring singly and repeated; nested bodies of drawn sizes (0, 1, around 127/128, 200..300, around 16383/16384); a leading bytes field grows by one byte per step over 800..3000 consecutive sizes starting anywhere in 0..20000, so the end of every nested message crosses every capacity of the pooled write buffer; every WriteAnyWithDesc output must be accepted by protobuf-go as the same message; both field-name and field-number addressing; every case is non-trivial",
	Gen: func(t *rapid.T) WriteSweepCase {
		var cs WriteSweepCase
		n := rapid.IntRange(1, 3).Draw(t, "nIn")
		for i := 0; i < n; i++ {
			var b int
			switch rapid.IntRange(0, 5).Draw(t, "bodyClass") {
			case 0:
				b = rapid.IntRange(0, 1).Draw(t, "body")
			case 1, 2:
				b = rapid.IntRange(118, 132).Draw(t, "body")
			case 3:
				b = rapid.IntRange(200, 300).Draw(t, "body")
			case 4:
				b = rapid.IntRange(16370, 16390).Draw(t, "body")
			default:
				b = rapid.IntRange(2, 117).Draw(t, "body")
			}
			cs.Bodies = append(cs.Bodies, b)
		}
		cs.Pad0 = rapid.IntRange(0, 20000).Draw(t, "pad0")
		if rapid.Bool().Draw(t, "fromLow") {
			cs.Pad0 = rapid.IntRange(2500, 4200).Draw(t, "pad0low")
		}
		cs.Steps = rapid.IntRange(800, 3000).Draw(t, "steps")
		cs.UseFieldName = rapid.Bool().Draw(t, "useFieldName")
		return cs
	},
	Check: checkWriteSweep,
})

func TestDescWriteSweep(t *testing.T) { pbt.Run(t, WriteSweepProp) }
