package c20

import dproto "github.com/cloudwego/dynamicgo/proto"

func protoEnum(v int32) dproto.EnumNumber { return dproto.EnumNumber(v) }
func protoNum(v int32) dproto.FieldNumber { return dproto.FieldNumber(v) }
func protoWire(v int) dproto.WireType     { return dproto.WireType(v) }
