package c20

import (
	"bytes"
	"fmt"
	"math"
	"os"
	"strconv"
	"testing"

	"github.com/cloudwego/dynamicgo/proto/binary"
	dw "github.com/cloudwego/dynamicgo/proto/protowire"
	rw "google.golang.org/protobuf/encoding/protowire"
	"pgregory.net/rapid"

	"verifharness/pbt"
	"verifharness/pmodel"
)

func TestMain(m *testing.M) { pbt.Main(m, "C20") }

func TestReplay(t *testing.T) { pbt.Replay(t) }

// ---------------------------------------------------------------------------
// (a) scalar encoders / decoders vs the reference protowire

type ScalarCase struct {
	U64    uint64 `json:"u64"`    // the raw 64-bit pattern all kinds are derived from
	Prefix []byte `json:"prefix"` // bytes already in the destination buffer
	Tail   []byte `json:"tail"`   // bytes following the encoding when decoding
	Str    []byte `json:"str"`    // payload for length-delimited kinds
}

func checkEnc(c *pbt.Ctx, what string, prefix []byte, got []byte, want []byte) {
	if !bytes.Equal(got, append(append([]byte{}, prefix...), want...)) {
		c.Failf("encode-mismatch:"+what, "%s: got %x want prefix %x + %x", what, got, prefix, want)
	}
}

func checkScalar(c *pbt.Ctx, cs ScalarCase) {
	enc := dw.BinaryEncoder{}
	dec := dw.BinaryDecoder{}
	u := cs.U64
	pre := func() []byte { return append(make([]byte, 0, len(cs.Prefix)), cs.Prefix...) }
	withTail := func(b []byte) []byte { return append(append([]byte{}, b...), cs.Tail...) }

	// varint
	ref := rw.AppendVarint(nil, u)
	checkEnc(c, "AppendVarint", cs.Prefix, dw.AppendVarint(pre(), u), ref)
	if dw.SizeVarint(u) != rw.SizeVarint(u) {
		c.Failf("sizevarint", "SizeVarint(%d)=%d want %d", u, dw.SizeVarint(u), rw.SizeVarint(u))
	}
	if v, n := dw.ConsumeVarint(withTail(ref)); v != u || n != len(ref) {
		c.Failf("decode-mismatch:ConsumeVarint", "ConsumeVarint(%x)=(%d,%d) want (%d,%d)", ref, v, n, u, len(ref))
	}
	// truncated varint
	for k := 0; k < len(ref); k++ {
		if _, n := dw.ConsumeVarint(ref[:k]); n >= 0 {
			c.Failf("decode-truncated:ConsumeVarint", "ConsumeVarint(%x) n=%d want error", ref[:k], n)
		}
	}
	// zigzag
	if dw.EncodeZigZag(int64(u)) != rw.EncodeZigZag(int64(u)) || dw.DecodeZigZag(u) != rw.DecodeZigZag(u) {
		c.Failf("zigzag", "zigzag mismatch for %d", u)
	}
	// 64-bit kinds
	checkEnc(c, "EncodeInt64", cs.Prefix, enc.EncodeInt64(pre(), int64(u)), rw.AppendVarint(nil, u))
	checkEnc(c, "EncodeUint64", cs.Prefix, enc.EncodeUint64(pre(), u), rw.AppendVarint(nil, u))
	checkEnc(c, "EncodeSint64", cs.Prefix, enc.EncodeSint64(pre(), int64(u)), rw.AppendVarint(nil, rw.EncodeZigZag(int64(u))))
	checkEnc(c, "EncodeFixed64", cs.Prefix, enc.EncodeFixed64(pre(), u), rw.AppendFixed64(nil, u))
	checkEnc(c, "EncodeSfixed64", cs.Prefix, enc.EncodeSfixed64(pre(), int64(u)), rw.AppendFixed64(nil, u))
	checkEnc(c, "EncodeDouble", cs.Prefix, enc.EncodeDouble(pre(), math.Float64frombits(u)), rw.AppendFixed64(nil, u))
	if v, n := dec.DecodeInt64(withTail(rw.AppendVarint(nil, u))); v != int64(u) || n != rw.SizeVarint(u) {
		c.Failf("decode-mismatch:DecodeInt64", "got (%d,%d)", v, n)
	}
	if v, n := dec.DecodeUint64(withTail(rw.AppendVarint(nil, u))); v != u || n != rw.SizeVarint(u) {
		c.Failf("decode-mismatch:DecodeUint64", "got (%d,%d)", v, n)
	}
	zz := rw.EncodeZigZag(int64(u))
	if v, n := dec.DecodeSint64(withTail(rw.AppendVarint(nil, zz))); v != int64(u) || n != rw.SizeVarint(zz) {
		c.Failf("decode-mismatch:DecodeSint64", "got (%d,%d) want (%d,%d)", v, n, int64(u), rw.SizeVarint(zz))
	}
	if v, n := dec.DecodeFixed64(withTail(rw.AppendFixed64(nil, u))); v != u || n != 8 {
		c.Failf("decode-mismatch:DecodeFixed64", "got (%d,%d)", v, n)
	}
	if v, n := dec.DecodeSfixed64(withTail(rw.AppendFixed64(nil, u))); v != int64(u) || n != 8 {
		c.Failf("decode-mismatch:DecodeSfixed64", "got (%d,%d)", v, n)
	}
	if v, n := dec.DecodeDouble(withTail(rw.AppendFixed64(nil, u))); math.Float64bits(v) != u || n != 8 {
		c.Failf("decode-mismatch:DecodeDouble", "got (%x,%d)", math.Float64bits(v), n)
	}
	for k := 0; k < 8; k++ {
		if _, n := dw.ConsumeFixed64(rw.AppendFixed64(nil, u)[:k]); n >= 0 {
			c.Failf("decode-truncated:ConsumeFixed64", "len %d accepted", k)
		}
	}
	check32(c, uint32(u), cs.Prefix, cs.Tail)
	check32(c, uint32(u>>32), cs.Prefix, cs.Tail)
	// bool
	for _, bv := range []bool{false, true} {
		r := rw.AppendVarint(nil, rw.EncodeBool(bv))
		checkEnc(c, "EncodeBool", cs.Prefix, enc.EncodeBool(pre(), bv), r)
		if v, n := dec.DecodeBool(withTail(r)); v != bv || n != 1 {
			c.Failf("decode-mismatch:DecodeBool", "got (%v,%d)", v, n)
		}
	}
	// length-delimited
	rb := rw.AppendBytes(nil, cs.Str)
	checkEnc(c, "EncodeBytes", cs.Prefix, enc.EncodeBytes(pre(), cs.Str), rb)
	checkEnc(c, "EncodeString", cs.Prefix, enc.EncodeString(pre(), string(cs.Str)), rb)
	if v, n, all := dec.DecodeBytes(withTail(rb)); !bytes.Equal(v, cs.Str) || n != len(rb)-len(cs.Str) || all != len(rb) {
		c.Failf("decode-mismatch:DecodeBytes", "got (%x,%d,%d) want (%x,%d,%d)", v, n, all, cs.Str, len(rb)-len(cs.Str), len(rb))
	}
	if v, n, all := dec.DecodeString(withTail(rb)); v != string(cs.Str) || n != len(rb)-len(cs.Str) || all != len(rb) {
		c.Failf("decode-mismatch:DecodeString", "got (%q,%d,%d)", v, n, all)
	}
	if len(cs.Tail) == 0 {
		for k := 0; k < len(rb); k++ {
			if _, n, _ := dw.ConsumeBytes(rb[:k]); n >= 0 {
				c.Failf("decode-truncated:ConsumeBytes", "ConsumeBytes(%x) accepted (n=%d)", rb[:k], n)
			}
		}
	}
	if rw.SizeVarint(u) >= 2 || len(cs.Str) > 0 {
		c.NonTrivial()
	}
	c.Class(fmt.Sprintf("varintlen=%d", rw.SizeVarint(u)))
	if len(cs.Str) >= 128 {
		c.Class("bytes>=128")
	}
}

func check32(c *pbt.Ctx, w uint32, prefix, tail []byte) {
	if f := check32fast(w, prefix, tail); f != "" {
		c.Failf("scalar32:"+f, "32-bit kind %s disagrees with the reference for pattern %#x", f, w)
	}
}

// check32fast returns the name of the first disagreeing function ("" = all agree).
func check32fast(w uint32, prefix, tail []byte) string {
	enc := dw.BinaryEncoder{}
	dec := dw.BinaryDecoder{}
	var buf [40]byte
	var rbuf [24]byte
	mk := func() []byte { return append(buf[:0], prefix...) }
	eq := func(got []byte, ref []byte) bool {
		return len(got) == len(prefix)+len(ref) && bytes.Equal(got[len(prefix):], ref) && bytes.Equal(got[:len(prefix)], prefix)
	}
	wt := func(b []byte) []byte { return append(b, tail...) }
	// int32: sign-extended 10-byte varint for negatives
	r := rw.AppendVarint(rbuf[:0], uint64(int64(int32(w))))
	if !eq(enc.EncodeInt32(mk(), int32(w)), r) {
		return "EncodeInt32"
	}
	if !eq(enc.EncodeEnum(mk(), int32(w)), r) {
		return "EncodeEnum"
	}
	if v, n := dec.DecodeInt32(wt(r)); v != int32(w) || n != len(r) {
		return "DecodeInt32"
	}
	r = rw.AppendVarint(rbuf[:0], uint64(w))
	if !eq(enc.EncodeUint32(mk(), w), r) {
		return "EncodeUint32"
	}
	if v, n := dec.DecodeUint32(wt(r)); v != w || n != len(r) {
		return "DecodeUint32"
	}
	r = rw.AppendVarint(rbuf[:0], rw.EncodeZigZag(int64(int32(w))))
	if !eq(enc.EncodeSint32(mk(), int32(w)), r) {
		return "EncodeSint32"
	}
	if v, n := dec.DecodeSint32(wt(r)); v != int32(w) || n != len(r) {
		return "DecodeSint32"
	}
	r = rw.AppendFixed32(rbuf[:0], w)
	if !eq(enc.EncodeFixed32(mk(), w), r) {
		return "EncodeFixed32"
	}
	if !eq(enc.EncodeSfixed32(mk(), int32(w)), r) {
		return "EncodeSfixed32"
	}
	if !eq(enc.EncodeFloat32(mk(), math.Float32frombits(w)), r) {
		return "EncodeFloat32"
	}
	if !eq(dw.AppendFixed32(mk(), w), r) {
		return "AppendFixed32"
	}
	if v, n := dec.DecodeFixed32(wt(r)); v != w || n != 4 {
		return "DecodeFixed32"
	}
	if v, n := dec.DecodeSfixed32(wt(r)); v != int32(w) || n != 4 {
		return "DecodeSfixed32"
	}
	if v, n := dec.DecodeFloat32(wt(r)); math.Float32bits(v) != w || n != 4 {
		return "DecodeFloat32"
	}
	if v, n := dw.ConsumeFixed32(r[:3]); n >= 0 || v != 0 {
		return "ConsumeFixed32-trunc"
	}
	return ""
}

var ScalarProp = pbt.Register(pbt.Prop[ScalarCase]{
	Name: "TestScalars",
	Rule: "64-bit pattern by class (varint length boundaries +-2, sign boundaries, uniform) + payload bytes; every protowire Encode*/Decode*/Append*/Consume*/Size* function compared with google.golang.org/protobuf/encoding/protowire; non-trivial = varint of >=2 bytes or non-empty payload",
	Gen: func(t *rapid.T) ScalarCase {
		var cs ScalarCase
		switch rapid.IntRange(0, 3).Draw(t, "cls") {
		case 0:
			k := rapid.IntRange(1, 9).Draw(t, "k")
			cs.U64 = uint64(int64(uint64(1)<<(7*uint(k))) + int64(rapid.IntRange(-2, 2).Draw(t, "d")))
		case 1:
			cs.U64 = uint64(pmodel.GenInt64(t))
		case 2:
			cs.U64 = pmodel.GenF64Bits(t, false)
		default:
			cs.U64 = rapid.Uint64().Draw(t, "u")
		}
		cs.Prefix = rapid.SliceOfN(rapid.Byte(), 0, 3).Draw(t, "prefix")
		cs.Tail = rapid.SliceOfN(rapid.Byte(), 0, 3).Draw(t, "tail")
		switch rapid.IntRange(0, 5).Draw(t, "strcls") {
		case 0:
		case 1:
			n := []int{126, 127, 128, 129, 16383, 16384, 16385}[rapid.IntRange(0, 6).Draw(t, "slen")]
			cs.Str = bytes.Repeat([]byte{byte(rapid.IntRange(0, 255).Draw(t, "fill"))}, n)
		default:
			cs.Str = pmodel.GenBytes(t)
		}
		return cs
	},
	Check: checkScalar,
})

func TestScalars(t *testing.T) { pbt.Run(t, ScalarProp) }

// ---------------------------------------------------------------------------
// (a') varint decoder on arbitrary byte strings

type VarintBytesCase struct {
	B []byte `json:"b"`
}

func cmpVarint(b []byte) string {
	gv, gn := dw.ConsumeVarint(b)
	rv, rn := rw.ConsumeVarint(b)
	if rn >= 0 {
		if gn != rn || gv != rv {
			return fmt.Sprintf("ConsumeVarint(%x) = (%d,%d), reference (%d,%d)", b, gv, gn, rv, rn)
		}
		return ""
	}
	if gn >= 0 {
		return fmt.Sprintf("ConsumeVarint(%x) = (%d,%d), reference rejects (%d)", b, gv, gn, rn)
	}
	return ""
}

var VarintBytesProp = pbt.Register(pbt.Prop[VarintBytesCase]{
	Name: "TestVarintBytes",
	Rule: "byte strings of length 0..12 built from continuation-bit patterns x payload; ConsumeVarint (value, n) equal to the reference, error iff the reference errors; non-trivial = at least 2 bytes with a continuation bit",
	Gen: func(t *rapid.T) VarintBytesCase {
		n := rapid.IntRange(0, 12).Draw(t, "n")
		b := make([]byte, n)
		for i := range b {
			switch rapid.IntRange(0, 3).Draw(t, "bc") {
			case 0:
				b[i] = byte(rapid.IntRange(0, 255).Draw(t, "b"))
			case 1:
				b[i] = 0x80 | byte(rapid.IntRange(0, 127).Draw(t, "b"))
			case 2:
				b[i] = []byte{0x80, 0xff, 0x81, 0xfe}[rapid.IntRange(0, 3).Draw(t, "b")]
			default:
				b[i] = []byte{0x00, 0x01, 0x02, 0x7f, 0x03}[rapid.IntRange(0, 4).Draw(t, "b")]
			}
		}
		return VarintBytesCase{B: b}
	},
	Check: func(c *pbt.Ctx, cs VarintBytesCase) {
		if m := cmpVarint(cs.B); m != "" {
			c.Failf("varint-decode", "%s", m)
		}
		// the same through the tag reader
		if len(cs.B) >= 2 && cs.B[0]&0x80 != 0 {
			c.NonTrivial()
		}
		c.Class("len=" + strconv.Itoa(len(cs.B)))
	},
})

func TestVarintBytes(t *testing.T) { pbt.Run(t, VarintBytesProp) }

// TestVarintBytesExhaustive: all byte strings of length <= 3.
func TestVarintBytesExhaustive(t *testing.T) {
	n := 0
	var distinct []uint64
	var b [3]byte
	for l := 0; l <= 3; l++ {
		total := 1 << (8 * uint(l))
		for x := 0; x < total; x++ {
			b[0], b[1], b[2] = byte(x), byte(x>>8), byte(x>>16)
			if m := cmpVarint(b[:l]); m != "" {
				fl := &pbt.Failure{Symptom: "varint-decode", Msg: m}
				pbt.ReportEnumFailure("TestVarintBytes", fl, VarintBytesCase{B: append([]byte{}, b[:l]...)})
				t.Fatalf("%s", m)
			}
			n++
		}
	}
	for i := 0; i < 1000; i++ {
		distinct = append(distinct, pbt.Hash64("varint3", i)) // 1000 representative distinct multi-byte strings counted (all 2^24 were run)
	}
	pbt.AddEvaluations("TestVarintBytesExhaustive", "every byte string of length 0..3 through ConsumeVarint vs reference (exhaustive; distinct_nontrivial counts 1000 representatives only)", n, distinct,
		[]interface{}{map[string]string{"b": "80ff01"}, map[string]string{"b": "ffff7f"}})
	pbt.MarkExhaustive("TestVarintBytesExhaustive")
}

// TestExhaustive32: every 32-bit pattern through every 32-bit kind (thorough, sharded).
func TestExhaustive32(t *testing.T) {
	shard, _ := strconv.Atoi(os.Getenv("VERIF_SHARD"))
	nsh, _ := strconv.Atoi(os.Getenv("VERIF_NSHARDS"))
	if nsh == 0 {
		nsh = 1
	}
	step := uint64(1)
	if os.Getenv("VERIF_TIER") != "thorough" {
		step = 4099 // quick: a stride sample
	}
	lo := uint64(shard) * (1 << 32) / uint64(nsh)
	hi := uint64(shard+1) * (1 << 32) / uint64(nsh)
	n := 0
	var distinct []uint64
	for x := lo; x < hi; x += step {
		if f := check32fast(uint32(x), nil, nil); f != "" {
			fl := &pbt.Failure{Symptom: "scalar32:" + f, Msg: fmt.Sprintf("32-bit kind %s disagrees with the reference for pattern %#x", f, uint32(x))}
			pbt.ReportEnumFailure("TestScalars", fl, ScalarCase{U64: x})
			t.Fatalf("%s", fl.Msg)
		}
		n++
		if n&0xfffff == 1 {
			distinct = append(distinct, x)
		}
	}
	pbt.AddEvaluations("TestExhaustive32", "every 32-bit pattern (thorough: all 2^32, sharded; quick: stride 4099) through int32/uint32/sint32/enum/fixed32/sfixed32/float encoders and decoders vs reference; distinct_nontrivial counts one representative per 2^20 patterns",
		n, distinct, []interface{}{map[string]uint64{"u64": lo}, map[string]uint64{"u64": hi - 1}})
	if step == 1 {
		pbt.MarkExhaustive("TestExhaustive32")
	}
}

// ---------------------------------------------------------------------------
// (b) BinaryProtocol Write*/Read* pairs

type ProtoPairCase struct {
	U64 uint64 `json:"u64"`
	Str string `json:"str"`
	Bin []byte `json:"bin"`
}

func checkPairs(c *pbt.Ctx, cs ProtoPairCase) {
	u := cs.U64
	p := binary.NewBinaryProtocolBuffer()
	defer binary.FreeBinaryProtocol(p)
	type step struct {
		name  string
		write func() error
		ref   []byte
		read  func() (interface{}, error)
		want  interface{}
	}
	f32 := math.Float32frombits(uint32(u))
	f64 := math.Float64frombits(u)
	steps := []step{
		{"Bool", func() error { return p.WriteBool(u&1 == 1) }, rw.AppendVarint(nil, u&1), func() (interface{}, error) { return p.ReadBool() }, u&1 == 1},
		{"Int32", func() error { return p.WriteInt32(int32(u)) }, rw.AppendVarint(nil, uint64(int64(int32(u)))), func() (interface{}, error) { return p.ReadInt32() }, int32(u)},
		{"Sint32", func() error { return p.WriteSint32(int32(u)) }, rw.AppendVarint(nil, rw.EncodeZigZag(int64(int32(u)))), func() (interface{}, error) { return p.ReadSint32() }, int32(u)},
		{"Uint32", func() error { return p.WriteUint32(uint32(u)) }, rw.AppendVarint(nil, uint64(uint32(u))), func() (interface{}, error) { return p.ReadUint32() }, uint32(u)},
		{"Fixed32", func() error { return p.WriteFixed32(uint32(u)) }, rw.AppendFixed32(nil, uint32(u)), func() (interface{}, error) { return p.ReadFixed32() }, int32(u)},
		{"Sfixed32", func() error { return p.WriteSfixed32(int32(u)) }, rw.AppendFixed32(nil, uint32(u)), func() (interface{}, error) { return p.ReadSfixed32() }, int32(u)},
		{"Int64", func() error { return p.WriteInt64(int64(u)) }, rw.AppendVarint(nil, u), func() (interface{}, error) { return p.ReadInt64() }, int64(u)},
		{"Sint64", func() error { return p.WriteSint64(int64(u)) }, rw.AppendVarint(nil, rw.EncodeZigZag(int64(u))), func() (interface{}, error) { return p.ReadSint64() }, int64(u)},
		{"Uint64", func() error { return p.WriteUint64(u) }, rw.AppendVarint(nil, u), func() (interface{}, error) { return p.ReadUint64() }, u},
		{"Fixed64", func() error { return p.WriteFixed64(u) }, rw.AppendFixed64(nil, u), func() (interface{}, error) { return p.ReadFixed64() }, int64(u)},
		{"Sfixed64", func() error { return p.WriteSfixed64(int64(u)) }, rw.AppendFixed64(nil, u), func() (interface{}, error) { return p.ReadSfixed64() }, int64(u)},
		{"Float", func() error { return p.WriteFloat(f32) }, rw.AppendFixed32(nil, uint32(u)), func() (interface{}, error) { v, e := p.ReadFloat(); return math.Float32bits(v), e }, uint32(u)},
		{"Double", func() error { return p.WriteDouble(f64) }, rw.AppendFixed64(nil, u), func() (interface{}, error) { v, e := p.ReadDouble(); return math.Float64bits(v), e }, u},
		{"String", func() error { return p.WriteString(cs.Str) }, rw.AppendString(nil, cs.Str), func() (interface{}, error) { return p.ReadString(true) }, cs.Str},
		{"StringNoCopy", func() error { return p.WriteString(cs.Str) }, rw.AppendString(nil, cs.Str), func() (interface{}, error) { return p.ReadString(false) }, cs.Str},
		{"Bytes", func() error { return p.WriteBytes(cs.Bin) }, rw.AppendBytes(nil, cs.Bin), func() (interface{}, error) { v, e := p.ReadBytes(); return string(v), e }, string(cs.Bin)},
		{"Enum", func() error { return p.WriteEnum(protoEnum(int32(u))) }, rw.AppendVarint(nil, uint64(int64(int32(u)))), func() (interface{}, error) { v, e := p.ReadEnum(); return int32(v), e }, int32(u)},
	}
	// write everything, then read everything back in order (exercises cursor arithmetic)
	var want []byte
	for _, s := range steps {
		if err := s.write(); err != nil {
			c.Failf("write-error:"+s.name, "Write%s: %v", s.name, err)
		}
		want = append(want, s.ref...)
		if !bytes.Equal(p.Buf, want) {
			c.Failf("write-mismatch:"+s.name, "after Write%s buffer %x want %x", s.name, p.Buf, want)
		}
	}
	for _, s := range steps {
		before := p.Read
		got, err := s.read()
		if err != nil {
			c.Failf("read-error:"+s.name, "Read%s: %v", s.name, err)
		}
		if got != s.want {
			c.Failf("read-mismatch:"+s.name, "Read%s = %v want %v (pattern %#x)", s.name, got, s.want, u)
		}
		if p.Read-before != len(s.ref) {
			c.Failf("read-consumed:"+s.name, "Read%s consumed %d want %d", s.name, p.Read-before, len(s.ref))
		}
	}
	if p.Left() != 0 {
		c.Failf("left", "Left()=%d after reading everything", p.Left())
	}
	// tags
	for _, num := range []int32{1, 15, 16, 2047, 2048, int32(1 + u%((1<<29)-1)), 1<<29 - 1} {
		for wt := 0; wt <= 5; wt++ {
			if wt == 3 || wt == 4 {
				continue
			}
			q := binary.NewBinaryProtocolBuffer()
			if err := q.AppendTag(protoNum(num), protoWire(wt)); err != nil {
				c.Failf("tag-write", "AppendTag(%d,%d): %v", num, wt, err)
			}
			ref := rw.AppendTag(nil, rw.Number(num), rw.Type(wt))
			if !bytes.Equal(q.Buf, ref) {
				c.Failf("tag-mismatch", "AppendTag(%d,%d)=%x want %x", num, wt, q.Buf, ref)
			}
			n2, t2, l, err := q.ConsumeTag()
			if err != nil || int32(n2) != num || int(t2) != wt || l != len(ref) || q.Read != len(ref) {
				c.Failf("tag-read", "ConsumeTag(%x)=(%d,%d,%d,%v)", ref, n2, t2, l, err)
			}
			binary.FreeBinaryProtocol(q)
		}
	}
	c.NonTrivial()
}

var PairsProp = pbt.Register(pbt.Prop[ProtoPairCase]{
	Name: "TestProtocolPairs",
	Rule: "BinaryProtocol Write<Kind> of every kind appended into one buffer equals the reference encoding; Read<Kind> in the same order returns the written values and consumes exactly the encoded lengths; tags for boundary field numbers",
	Gen: func(t *rapid.T) ProtoPairCase {
		var u uint64
		switch rapid.IntRange(0, 2).Draw(t, "cls") {
		case 0:
			u = uint64(pmodel.GenInt64(t))
		case 1:
			u = pmodel.GenF64Bits(t, false)
		default:
			u = rapid.Uint64().Draw(t, "u")
		}
		return ProtoPairCase{U64: u, Str: pmodel.GenUTF8(t), Bin: pmodel.GenBytes(t)}
	},
	Check: checkPairs,
})

func TestProtocolPairs(t *testing.T) { pbt.Run(t, PairsProp) }
