package c08

import (
	"bytes"
	"context"
	"encoding/base64"
	"fmt"
	"math"
	"math/big"
	"testing"

	"github.com/cloudwego/dynamicgo/conv"
	"github.com/cloudwego/dynamicgo/conv/p2j"
	"github.com/cloudwego/dynamicgo/meta"
	"google.golang.org/protobuf/reflect/protoreflect"
	"pgregory.net/rapid"

	"verifharness/jmodel"
	"verifharness/pbt"
	"verifharness/pmodel"
)

func TestMain(m *testing.M)   { pbt.Main(m, "C08") }
func TestReplay(t *testing.T) { pbt.Replay(t) }

type Case struct {
	Schema    pmodel.Schema `json:"schema"`
	Msg       []byte        `json:"msg"`     // reference encoding
	Unknown   uint64        `json:"unknown"` // != 0: inject unknown fields with this seed
	Int642Str bool          `json:"int64_to_string"`
	Disallow  bool          `json:"disallow_unknown"`
	IntoBuf   bool          `json:"into_buf"`
	BufCap    int           `json:"buf_cap"`
}

type cmpEnv struct {
	c   *pbt.Ctx
	cs  Case
	out []byte
}

func (e *cmpEnv) failf(region, sym string, format string, a ...interface{}) bool {
	msg := fmt.Sprintf(format, a...)
	o := e.out
	if len(o) > 600 {
		o = o[:600]
	}
	return e.c.Fail(region, sym, "%s\n json %s", msg, o)
}

func is64(fd protoreflect.FieldDescriptor) bool {
	switch fd.Kind() {
	case protoreflect.Int64Kind, protoreflect.Sint64Kind, protoreflect.Sfixed64Kind, protoreflect.Uint64Kind, protoreflect.Fixed64Kind:
		return true
	}
	return false
}

// regionOf names the known-finding region for a scalar of the given kind and value.
func regionOf(fd protoreflect.FieldDescriptor, v protoreflect.Value) string {
	switch fd.Kind() {
	case protoreflect.FloatKind, protoreflect.DoubleKind:
		f := v.Float()
		if math.IsNaN(f) || math.IsInf(f, 0) {
			return "non-finite-float"
		}
	case protoreflect.Fixed32Kind:
		if v.Uint() >= 1<<31 {
			return "unsigned>=2^31-or-2^63"
		}
	case protoreflect.Uint64Kind, protoreflect.Fixed64Kind:
		if v.Uint() >= 1<<63 {
			return "unsigned>=2^31-or-2^63"
		}
	}
	return ""
}

func (e *cmpEnv) scalar(path string, fd protoreflect.FieldDescriptor, want protoreflect.Value, got *jmodel.Node) {
	reg := regionOf(fd, want)
	switch fd.Kind() {
	case protoreflect.BoolKind:
		if got.K != jmodel.Bool || got.B != want.Bool() {
			e.failf(reg, "wrong-value:bool", "%s: got %s want %v", path, got, want.Bool())
		}
	case protoreflect.StringKind:
		if got.K != jmodel.Str || got.Str != want.String() {
			e.failf(reg, "wrong-value:string", "%s: got %s want %q", path, got, want.String())
		}
	case protoreflect.BytesKind:
		exp := base64.StdEncoding.EncodeToString(want.Bytes())
		if got.K != jmodel.Str || got.Str != exp {
			e.failf(reg, "wrong-value:bytes", "%s: got %s want base64 %q", path, got, exp)
		}
	case protoreflect.FloatKind, protoreflect.DoubleKind:
		f := want.Float()
		if math.IsNaN(f) || math.IsInf(f, 0) {
			e.failf(reg, "non-finite-in-json", "%s: a non-finite float cannot be denoted by JSON, yet the conversion succeeded with %s", path, got)
			return
		}
		g, ok := got.Float()
		if fd.Kind() == protoreflect.FloatKind {
			// the float32 value, printed as a float64 or as a float32: both parse back to the same float32
			if !ok || float32(g) != float32(f) || math.Signbit(g) != math.Signbit(f) && g != 0 {
				e.failf(reg, "wrong-value:float", "%s: got %s want %v", path, got, f)
			}
		} else if !ok || g != f {
			e.failf(reg, "wrong-value:double", "%s: got %s want %v", path, got, f)
		}
	default:
		var exp *big.Int
		switch fd.Kind() {
		case protoreflect.EnumKind:
			exp = big.NewInt(int64(want.Enum()))
		case protoreflect.Uint32Kind, protoreflect.Fixed32Kind, protoreflect.Uint64Kind, protoreflect.Fixed64Kind:
			exp = new(big.Int).SetUint64(want.Uint())
		default:
			exp = big.NewInt(want.Int())
		}
		g, ok := got.Int(e.cs.Int642Str && is64(fd))
		if !ok || g.Cmp(exp) != 0 {
			e.failf(reg, "wrong-value:int", "%s (%s): got %s want %s", path, fd.Kind(), got, exp)
		}
	}
}

func keyString(k protoreflect.MapKey, kd protoreflect.FieldDescriptor) string {
	switch kd.Kind() {
	case protoreflect.StringKind:
		return k.String()
	case protoreflect.BoolKind:
		if k.Bool() {
			return "true"
		}
		return "false"
	case protoreflect.Uint32Kind, protoreflect.Fixed32Kind, protoreflect.Uint64Kind, protoreflect.Fixed64Kind:
		return fmt.Sprint(k.Uint())
	}
	return fmt.Sprint(k.Int())
}

func (e *cmpEnv) value(path string, fd protoreflect.FieldDescriptor, want protoreflect.Value, got *jmodel.Node) {
	switch {
	case fd.IsMap():
		mp := want.Map()
		if got.K != jmodel.Obj || len(got.Keys) != mp.Len() {
			e.failf("", "wrong-map", "%s: got %s, reference map has %d entries", path, got, mp.Len())
			return
		}
		mp.Range(func(k protoreflect.MapKey, v protoreflect.Value) bool {
			ks := keyString(k, fd.MapKey())
			g := got.Get(ks)
			if g == nil {
				e.failf("", "wrong-map-key", "%s: key %q missing (keys %q)", path, ks, got.Keys)
				return false
			}
			if fd.MapValue().Kind() == protoreflect.MessageKind {
				e.message(path+"{"+ks+"}", v.Message(), g)
			} else {
				e.scalar(path+"{"+ks+"}", fd.MapValue(), v, g)
			}
			return true
		})
	case fd.IsList():
		l := want.List()
		if got.K != jmodel.Arr || len(got.Elems) != l.Len() {
			e.failf("", "wrong-list", "%s: got %s, reference list has %d elements", path, got, l.Len())
			return
		}
		for i := 0; i < l.Len(); i++ {
			if fd.Kind() == protoreflect.MessageKind {
				e.message(fmt.Sprintf("%s[%d]", path, i), l.Get(i).Message(), got.Elems[i])
			} else {
				e.scalar(fmt.Sprintf("%s[%d]", path, i), fd, l.Get(i), got.Elems[i])
			}
		}
	case fd.Kind() == protoreflect.MessageKind:
		e.message(path, want.Message(), got)
	default:
		e.scalar(path, fd, want, got)
	}
}

func (e *cmpEnv) message(path string, want protoreflect.Message, got *jmodel.Node) {
	if got.K != jmodel.Obj {
		e.failf("", "wrong-kind", "%s: got %s want an object", path, got)
		return
	}
	n := 0
	want.Range(func(fd protoreflect.FieldDescriptor, v protoreflect.Value) bool {
		n++
		g := got.Get(fd.JSONName())
		if g == nil {
			e.failf("", "missing-member", "%s: member %q (field %d) missing; members %q", path, fd.JSONName(), fd.Number(), got.Keys)
			return false
		}
		e.value(path+"."+fd.JSONName(), fd, v, g)
		return true
	})
	if len(got.Keys) != n {
		// members for fields that are not set in the reference view: explicit defaults are not produced by the reference encoder
		e.failf("", "extra-member", "%s: %d members %q, reference has %d present fields", path, len(got.Keys), got.Keys, n)
	}
}

func hasNonFinite(m protoreflect.Message) bool {
	found := false
	var walk func(m protoreflect.Message)
	chk := func(fd protoreflect.FieldDescriptor, v protoreflect.Value) {
		if fd.Kind() == protoreflect.FloatKind || fd.Kind() == protoreflect.DoubleKind {
			if f := v.Float(); math.IsNaN(f) || math.IsInf(f, 0) {
				found = true
			}
		}
	}
	walk = func(m protoreflect.Message) {
		m.Range(func(fd protoreflect.FieldDescriptor, v protoreflect.Value) bool {
			switch {
			case fd.IsMap():
				v.Map().Range(func(_ protoreflect.MapKey, e protoreflect.Value) bool {
					if fd.MapValue().Kind() == protoreflect.MessageKind {
						walk(e.Message())
					} else {
						chk(fd.MapValue(), e)
					}
					return true
				})
			case fd.IsList():
				for i := 0; i < v.List().Len(); i++ {
					if fd.Kind() == protoreflect.MessageKind {
						walk(v.List().Get(i).Message())
					} else {
						chk(fd, v.List().Get(i))
					}
				}
			case fd.Kind() == protoreflect.MessageKind:
				walk(v.Message())
			default:
				chk(fd, v)
			}
			return true
		})
	}
	walk(m)
	return found
}

func check(c *pbt.Ctx, cs Case) {
	comp, err := pmodel.Compile(cs.Schema.Render(), cs.Schema.Main)
	if err != nil {
		c.Failf("harness-schema", "generated schema rejected by the reference: %v", err)
	}
	if comp.SvcErr != nil {
		c.Failf("idl-error", "dynamicgo rejects the schema: %v", comp.SvcErr)
	}
	md := comp.Msg("pkg.Root")
	in := cs.Msg
	if cs.Unknown != 0 {
		in = pmodel.InjectUnknown(md, cs.Msg, cs.Unknown)
		c.Class("unknown-fields-injected")
	}
	ref, err := pmodel.Unmarshal(md, in)
	if err != nil {
		c.Failf("harness-msg", "reference cannot decode the input: %v", err)
	}
	hasUnknown := len(in) != len(cs.Msg)
	desc := comp.Svc.LookupMethodByName("Call").Input()
	cv := p2j.NewBinaryConv(conv.Options{Int642String: cs.Int642Str, DisallowUnknownField: cs.Disallow})
	src := append(make([]byte, 0, len(in)+16), in...)
	var out []byte
	if cs.Unknown&3 == 3 && len(in) > 2 {
		// a conversion of a truncated message first: what it leaves behind in pooled state must not matter
		c.Step("p2j of a truncated message first")
		c.Protect("", func() {
			_, _ = cv.Do(context.Background(), desc, append(make([]byte, 0, len(in)+16), in[:len(in)/2]...))
		})
		c.Class("after-rejected-conversion")
	}
	c.Step("p2j")
	if cs.IntoBuf {
		buf := make([]byte, 0, cs.BufCap)
		err = cv.DoInto(context.Background(), desc, src, &buf)
		out = buf
	} else {
		out, err = cv.Do(context.Background(), desc, src)
	}
	c.Class(fmt.Sprintf("opts:i2s=%v,disallow=%v,into=%v", cs.Int642Str, cs.Disallow, cs.IntoBuf))
	if cs.Disallow && hasUnknown {
		c.Class("disallowed-unknown")
		if err == nil {
			c.Failf("missing-error", "unknown field present with DisallowUnknownField but the conversion succeeded: %s", out)
		}
		if me, ok := err.(meta.Error); (!ok || me.Code.Behavior() != meta.ErrUnknownField) && !hasNonFinite(ref) {
			c.Failf("wrong-error-class", "unknown field with DisallowUnknownField: error is not ErrUnknownField: %v", err)
		}
		return
	}
	nonFinite := hasNonFinite(ref)
	if err != nil {
		// "either fails with an error or ...": an error is always allowed by the statement; for inputs that
		// JSON can denote we still expect success (a converter that always fails would be useless)
		if nonFinite {
			c.Class("non-finite-rejected")
			return
		}
		c.Failf("unexpected-error", "conversion of a convertible message failed: %v", err)
	}
	e := &cmpEnv{c: c, cs: cs, out: out}
	node, perr := jmodel.Parse(out)
	if perr != nil {
		reg := ""
		if nonFinite {
			reg = "non-finite-float"
		}
		e.failf(reg, "malformed-json", "output is not valid JSON (nil error): %v", perr)
		return
	}
	e.message("$", ref, node)

	// the document stays intact while the converter converts a message of the same shape with other text
	keep := append([]byte(nil), out...)
	c.Step("a second p2j on another message; the first document must not change")
	other := pmodel.Marshal(pmodel.Zap(ref).Interface())
	c.Protect("", func() { _, _ = cv.Do(context.Background(), desc, append(make([]byte, 0, len(other)+16), other...)) })
	if !bytes.Equal(out, keep) {
		c.Failf("result-overwritten", "the document returned by p2j (%d bytes) changed during a later conversion", len(out))
	}
	if len(out) > 4096 {
		c.Class("document>4096")
	}
	// the same conversion from several goroutines at once on the one converter gives what it gives alone
	if cs.Unknown&7 == 5 || len(cs.Msg)%8 == 3 {
		c.Step("the same p2j conversion from 8 goroutines at once")
		c.Class("concurrent-callers")
		if d := pbt.Concurrently(8, 40, keep, false, func() ([]byte, error) {
			return cv.Do(context.Background(), desc, append(make([]byte, 0, len(in)+16), in...))
		}); d != "" {
			c.Failf("concurrent-differs", "p2j called concurrently on one converter differs from the call alone: %s", d)
		}
	}

	rep, mp, wide := false, false, false
	ref.Range(func(fd protoreflect.FieldDescriptor, v protoreflect.Value) bool {
		if fd.IsList() {
			rep = true
		}
		if fd.IsMap() {
			mp = true
		}
		if is64(fd) || fd.Kind() == protoreflect.Uint32Kind || fd.Kind() == protoreflect.Fixed32Kind {
			wide = true
		}
		return true
	})
	if rep && mp && wide {
		c.NonTrivial()
	}
}

var Prop = pbt.Register(pbt.Prop[Case]{
	Name: "TestProtoToJSON",
	Rule: "generated proto3 schema + reference-encoded message (uint64/fixed64 >= 2^63, fixed32/uint32 >= 2^31, negative int32, non-finite floats, every supported map key kind, empty containers), repeated numeric fields also declared [packed = false], optionally with unknown fields injected at every message level; options Int642String, DisallowUnknownField, Do / DoInto with small buffers, optionally right after a rejected conversion of the truncated message; the returned document must stay intact during a second conversion of a same-shaped message with other text; output must be an error or valid JSON (strict reader: no duplicate members, nothing after the value) keyed by JSON names whose values equal the reference-decoded values (big.Int for integers, ParseFloat for floats, base64 for bytes, stringified map keys); non-trivial = a repeated field, a map field and a 64-bit/unsigned field present",
	Gen: func(t *rapid.T) Case {
		sc := pmodel.GenSchema(t, pmodel.GenOpts{Unpacked: true, JSONNames: true, AllKinds: rapid.IntRange(0, 2).Draw(t, "allKinds") == 0, KeyKinds: pmodel.SupportedKeyKinds})
		comp, err := pmodel.Compile(sc.Render(), sc.Main)
		if err != nil {
			t.Fatalf("generator produced an invalid schema: %v", err)
		}
		m := pmodel.GenMessage(t, comp.Msg("pkg.Root"), pmodel.MsgOpts{MaxDepth: 2, MaxElems: 3, FiniteOnly: rapid.IntRange(0, 3).Draw(t, "finiteOnly") != 0})
		cs := Case{Schema: sc, Msg: pmodel.Marshal(m), Int642Str: rapid.Bool().Draw(t, "int642str"), Disallow: rapid.IntRange(0, 3).Draw(t, "disallow") == 0,
			IntoBuf: rapid.Bool().Draw(t, "intoBuf"), BufCap: []int{0, 1, 7, 64, 4096}[rapid.IntRange(0, 4).Draw(t, "bufCap")]}
		if rapid.Bool().Draw(t, "injectUnknown") {
			cs.Unknown = rapid.Uint64Range(1, math.MaxUint64).Draw(t, "unknownSeed")
		}
		return cs
	},
	Check: check,
})

func TestProtoToJSON(t *testing.T) { pbt.Run(t, Prop) }

// ---------------------------------------------------------------------------
// capacity sweep: the document p2j writes must not depend on the capacity of the caller's buffer

func checkSweep(c *pbt.Ctx, cs Case) {
	comp, err := pmodel.Compile(cs.Schema.Render(), cs.Schema.Main)
	if err != nil || comp.SvcErr != nil {
		c.Failf("harness-schema", "schema rejected: %v %v", err, comp.SvcErr)
	}
	md := comp.Msg("pkg.Root")
	in := cs.Msg
	if cs.Unknown != 0 {
		in = pmodel.InjectUnknown(md, cs.Msg, cs.Unknown)
	}
	desc := comp.Svc.LookupMethodByName("Call").Input()
	cv := p2j.NewBinaryConv(conv.Options{Int642String: cs.Int642Str, DisallowUnknownField: cs.Disallow})
	src := append(make([]byte, 0, len(in)), in...)
	big := make([]byte, 0, 1<<20)
	var err0 error
	if !c.Protect("", func() { err0 = cv.DoInto(context.Background(), desc, src, &big) }) {
		return
	}
	hi := len(big) + 40
	if hi > 2600 {
		hi = 2600
	}
	c.Step("p2j.DoInto with every capacity 0..%d (large-buffer result: %d bytes, err=%v)", hi, len(big), err0)
	for capn := 0; capn <= hi; capn++ {
		buf := make([]byte, 0, capn)
		var e error
		if !c.Protect("", func() { e = cv.DoInto(context.Background(), desc, src, &buf) }) {
			return
		}
		if (e == nil) != (err0 == nil) || (e == nil && !bytes.Equal(buf, big)) {
			if c.Fail("", "capacity-dependent", "p2j.DoInto with capacity %d: err=%v, %d bytes; with a large buffer: err=%v, %d bytes\n%s\nvs\n%s", capn, e, len(buf), err0, len(big), buf, big) {
				return
			}
		}
	}
	if !bytes.Equal(src, in) {
		c.Failf("input-modified", "p2j.DoInto modified its input")
	}
	c.NonTrivial()
	if err0 != nil {
		c.Class("rejected")
	}
}

var SweepProp = pbt.Register(pbt.Prop[Case]{
	Name:  "TestP2JCapacitySweep",
	Rule:  "the schemas, messages and option sets of TestProtoToJSON; p2j.DoInto into caller buffers of every capacity from 0 to the output size + 40 (at most 2600): error-ness and text must equal the conversion into a 1 MiB buffer, no panic; every case is non-trivial",
	Gen:   Prop.Gen,
	Check: checkSweep,
})

func TestP2JCapacitySweep(t *testing.T) { pbt.Run(t, SweepProp) }
