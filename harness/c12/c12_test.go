package c12

import (
	"bytes"
	"context"
	"fmt"
	stdhttp "net/http"
	"runtime/debug"
	"sort"
	"strings"
	"sync"
	"testing"

	"github.com/cloudwego/dynamicgo/conv"
	"github.com/cloudwego/dynamicgo/conv/j2p"
	"github.com/cloudwego/dynamicgo/conv/j2t"
	"github.com/cloudwego/dynamicgo/conv/p2j"
	"github.com/cloudwego/dynamicgo/conv/t2j"
	dhttp "github.com/cloudwego/dynamicgo/http"
	"github.com/cloudwego/dynamicgo/meta"
	dproto "github.com/cloudwego/dynamicgo/proto"
	pgeneric "github.com/cloudwego/dynamicgo/proto/generic"
	"github.com/cloudwego/dynamicgo/thrift"
	"github.com/cloudwego/dynamicgo/thrift/generic"
	"google.golang.org/protobuf/proto"
	"google.golang.org/protobuf/reflect/protoreflect"
	"pgregory.net/rapid"

	"verifharness/jmodel"
	"verifharness/pbt"
	"verifharness/pmodel"
	"verifharness/tjson"
	tm "verifharness/tmodel"
)

func TestMain(m *testing.M)   { pbt.Main(m, "C12") }
func TestReplay(t *testing.T) { pbt.Replay(t) }

// operation kinds
const (
	opT2J = iota
	opJ2T
	opT2JHTTP
	opT2JBad
	opJ2TBad
	opDOM
	opCut
	opGet
	opLookup
	opPRound
	opJ2PBad
	opP2JBad
	opJ2THTTP
	opPGeneric
	opHTTPEmptyBody
	opHTTPRejected
	opHTTPFallbackOK
	opT2JMissingRequired
	opKitexHeaderReuse
	opHTTPSameRequestTwice
	opDOMTemplateCopy
	opGetMany
	opGetManyBad
	nOps
)

var opNames = []string{"t2j", "j2t", "t2j-http", "t2j-truncated", "j2t-malformed", "dom-load-marshal", "cut", "get-by-path", "lookup", "p2j-j2p", "j2p-malformed", "p2j-truncated", "j2t-http", "proto-generic", "http-empty-body", "http-fallback-rejected", "http-fallback-valid", "t2j-missing-required", "t2j-kitex-headers-then-buffer-reuse", "http-same-request-twice", "dom-template-copy", "get-many-shared-options", "get-many-ill-formed-path"}

type Op struct {
	Kind int `json:"k"`
	Arg  int `json:"a"` // truncation point / mutation selector
}

type Case struct {
	U       *tm.Universe  `json:"u"`
	V       *tm.Value     `json:"v"`
	Doc     []byte        `json:"doc"` // JSON document denoting V (members in V's order)
	Schema  pmodel.Schema `json:"schema"`
	Msg     []byte        `json:"msg"`             // reference-encoded proto message
	Threads [][]Op        `json:"threads"`         // one operation list per goroutine
	I2S     bool          `json:"int64_to_string"` // the shared p2j converter is created with Int642String
}

var badJSONForProto = []string{`{"zz_unknown": tru`, `{"zz_unknown":`, `{"zz_unknown":[1,`, `{"zz_unknown":{"a":1},`, `{"zz_unknown":"abc`, `{`, `{"zz_unknown":1,"zz_2":nul}`, `[`}

// a fixed annotated service for the HTTP-mapping histories (requests with an empty body, requests that are
// rejected because a required field has no source, conforming requests right after them, and a response whose
// outer struct lacks a required field while it holds a nested struct)
const httpFixtureIDL = `struct Inner { 1: string A }
struct HReq {
	1: required string Name (api.query = "name")
	2: optional i32 Num (api.header = "num")
	3: Inner In
	4: optional string Bod (api.body = "bod")
}
struct HResp {
	1: required string Must
	2: string Dflt
	3: Inner In
}
struct KResp {
	1: list<string> Tags (api.header = "X-Tags")
	2: string Msg
	3: list<string> More (api.header = "X-More")
	4: string One (api.header = "X-One")
}
service H { HResp Call(1: HReq req), KResp Kitex(1: HReq req) }
`

type httpFixture struct {
	req, resp   *thrift.TypeDescriptor
	plain       j2t.BinaryConv // EnableHttpMapping
	fallback    j2t.BinaryConv // EnableHttpMapping + ReadHttpValueFallback + TracebackRequredOrRootFields
	wantEmpty   []byte         // {1:"n"}
	wantValid   []byte         // {1:"n",2:7}
	respMissing []byte         // {3:{1:"x"}}: required field 1 absent
	kresp       *thrift.TypeDescriptor
	kitex       t2j.BinaryConv // EnableHttpMapping + UseKitexHttpEncoding
	kmsg        []byte         // KResp{Tags:["tag-one"], Msg:"m", More:["a","b"], One:"one"}
	wantBody    []byte         // {1:"n",4:"hello"}
}

func newHTTPFixture() (*httpFixture, error) {
	svc, err := thrift.NewDescritorFromContent(context.Background(), "h.thrift", httpFixtureIDL, nil, false)
	if err != nil {
		return nil, err
	}
	fn := svc.Functions()["Call"]
	str := func(x string) *tm.Value { return &tm.Value{K: tm.STRING, S: []byte(x)} }
	h := &httpFixture{req: fn.Request().Struct().FieldById(1).Type(), resp: fn.Response().Struct().FieldById(0).Type(),
		plain:    j2t.NewBinaryConv(conv.Options{EnableHttpMapping: true}),
		fallback: j2t.NewBinaryConv(conv.Options{EnableHttpMapping: true, ReadHttpValueFallback: true, TracebackRequredOrRootFields: true})}
	h.wantEmpty = tm.Encode(&tm.Value{K: tm.STRUCT, Fields: []tm.FieldVal{{ID: 1, V: str("n")}}})
	h.wantValid = tm.Encode(&tm.Value{K: tm.STRUCT, Fields: []tm.FieldVal{{ID: 1, V: str("n")}, {ID: 2, V: &tm.Value{K: tm.I32, I: 7}}}})
	h.kresp = svc.Functions()["Kitex"].Response().Struct().FieldById(0).Type()
	h.kitex = t2j.NewBinaryConv(conv.Options{EnableHttpMapping: true, UseKitexHttpEncoding: true})
	strs := func(xs ...string) *tm.Value {
		l := &tm.Value{K: tm.LIST, ET: tm.STRING}
		for _, x := range xs {
			l.Elems = append(l.Elems, str(x))
		}
		return l
	}
	h.kmsg = tm.Encode(&tm.Value{K: tm.STRUCT, Fields: []tm.FieldVal{{ID: 1, V: strs("tag-one")}, {ID: 2, V: str("m")}, {ID: 3, V: strs("a", "b")}, {ID: 4, V: str("one")}}})
	h.wantBody = tm.Encode(&tm.Value{K: tm.STRUCT, Fields: []tm.FieldVal{{ID: 1, V: str("n")}, {ID: 4, V: str("hello")}}})
	h.respMissing = tm.Encode(&tm.Value{K: tm.STRUCT, Fields: []tm.FieldVal{{ID: 3, V: &tm.Value{K: tm.STRUCT, Fields: []tm.FieldVal{{ID: 1, V: str("x")}}}}}})
	return h, nil
}

func httpCtx(method, url, body string) (context.Context, error) {
	var rd *bytes.Reader
	if body != "" {
		rd = bytes.NewReader([]byte(body))
	}
	var std *stdhttp.Request
	var err error
	if rd != nil {
		std, err = stdhttp.NewRequest(method, url, rd)
	} else {
		std, err = stdhttp.NewRequest(method, url, nil)
	}
	if err != nil {
		return nil, err
	}
	if body != "" {
		std.Header.Set("Content-Type", "application/json")
	}
	req, err := dhttp.NewHTTPRequestFromStdReq(std)
	if err != nil {
		return nil, err
	}
	return context.WithValue(context.Background(), conv.CtxKeyHTTPRequest, req), nil
}

type recorder struct {
	raw []byte
}

func (r *recorder) SetStatusCode(int) error        { return nil }
func (r *recorder) SetHeader(string, string) error { return nil }
func (r *recorder) SetCookie(string, string) error { return nil }
func (r *recorder) SetRawBody(b []byte) error      { r.raw = b; return nil } // kept as handed over: must not alias library memory

type held struct {
	what string
	live []byte // the slice the library returned
	copy []byte // its content when it was returned
}

type env struct {
	cs       Case
	comp     *tm.Compiled
	cut      *tm.Compiled
	enc      []byte
	msgT     []byte // enc wrapped as a REPLY message
	tj       t2j.BinaryConv
	jt       j2t.BinaryConv
	http     *t2j.HTTPConv
	jhttp    *j2t.HTTPConv
	msgCall  []byte // enc wrapped as the CALL message j2t.HTTPConv produces
	pj       p2j.BinaryConv
	jp       j2p.BinaryConv
	pdesc    *dproto.TypeDescriptor
	pjAlone  []byte // the document p2j gives for the message when nothing runs beside it
	md       protoreflect.MessageDescriptor
	ref      proto.Message
	fieldRaw map[int16][]byte
	gopts    *generic.Options // one options object for all bulk lookups (ClearDirtyValues set); nothing may write to it
	hfix     *httpFixture
	template generic.PathNode // loaded once, recursively; shared read-only: every user works on its own CopyTo copy
}

// run executes one operation and returns "" or a description of what is wrong; results the library returned are appended to keep.
func (e *env) run(op Op, keep *[]held) (msg string) {
	defer func() {
		if r := recover(); r != nil {
			msg = fmt.Sprintf("%s panicked: %v\n%s", opNames[op.Kind], r, shortStack())
		}
	}()
	ctx := context.Background()
	cs := e.cs
	switch op.Kind {
	case opT2J:
		in := append(make([]byte, 0, len(e.enc)+16), e.enc...)
		out, err := e.tj.Do(ctx, e.comp.Root, in)
		if err != nil {
			return "t2j fails: " + err.Error()
		}
		*keep = append(*keep, held{"t2j result", out, append([]byte(nil), out...)})
		n, perr := jmodel.ParseRaw(out)
		if perr != nil {
			return fmt.Sprintf("t2j output is not valid JSON: %v: %s", perr, trunc(out))
		}
		if d := tjson.Expect(n, cs.V, cs.U.Root, cs.U, tjson.Opts{}, "$"); d != "" {
			return "t2j output wrong: " + d + ": " + trunc(out)
		}
		if !bytes.Equal(in, e.enc) {
			return "t2j modified its input"
		}
	case opJ2T:
		in := append(make([]byte, 0, len(cs.Doc)+16), cs.Doc...)
		out, err := e.jt.Do(ctx, e.comp.Root, in)
		if err != nil {
			return "j2t fails: " + err.Error()
		}
		*keep = append(*keep, held{"j2t result", out, append([]byte(nil), out...)})
		if !bytes.Equal(out, e.enc) {
			return "j2t output wrong: " + tm.DecodeCompare(tm.STRUCT, out, cs.V)
		}
		if !bytes.Equal(in, cs.Doc) {
			return "j2t modified its input"
		}
	case opT2JHTTP:
		rec := &recorder{}
		in := append([]byte(nil), e.msgT...)
		if err := e.http.Do(ctx, rec, in, conv.Options{}); err != nil {
			return "t2j HTTPConv.Do fails: " + err.Error()
		}
		*keep = append(*keep, held{"http response body", rec.raw, append([]byte(nil), rec.raw...)})
		n, perr := jmodel.ParseRaw(rec.raw)
		if perr != nil {
			return fmt.Sprintf("http body is not valid JSON: %v: %s", perr, trunc(rec.raw))
		}
		if d := tjson.Expect(n, cs.V, cs.U.Root, cs.U, tjson.Opts{}, "$"); d != "" {
			return "http body wrong: " + d
		}
	case opT2JBad:
		if len(e.enc) < 2 {
			return ""
		}
		cut := 1 + op.Arg%(len(e.enc)-1)
		if _, err := e.tj.Do(ctx, e.comp.Root, append([]byte(nil), e.enc[:cut]...)); err == nil {
			return fmt.Sprintf("t2j accepts a message truncated at %d of %d", cut, len(e.enc))
		}
	case opJ2TBad:
		if len(cs.Doc) < 3 {
			return ""
		}
		cut := 1 + op.Arg%(len(cs.Doc)-2)
		if _, err := jmodel.ParseRaw(cs.Doc[:cut]); err == nil {
			return ""
		}
		if out, err := e.jt.Do(ctx, e.comp.Root, append([]byte(nil), cs.Doc[:cut]...)); err == nil {
			return fmt.Sprintf("j2t accepts a document truncated at %d of %d (%x)", cut, len(cs.Doc), out)
		}
	case opDOM:
		in := append(make([]byte, 0, len(e.enc)+16), e.enc...)
		tree := generic.PathNode{Node: generic.NewNode(thrift.STRUCT, in)}
		if err := tree.Load(true, &generic.Options{}); err != nil {
			return "Load fails: " + err.Error()
		}
		out, err := tree.Marshal(&generic.Options{})
		if err != nil {
			return "Marshal fails: " + err.Error()
		}
		*keep = append(*keep, held{"Marshal result", out, append([]byte(nil), out...)})
		if !bytes.Equal(out, e.enc) {
			return "Marshal(Load(x)) != x: " + tm.DecodeCompare(tm.STRUCT, out, cs.V)
		}
	case opCut:
		in := append(make([]byte, 0, len(e.enc)+16), e.enc...)
		val := generic.NewValue(e.comp.Root, in)
		out, err := val.MarshalTo(e.cut.Root, &generic.Options{})
		if err != nil {
			return "MarshalTo fails: " + err.Error()
		}
		*keep = append(*keep, held{"MarshalTo result", out, append([]byte(nil), out...)})
		got, derr := tm.DecodeStrict(tm.STRUCT, out)
		if derr != nil {
			return "MarshalTo output malformed: " + derr.Error()
		}
		if d := tm.DiffFieldsByID(cs.V, got); d != "" {
			return "MarshalTo output wrong: " + d
		}
	case opGet:
		in := append(make([]byte, 0, len(e.enc)+16), e.enc...)
		val := generic.NewValue(e.comp.Root, in)
		for id, want := range e.fieldRaw {
			sub := val.GetByPath(generic.NewPathFieldId(thrift.FieldID(id)))
			if sub.IsError() {
				return fmt.Sprintf("GetByPath(field %d) fails: %v", id, sub.Check())
			}
			if !bytes.Equal(sub.Raw(), want) {
				return fmt.Sprintf("GetByPath(field %d) returns %x, the field holds %x", id, head(sub.Raw()), head(want))
			}
		}
		if !bytes.Equal(in, e.enc) {
			return "generic reads modified their input"
		}
	case opGetMany:
		// bulk lookup of every field plus an absent one into slots that hold something else, with the shared options
		val := generic.NewValue(e.comp.Root, append(make([]byte, 0, len(e.enc)+16), e.enc...))
		var pn []generic.PathNode
		var ids []int16
		for id := range e.fieldRaw {
			ids = append(ids, id)
		}
		sort.Slice(ids, func(i, j int) bool { return (int(ids[i])*7919+op.Arg)%10007 < (int(ids[j])*7919+op.Arg)%10007 })
		absent := int16(1)
		for {
			if _, ok := e.fieldRaw[absent]; !ok {
				break
			}
			absent++
		}
		ids = append(ids[:len(ids):len(ids)], absent)
		for _, id := range ids {
			pn = append(pn, generic.PathNode{Path: generic.NewPathFieldId(thrift.FieldID(id)), Node: generic.NewNodeString("dirty-slot")})
		}
		if err := val.Node.GetMany(pn, e.gopts); err != nil {
			return "GetMany fails: " + err.Error()
		}
		for i, id := range ids {
			if id == absent {
				if !pn[i].Node.IsEmpty() {
					return fmt.Sprintf("GetMany with ClearDirtyValues: the slot of absent field %d still holds a node of type %v", id, pn[i].Node.Type())
				}
				continue
			}
			if pn[i].Node.IsError() || !bytes.Equal(pn[i].Node.Raw(), e.fieldRaw[id]) {
				return fmt.Sprintf("GetMany: field %d delivered as %x, it holds %x", id, head(pn[i].Node.Raw()), head(e.fieldRaw[id]))
			}
		}
	case opGetManyBad:
		val := generic.NewValue(e.comp.Root, append(make([]byte, 0, len(e.enc)+16), e.enc...))
		pn := []generic.PathNode{{Path: generic.NewPathFieldName("no_such_field")}, {Path: generic.NewPathFieldId(1)}}
		if err := val.Node.GetMany(pn, e.gopts); err == nil {
			return "untyped GetMany accepts a field-name path"
		}
	case opLookup:
		sd := cs.U.Struct(cs.U.Root.Ref)
		st := e.comp.Root.Struct()
		for i := range sd.Fields {
			fd := &sd.Fields[i]
			f := st.FieldById(thrift.FieldID(fd.ID))
			if f == nil || st.FieldByKey(tjson.Key(fd)) != f || f.Name() != fd.Name {
				return fmt.Sprintf("lookup of field %d/%s fails", fd.ID, fd.Name)
			}
		}
		if st.FieldByKey("no_such_key") != nil {
			return "lookup of an undeclared key succeeds"
		}
	case opPRound:
		in := append(make([]byte, 0, len(cs.Msg)+16), cs.Msg...)
		js, err := e.pj.Do(ctx, e.pdesc, in)
		if err != nil {
			return "p2j fails: " + err.Error()
		}
		*keep = append(*keep, held{"p2j result", js, append([]byte(nil), js...)})
		if _, perr := jmodel.Parse(js); perr != nil {
			return fmt.Sprintf("p2j output is not valid JSON: %v", perr)
		}
		if !bytes.Equal(js, e.pjAlone) {
			return fmt.Sprintf("p2j on the shared converter gives another document than the same conversion with nothing running beside it: %s vs %s", trunc(js), trunc(e.pjAlone))
		}
		if cs.I2S {
			break // (whether j2p reads quoted 64-bit integers back is not this check's subject)
		}
		back, err := e.jp.Do(ctx, e.pdesc, js)
		if err != nil {
			return "j2p fails on p2j output: " + err.Error()
		}
		*keep = append(*keep, held{"j2p result", back, append([]byte(nil), back...)})
		m, uerr := pmodel.Unmarshal(e.md, back)
		if uerr != nil || !proto.Equal(m, e.ref) {
			return fmt.Sprintf("j2p(p2j(m)) differs from m (decode error %v): JSON %s -> %x", uerr, trunc(js), head(back))
		}
		if !bytes.Equal(in, cs.Msg) {
			return "p2j modified its input"
		}
	case opJ2PBad:
		doc := badJSONForProto[op.Arg%len(badJSONForProto)]
		if out, err := e.jp.Do(ctx, e.pdesc, []byte(doc)); err == nil {
			return fmt.Sprintf("j2p accepts the malformed document %s (%x)", doc, out)
		}
	case opJ2THTTP:
		std, herr := stdhttp.NewRequest("POST", "http://example.com/call", bytes.NewReader(cs.Doc))
		if herr != nil {
			return "harness: " + herr.Error()
		}
		std.Header.Set("Content-Type", "application/json")
		req, herr := dhttp.NewHTTPRequestFromStdReq(std)
		if herr != nil {
			return "harness: " + herr.Error()
		}
		out, err := e.jhttp.Do(ctx, req, conv.Options{})
		if err != nil {
			return "j2t HTTPConv.Do fails: " + err.Error()
		}
		*keep = append(*keep, held{"j2t http message", out, append([]byte(nil), out...)})
		if !bytes.Equal(out, e.msgCall) {
			return fmt.Sprintf("j2t HTTPConv.Do output differs from the wrapped reference encoding (%d vs %d bytes)", len(out), len(e.msgCall))
		}
	case opPGeneric:
		in := append(make([]byte, 0, len(cs.Msg)+16), cs.Msg...)
		v := pgeneric.NewRootValue(e.pdesc, in)
		tree := pgeneric.PathNode{Node: v.Node}
		if err := tree.Load(true, &pgeneric.Options{}, e.pdesc); err != nil {
			return "proto Load fails: " + err.Error()
		}
		out, err := tree.Marshal(&pgeneric.Options{})
		if err != nil {
			return "proto Marshal fails: " + err.Error()
		}
		*keep = append(*keep, held{"proto Marshal result", out, append([]byte(nil), out...)})
		m, uerr := pmodel.Unmarshal(e.md, out)
		if uerr != nil || !proto.Equal(m, e.ref) {
			return fmt.Sprintf("proto Marshal(Load(m)) differs from m (decode error %v)", uerr)
		}
		// copies: a destination that held the recursively loaded tree receives the lazily loaded one (leaves where the first
		// had children); whatever it held before, it must then marshal to the message
		var dst pgeneric.PathNode
		tree.CopyTo(&dst)
		if o2, err := dst.Marshal(&pgeneric.Options{}); err != nil || !bytes.Equal(o2, out) {
			return fmt.Sprintf("proto CopyTo: the copy marshals to %x (err=%v), the tree to %x", head(o2), err, head(out))
		}
		{
			// (the destination then holds, recursively loaded, a message of the same shape with other text)
			ob := pmodel.Marshal(pmodel.Zap(e.ref.ProtoReflect()).Interface())
			ov := pgeneric.NewRootValue(e.pdesc, append(make([]byte, 0, len(ob)+16), ob...))
			ot := pgeneric.PathNode{Node: ov.Node}
			if err := ot.Load(true, &pgeneric.Options{}, e.pdesc); err != nil {
				return "proto Load fails: " + err.Error()
			}
			ot.CopyTo(&dst)
		}
		lazy := pgeneric.PathNode{Node: v.Node}
		if err := lazy.Load(false, &pgeneric.Options{}, e.pdesc); err != nil {
			return "proto Load(lazy) fails: " + err.Error()
		}
		lazy.CopyTo(&dst)
		o3, err := dst.Marshal(&pgeneric.Options{})
		if err != nil {
			return "proto Marshal of a copy fails: " + err.Error()
		}
		if m3, uerr := pmodel.Unmarshal(e.md, o3); uerr != nil || !proto.Equal(m3, e.ref) {
			return fmt.Sprintf("proto CopyTo into a destination that held a deeper tree: the copy marshals to another message (decode error %v): %x", uerr, head(o3))
		}
		if !bytes.Equal(in, cs.Msg) {
			return "proto generic reads modified their input"
		}
	case opHTTPEmptyBody:
		hctx, herr := httpCtx("GET", "http://example.com/call?name=n", "")
		if herr != nil {
			return "harness: " + herr.Error()
		}
		out, err := e.hfix.plain.Do(hctx, e.hfix.req, nil)
		if err != nil {
			return "j2t with http mapping fails on an empty-body request whose required field is in the query: " + err.Error()
		}
		*keep = append(*keep, held{"j2t result (empty body)", out, append([]byte(nil), out...)})
		if !bytes.Equal(out, e.hfix.wantEmpty) {
			return fmt.Sprintf("empty-body request: output %x, want %x", out, e.hfix.wantEmpty)
		}
	case opHTTPRejected:
		body := `{"Num":7}`
		hctx, herr := httpCtx("POST", "http://example.com/call", body)
		if herr != nil {
			return "harness: " + herr.Error()
		}
		if out, err := e.hfix.fallback.Do(hctx, e.hfix.req, []byte(body)); err == nil {
			return fmt.Sprintf("a request whose required field has no value in any source is accepted: %x", out)
		}
	case opHTTPFallbackOK:
		body := `{"Name":"n","Num":7}`
		hctx, herr := httpCtx("POST", "http://example.com/call", body)
		if herr != nil {
			return "harness: " + herr.Error()
		}
		out, err := e.hfix.fallback.Do(hctx, e.hfix.req, []byte(body))
		if err != nil {
			return "a complete request (fields from the body, fallback on) is rejected: " + err.Error()
		}
		*keep = append(*keep, held{"j2t result (http fallback)", out, append([]byte(nil), out...)})
		if !bytes.Equal(out, e.hfix.wantValid) {
			return fmt.Sprintf("complete request with fallback: output %x, want %x", out, e.hfix.wantValid)
		}
	case opT2JMissingRequired:
		in := append(make([]byte, 0, len(e.hfix.respMissing)+16), e.hfix.respMissing...)
		if out, err := e.tj.Do(ctx, e.hfix.resp, in); err == nil {
			return fmt.Sprintf("t2j accepts a message whose outer struct lacks a required field: %s", out)
		}
	case opDOMTemplateCopy:
		// the shared template is copied, the copy is overwritten, the template must still hold the value
		var cp generic.PathNode
		e.template.CopyTo(&cp)
		cout, err := cp.Marshal(&generic.Options{})
		if err != nil || !bytes.Equal(cout, e.enc) {
			return fmt.Sprintf("Marshal of a CopyTo copy of the template: err=%v, %s", err, tm.DecodeCompare(tm.STRUCT, cout, cs.V))
		}
		cp.ResetValue()
		tout, err := e.template.Marshal(&generic.Options{})
		if err != nil {
			return "Marshal of the shared template fails: " + err.Error()
		}
		*keep = append(*keep, held{"template Marshal result", tout, append([]byte(nil), tout...)})
		if !bytes.Equal(tout, e.enc) {
			return "the shared template changed after a copy of it was reset: " + tm.DecodeCompare(tm.STRUCT, tout, cs.V)
		}
	case opHTTPSameRequestTwice:
		// one request object serves two conversions (a retry): both must give what a single one gives
		body := `{"bod":"hello"}`
		hctx, herr := httpCtx("POST", "http://example.com/call?name=n", body)
		if herr != nil {
			return "harness: " + herr.Error()
		}
		for round := 0; round < 2; round++ {
			out, err := e.hfix.plain.Do(hctx, e.hfix.req, []byte(body))
			if err != nil {
				return fmt.Sprintf("round %d on the same request object fails: %v", round, err)
			}
			if !bytes.Equal(out, e.hfix.wantBody) {
				return fmt.Sprintf("round %d on the same request object: output %x, want %x", round, out, e.hfix.wantBody)
			}
		}
	case opKitexHeaderReuse:
		// the caller converts out of its own receive buffer and then reuses that buffer: what was delivered to the
		// response (NoCopyString is off) must stay what it was
		in := append(make([]byte, 0, len(e.hfix.kmsg)+16), e.hfix.kmsg...)
		resp := dhttp.NewHTTPResponse()
		rctx := context.WithValue(ctx, conv.CtxKeyHTTPResponse, resp)
		out, err := e.hfix.kitex.Do(rctx, e.hfix.kresp, in)
		if err != nil {
			return "t2j with kitex http encoding fails: " + err.Error()
		}
		for i := range in {
			in[i] = 'Z'
		}
		if string(out) != `{"Msg":"m"}` {
			return fmt.Sprintf("t2j with kitex http encoding: body %s, want {\"Msg\":\"m\"}", out)
		}
		for k, want := range map[string]string{"X-Tags": "tag-one", "X-More": "a,b", "X-One": "one"} {
			if got := resp.Response.Header.Get(k); got != want {
				return fmt.Sprintf("response header %s is %q after the caller reused its input buffer, it was delivered as %q", k, got, want)
			}
		}
	case opP2JBad:
		if len(cs.Msg) < 2 {
			return ""
		}
		cut := 1 + op.Arg%(len(cs.Msg)-1)
		if _, uerr := pmodel.Unmarshal(e.md, cs.Msg[:cut]); uerr == nil {
			return "" // the prefix happens to be a complete message
		}
		_, _ = e.pj.Do(ctx, e.pdesc, append([]byte(nil), cs.Msg[:cut]...)) // any outcome but a panic; robustness is C06's subject
	}
	return ""
}

func shortStack() string {
	s := string(debug.Stack())
	lines := strings.Split(s, "\n")
	var out []string
	for _, l := range lines {
		if strings.Contains(l, "dynamicgo") {
			out = append(out, strings.TrimSpace(l))
		}
		if len(out) >= 8 {
			break
		}
	}
	return strings.Join(out, "\n")
}

func trunc(b []byte) string {
	if len(b) > 400 {
		return fmt.Sprintf("%s...(%d bytes)", b[:400], len(b))
	}
	return string(b)
}

func head(b []byte) []byte {
	if len(b) > 64 {
		return b[:64]
	}
	return b
}

// dumpDesc renders everything observable of the struct descriptors reachable from d.
func dumpDesc(d *thrift.TypeDescriptor, seen map[*thrift.StructDescriptor]bool, b *strings.Builder) {
	switch d.Type() {
	case thrift.LIST, thrift.SET:
		dumpDesc(d.Elem(), seen, b)
	case thrift.MAP:
		dumpDesc(d.Key(), seen, b)
		dumpDesc(d.Elem(), seen, b)
	case thrift.STRUCT:
		st := d.Struct()
		if seen[st] {
			return
		}
		seen[st] = true
		fmt.Fprintf(b, "struct %s req=%v:", st.Name(), []uint64(st.Requires()))
		for _, f := range st.Fields() {
			fmt.Fprintf(b, " %d/%s/%s/%d/%v", f.ID(), f.Name(), f.Alias(), f.Required(), f.Type().Type())
		}
		b.WriteString("\n")
		for _, f := range st.Fields() {
			dumpDesc(f.Type(), seen, b)
		}
	}
}

func check(c *pbt.Ctx, cs Case) {
	comp, err := tm.CompileUniverse(cs.U, thrift.Options{})
	if err != nil {
		c.Failf("harness-idl", "IDL rejected: %v", err)
	}
	cut, err := tm.Compile(cs.U.Render()+"\n// second copy\n", thrift.Options{})
	if err != nil {
		c.Failf("harness-idl", "IDL rejected: %v", err)
	}
	pcomp, err := pmodel.Compile(cs.Schema.Render(), cs.Schema.Main)
	if err != nil || pcomp.SvcErr != nil {
		c.Failf("harness-schema", "schema rejected: %v %v", err, pcomp.SvcErr)
	}
	e := &env{cs: cs, comp: comp, cut: cut, enc: tm.Encode(cs.V), tj: t2j.NewBinaryConv(conv.Options{}), jt: j2t.NewBinaryConv(conv.Options{}),
		pj: p2j.NewBinaryConv(conv.Options{Int642String: cs.I2S}), jp: j2p.NewBinaryConv(conv.Options{}), fieldRaw: map[int16][]byte{}, gopts: &generic.Options{ClearDirtyValues: true}}
	e.template = generic.PathNode{Node: generic.NewNode(thrift.STRUCT, append(make([]byte, 0, len(e.enc)+16), e.enc...))}
	if err := e.template.Load(true, &generic.Options{}); err != nil {
		c.Failf("harness-template", "Load of the template fails: %v", err)
	}
	if e.hfix, err = newHTTPFixture(); err != nil {
		c.Failf("harness-idl", "http fixture IDL rejected: %v", err)
	}
	e.http = t2j.NewHTTPConv(meta.EncodingThriftBinary, comp.Fn)
	e.jhttp = j2t.NewHTTPConv(meta.EncodingThriftBinary, comp.Fn)
	e.msgCall, err = thrift.WrapBinaryBody(e.enc, "Call", thrift.CALL, 1, 0)
	if err != nil {
		c.Failf("harness-wrap", "%v", err)
	}
	e.msgT, err = thrift.WrapBinaryBody(e.enc, "Call", thrift.REPLY, 0, 1)
	if err != nil {
		c.Failf("harness-wrap", "%v", err)
	}
	for _, f := range cs.V.Fields {
		e.fieldRaw[f.ID] = tm.EncodeValue(f.V)
	}
	e.md = pcomp.Msg("pkg.Root")
	e.pdesc = pcomp.Svc.LookupMethodByName("Call").Input()
	{
		alone := p2j.NewBinaryConv(conv.Options{Int642String: cs.I2S})
		doc, aerr := alone.Do(context.Background(), e.pdesc, append([]byte(nil), cs.Msg...))
		if aerr != nil {
			c.Failf("harness-p2j", "p2j of the reference message fails: %v", aerr)
		}
		e.pjAlone = append([]byte(nil), doc...)
	}
	e.ref, err = pmodel.Unmarshal(e.md, cs.Msg)
	if err != nil {
		c.Failf("harness-msg", "%v", err)
	}
	var before strings.Builder
	dumpDesc(comp.Root, map[*thrift.StructDescriptor]bool{}, &before)

	keeps := make([][]held, len(cs.Threads))
	fails := make([]string, len(cs.Threads))
	c.Step("running %d goroutines", len(cs.Threads))
	var wg sync.WaitGroup
	for g := range cs.Threads {
		wg.Add(1)
		go func(g int) {
			defer wg.Done()
			for i, op := range cs.Threads[g] {
				if m := e.run(op, &keeps[g]); m != "" {
					fails[g] = fmt.Sprintf("goroutine %d, operation %d (%s): %s", g, i, opNames[op.Kind], m)
					return
				}
			}
		}(g)
	}
	wg.Wait()
	for _, f := range fails {
		if f != "" {
			sym := "wrong-result"
			if strings.Contains(f, "panicked") {
				sym = "panic"
			}
			c.Failf(sym, "%s", f)
			return
		}
	}
	// results handed out earlier must be intact after everything else ran
	for g := range keeps {
		for _, h := range keeps[g] {
			if !bytes.Equal(h.live, h.copy) {
				c.Failf("result-changed", "a %s returned to goroutine %d was changed by later calls:\n was %s\n now %s", h.what, g, trunc(h.copy), trunc(h.live))
				return
			}
		}
	}
	if *e.gopts != (generic.Options{ClearDirtyValues: true}) {
		c.Failf("options-changed", "the options object handed to the bulk lookups was modified: %+v", *e.gopts)
		return
	}
	var after strings.Builder
	dumpDesc(comp.Root, map[*thrift.StructDescriptor]bool{}, &after)
	if before.String() != after.String() {
		c.Failf("descriptor-changed", "the descriptor changed:\n%s\nvs\n%s", before.String(), after.String())
		return
	}
	total := 0
	for _, th := range cs.Threads {
		total += len(th)
		for _, op := range th {
			c.Class(opNames[op.Kind])
		}
	}
	if len(cs.Threads) >= 2 && total >= 6 {
		c.NonTrivial()
	}
	c.Class(fmt.Sprintf("goroutines=%d", len(cs.Threads)))
}

var Prop = pbt.Register(pbt.Prop[Case]{
	Name: "TestSharedUse",
	Rule: "generated Thrift descriptor + conforming message + JSON document, generated proto3 schema + message, and a drawn history: 1..8 goroutines, each with a drawn list of operations (t2j, j2t, t2j HTTPConv.Do, j2t HTTPConv.Do, proto DOM Load+Marshal, t2j on a truncated message, j2t on a truncated document, DOM Load+Marshal, MarshalTo, GetByPath, descriptor lookups, p2j+j2p, j2p on malformed documents incl. ones that fail while an unknown root member is skipped, p2j on a truncated message; on a fixed annotated service: an empty-body GET whose required field comes from the query, a request rejected because a required field has no source under ReadHttpValueFallback+Traceback, a complete request under the same options, t2j of a response whose outer struct lacks a required field while holding a nested struct, one request object converted twice (an api.body string member), a shared recursively loaded DOM template that is copied with CopyTo, the copy being reset, t2j with Kitex http encoding delivering header values out of a buffer the caller then overwrites; bulk lookups (GetMany) of every field plus an absent one through one shared options object with ClearDirtyValues, also after a bulk lookup that fails on an ill-formed path; the shared p2j converter carries Int642String in half of the cases and its documents must equal the one the conversion gives alone) sharing descriptors, converter objects and read-only inputs, in a -race binary; every successful operation is checked against the reference oracles (reference encoder, strict JSON reader, protobuf-go), failing inputs must fail, every result handed out is compared with its copy after all goroutines finished, inputs, the shared options object and the descriptor dump must be unchanged; a data race reported by the race detector is a violation; non-trivial = >= 2 goroutines and >= 6 operations",
	Gen: func(t *rapid.T) Case {
		cfg := tm.GenCfg{MaxDepth: 2, KeyKinds: tjson.SupportedKeys, Reqs: true, Aliases: true, ValidUTF8: true, FiniteDoubles: true, RootStruct: true, WireOrder: true, MaxWidth: 4}
		u := tm.GenUniverse(t, cfg)
		v := tm.GenValue(t, u, u.Root, cfg)
		doc := tjson.Write(t, v, u.Root, u, tjson.WOpts{}, false)
		sc := pmodel.GenSchema(t, pmodel.GenOpts{KeyKinds: pmodel.SupportedKeyKinds, MaxMsgs: 2, MaxFields: 5})
		comp, err := pmodel.Compile(sc.Render(), sc.Main)
		if err != nil {
			t.Fatalf("generator produced an invalid schema: %v", err)
		}
		m := pmodel.GenMessage(t, comp.Msg("pkg.Root"), pmodel.MsgOpts{MaxDepth: 2, MaxElems: 3, FiniteOnly: true})
		cs := Case{U: u, V: doc.Denote, Doc: doc.Text, Schema: sc, Msg: pmodel.Marshal(m), I2S: rapid.Bool().Draw(t, "int642string")}
		ng := rapid.IntRange(1, 8).Draw(t, "goroutines")
		for g := 0; g < ng; g++ {
			var ops []Op
			for i, n := 0, rapid.IntRange(1, 12).Draw(t, "nOps"); i < n; i++ {
				ops = append(ops, Op{Kind: rapid.IntRange(0, nOps-1).Draw(t, "op"), Arg: rapid.IntRange(0, 1<<16).Draw(t, "arg")})
			}
			cs.Threads = append(cs.Threads, ops)
		}
		return cs
	},
	Check: check,
})

func TestSharedUse(t *testing.T) { pbt.Run(t, Prop) }
