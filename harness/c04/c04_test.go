package c04

import (
	"bytes"
	"fmt"
	"testing"

	"github.com/cloudwego/dynamicgo/thrift"
	"github.com/cloudwego/dynamicgo/thrift/generic"
	"pgregory.net/rapid"

	"verifharness/pbt"
	tm "verifharness/tmodel"
)

func TestMain(m *testing.M)   { pbt.Main(m, "C04") }
func TestReplay(t *testing.T) { pbt.Replay(t) }

// PStep is a serialisable path step.
type PStep struct {
	Kind  string    `json:"kind"` // "f" field, "i" index, "k" key
	ID    int16     `json:"id,omitempty"`
	Index int       `json:"index,omitempty"`
	Key   *tm.Value `json:"key,omitempty"`
	Form  int       `json:"form,omitempty"` // 0: natural (id / index / str|int key), 1: field by name (typed) / raw-bytes key
}

type Edit struct {
	Step PStep     `json:"step"`
	New  *tm.Value `json:"new"`
}

type Op struct {
	Kind  string    `json:"kind"` // set, unset, replace, setmany, fork, switch
	Path  []PStep   `json:"path,omitempty"`
	New   *tm.Value `json:"new,omitempty"`
	Many  []Edit    `json:"many,omitempty"`
	Class string    `json:"class,omitempty"` // present, absent-last, absent-inner, wrong-kind (as drawn; informational, the check recomputes)
}

type Case struct {
	U     *tm.Universe `json:"u"`
	V     *tm.Value    `json:"v"`
	Typed bool         `json:"typed"` // drive the descriptor-carrying Value API
	Ops   []Op         `json:"ops"`
}

// ---------------------------------------------------------------------------
// model navigation

func child(v *tm.Value, s PStep) *tm.Value {
	switch s.Kind {
	case "f":
		if v.K != tm.STRUCT {
			return nil
		}
		return v.Field(s.ID)
	case "i":
		if (v.K != tm.LIST && v.K != tm.SET) || s.Index < 0 || s.Index >= len(v.Elems) {
			return nil
		}
		return v.Elems[s.Index]
	case "k":
		if v.K != tm.MAP || s.Key == nil || (len(v.Keys) > 0 && v.KT != s.Key.K) {
			return nil
		}
		if i := v.KeyIndex(s.Key); i >= 0 {
			return v.Elems[i]
		}
	}
	return nil
}

// stepFits tells whether the step kind can address children of v at all.
func stepFits(v *tm.Value, s PStep) bool {
	switch s.Kind {
	case "f":
		return v.K == tm.STRUCT
	case "i":
		return v.K == tm.LIST || v.K == tm.SET
	case "k":
		if v.K != tm.MAP {
			return false
		}
		return s.Key.K == v.KT
	}
	return false
}

func resolve(root *tm.Value, path []PStep) (parent *tm.Value, node *tm.Value, depthOK int) {
	cur := root
	for i, s := range path {
		n := child(cur, s)
		if i == len(path)-1 {
			return cur, n, i
		}
		if n == nil {
			return nil, nil, i
		}
		cur = n
	}
	return nil, root, 0
}

func setChild(parent *tm.Value, s PStep, nv *tm.Value) (existed bool) {
	switch s.Kind {
	case "f":
		for i := range parent.Fields {
			if parent.Fields[i].ID == s.ID {
				parent.Fields[i].V = nv
				return true
			}
		}
		parent.Fields = append(parent.Fields, tm.FieldVal{ID: s.ID, V: nv})
	case "i":
		if s.Index < len(parent.Elems) {
			parent.Elems[s.Index] = nv
			return true
		}
		parent.Elems = append(parent.Elems, nv)
		parent.ET = nv.K
	case "k":
		if i := parent.KeyIndex(s.Key); i >= 0 {
			parent.Elems[i] = nv
			return true
		}
		parent.Keys = append(parent.Keys, s.Key.Clone())
		parent.Elems = append(parent.Elems, nv)
		parent.KT, parent.ET = s.Key.K, nv.K
	}
	return false
}

func delChild(parent *tm.Value, s PStep) bool {
	switch s.Kind {
	case "f":
		for i := range parent.Fields {
			if parent.Fields[i].ID == s.ID {
				parent.Fields = append(parent.Fields[:i:i], parent.Fields[i+1:]...)
				return true
			}
		}
	case "i":
		if s.Index >= 0 && s.Index < len(parent.Elems) {
			parent.Elems = append(parent.Elems[:s.Index:s.Index], parent.Elems[s.Index+1:]...)
			return true
		}
	case "k":
		if i := parent.KeyIndex(s.Key); i >= 0 {
			parent.Keys = append(parent.Keys[:i:i], parent.Keys[i+1:]...)
			parent.Elems = append(parent.Elems[:i:i], parent.Elems[i+1:]...)
			return true
		}
	}
	return false
}

// moveToEnd normalises the position of a freshly inserted struct field / map entry.
func moveToEnd(parent *tm.Value, s PStep, nv *tm.Value) {
	switch s.Kind {
	case "i":
		// a list/set element has no identity: find a position whose removal leaves the previous
		// elements in their order, i.e. try every element equal to the inserted value
		n := len(parent.Elems)
		for j := 0; j < n; j++ {
			if !tm.Equal(parent.Elems[j], nv) {
				continue
			}
			e := parent.Elems[j]
			parent.Elems = append(append(parent.Elems[:j:j], parent.Elems[j+1:]...), e)
			return
		}
	case "f":
		for i := range parent.Fields {
			if parent.Fields[i].ID == s.ID {
				f := parent.Fields[i]
				parent.Fields = append(append(parent.Fields[:i:i], parent.Fields[i+1:]...), f)
				return
			}
		}
	case "k":
		if i := parent.KeyIndex(s.Key); i >= 0 {
			k, e := parent.Keys[i], parent.Elems[i]
			parent.Keys = append(append(parent.Keys[:i:i], parent.Keys[i+1:]...), k)
			parent.Elems = append(append(parent.Elems[:i:i], parent.Elems[i+1:]...), e)
		}
	}
}

// ---------------------------------------------------------------------------
// SUT paths

func fieldKey(fd *tm.FieldDef) string {
	if fd.Alias != "" {
		return fd.Alias
	}
	return fd.Name
}

func sutStep(u *tm.Universe, ty *tm.Type, s PStep, typed bool) generic.Path {
	switch s.Kind {
	case "f":
		if typed && s.Form == 1 && ty != nil && ty.K == tm.STRUCT {
			if fd := u.Struct(ty.Ref).Field(s.ID); fd != nil {
				return generic.NewPathFieldName(fieldKey(fd))
			}
		}
		return generic.NewPathFieldId(thrift.FieldID(s.ID))
	case "i":
		return generic.NewPathIndex(s.Index)
	}
	k := s.Key
	switch {
	case k.K == tm.STRING && s.Form == 0:
		return generic.NewPathStrKey(string(k.S))
	case k.K.IsInt() && s.Form == 0:
		ki := int(k.I)
		if k.K == tm.BYTE {
			ki = int(uint8(k.I))
		}
		return generic.NewPathIntKey(ki)
	}
	return generic.NewPathBinKey(tm.EncodeValue(k))
}

func declaredNext(u *tm.Universe, ty *tm.Type, s PStep) *tm.Type {
	if ty == nil {
		return nil
	}
	switch s.Kind {
	case "f":
		if ty.K != tm.STRUCT {
			return nil
		}
		if fd := u.Struct(ty.Ref).Field(s.ID); fd != nil {
			return fd.T
		}
		return nil
	case "i":
		if ty.K == tm.LIST || ty.K == tm.SET {
			return ty.Elem
		}
	case "k":
		if ty.K == tm.MAP {
			return ty.Elem
		}
	}
	return nil
}

func sutPath(u *tm.Universe, path []PStep, typed bool) []generic.Path {
	out := make([]generic.Path, len(path))
	ty := u.Root
	for i, s := range path {
		out[i] = sutStep(u, ty, s, typed)
		ty = declaredNext(u, ty, s)
	}
	return out
}

func descAt(root *thrift.TypeDescriptor, path []PStep) *thrift.TypeDescriptor {
	d := root
	for _, s := range path {
		if d == nil {
			return nil
		}
		switch s.Kind {
		case "f":
			if d.Type() != thrift.STRUCT {
				return nil
			}
			f := d.Struct().FieldById(thrift.FieldID(s.ID))
			if f == nil {
				return nil
			}
			d = f.Type()
		default:
			if d.Type() != thrift.LIST && d.Type() != thrift.SET && d.Type() != thrift.MAP {
				return nil
			}
			d = d.Elem()
		}
	}
	return d
}

func pathString(p []generic.Path) string {
	s := ""
	for _, x := range p {
		s += "/" + x.String()
	}
	if s == "" {
		return "/"
	}
	return s
}

// ---------------------------------------------------------------------------
// the check

type sut struct {
	typed bool
	n     generic.Node
	v     generic.Value
}

func (s *sut) raw() []byte {
	if s.typed {
		return s.v.Raw()
	}
	return s.n.Raw()
}

type held struct {
	s    sut
	snap []byte
	what string
}

func check(c *pbt.Ctx, cs Case) {
	comp, err := tm.CompileUniverse(cs.U, thrift.Options{})
	if err != nil {
		c.Failf("idl-error", "dynamicgo rejects generated IDL: %v", err)
	}
	enc := tm.Encode(cs.V)
	buf := append(make([]byte, 0, len(enc)+16), enc...) // spare capacity, see DESIGN.md (one-past-the-end pointers)
	cur := sut{typed: cs.Typed}
	if cs.Typed {
		cur.v = generic.NewValue(comp.Root, buf)
	} else {
		cur.n = generic.NewNode(thrift.Type(cs.V.K), buf)
	}
	model := cs.V.Clone()
	var helds []held
	okEdits, inserts, unsets := 0, 0, 0
	opts := &generic.Options{}

	for oi, op := range cs.Ops {
		before := append([]byte{}, cur.raw()...)
		// name addressing exists only where Value has its own method (SetByPath / UnsetByPath / GetByPath);
		// ReplaceByPath and SetMany are Node methods promoted to Value
		sp := sutPath(cs.U, op.Path, cs.Typed && (op.Kind == "set" || op.Kind == "unset"))
		ps := pathString(sp)
		tag := fmt.Sprintf("op %d %s %s", oi, op.Kind, ps)
		c.Step(tag)
		unchanged := func(region, why string) bool {
			if !bytes.Equal(cur.raw(), before) {
				return c.Fail(region, "failed-op-changed-value", "%s: %s, but the value changed\n before %x\n after  %x", tag, why, before, cur.raw())
			}
			return false
		}
		switch op.Kind {
		case "fork":
			h := held{what: fmt.Sprintf("fork made at op %d", oi)}
			h.s.typed = cs.Typed
			if cs.Typed {
				h.s.v = cur.v.Fork()
			} else {
				h.s.n = cur.n.Fork()
			}
			h.snap = append([]byte{}, before...)
			if !bytes.Equal(h.s.raw(), before) {
				c.Failf("fork-differs", "%s: fork differs from its origin", tag)
			}
			helds = append(helds, h)
			c.Class("fork")
			continue
		case "switch":
			if len(helds) == 0 {
				continue
			}
			// go on editing the most recent fork; the former current value becomes a held origin
			h := helds[len(helds)-1]
			helds[len(helds)-1] = held{s: cur, snap: before, what: fmt.Sprintf("origin left at op %d", oi)}
			cur = h.s
			m2, derr := tm.DecodeStrict(cs.V.K, cur.raw())
			if derr != nil {
				c.Failf("fork-malformed", "%s: fork is not well-formed: %v", tag, derr)
			}
			model = m2
			c.Class("switch-to-fork")
			continue
		}

		parent, node, _ := resolve(model, op.Path)
		last := PStep{}
		if len(op.Path) > 0 {
			last = op.Path[len(op.Path)-1]
		}
		// classification from the model
		class := ""
		switch {
		case len(op.Path) == 0:
			class = "root"
		case parent == nil:
			class = "absent-inner"
		case !stepFits(parent, last):
			class = "wrong-kind"
		case node != nil:
			class = "present"
		case last.Kind == "i" && last.Index != len(parent.Elems):
			class = "absent-beyond" // index past one-past-the-end: not insertable
		default:
			class = "absent-last"
		}
		if cs.Typed && class == "absent-last" && last.Kind == "f" {
			// the typed API can only address declared fields
			if pd := descAt(comp.Root, op.Path[:len(op.Path)-1]); pd == nil || pd.Type() != thrift.STRUCT || pd.Struct().FieldById(thrift.FieldID(last.ID)) == nil {
				class = "undeclared-field"
			}
		}
		c.Class(op.Kind + ":" + class)
		beyond := false
		if class == "absent-beyond" {
			// an index past one-past-the-end is outside the statement: the edit may fail (nothing changes)
			// or insert one element like an absent-last edit; both are accepted, anything else is not
			beyond = true
		}

		switch op.Kind {
		case "set", "replace":
			newEnc := tm.EncodeValue(op.New)
			var exist bool
			var oerr error
			region := ""
			if class == "absent-last" && last.Kind == "k" && last.Key.K.IsInt() && last.Form == 0 {
				region = "insert-int-key-path"
			}
			if op.Kind == "set" {
				if cs.Typed {
					d := descAt(comp.Root, op.Path)
					if d == nil {
						d = comp.Root // irrelevant: the path cannot be resolved by the typed API either
					}
					nv := generic.NewValue(d, newEnc)
					if d.Type() != thrift.Type(op.New.K) {
						// the histories of generator and value can diverge (an insert may land anywhere in
						// its container), so the declared type at the path need not be the new value's type:
						// NewValue(d, ...) would then label the bytes with the wrong type, which is a caller
						// error and not a type change the value could refuse
						nv = generic.Value{Node: generic.NewNode(thrift.Type(op.New.K), newEnc)}
					}
					exist, oerr = cur.v.SetByPath(nv, sp...)
				} else {
					exist, oerr = cur.n.SetByPath(generic.NewNode(thrift.Type(op.New.K), newEnc), sp...)
				}
			} else {
				called := 0
				f := func(old generic.Node) generic.Node {
					called++
					if node != nil && !bytes.Equal(old.Raw(), tm.EncodeValue(node)) {
						c.Failf("replace-callback-arg", "%s: callback received %x, model element is %x", tag, old.Raw(), tm.EncodeValue(node))
					}
					return generic.NewNode(thrift.Type(op.New.K), newEnc)
				}
				if cs.Typed {
					exist, oerr = cur.v.ReplaceByPath(f, sp...)
				} else {
					exist, oerr = cur.n.ReplaceByPath(f, sp...)
				}
				if class == "present" && called != 1 {
					c.Failf("replace-callback-count", "%s: callback called %d times", tag, called)
				}
			}
			if beyond && op.Kind == "set" && oerr == nil {
				class = "absent-last"
			}
			switch {
			case class == "present" || (class == "absent-last" && op.Kind == "set"):
				if node != nil && node.K != op.New.K {
					// replacement of a different wire type must be refused
					if oerr == nil {
						c.Failf("type-change-accepted", "%s: replacing a %v by a %v succeeded", tag, node.K, op.New.K)
					}
					unchanged("", "operation failed")
					continue
				}
				if oerr != nil {
					if c.Fail(region, "valid-edit-error", "%s (%s): valid edit failed: %v", tag, class, oerr) {
						cur = resync(c, cs, cur, before, comp)
						continue
					}
				}
				if exist != (class == "present") {
					c.Failf("exist-flag", "%s (%s): exist=%v", tag, class, exist)
				}
				expected := model.Clone()
				ep, _, _ := resolve(expected, op.Path)
				setChild(ep, last, op.New.Clone())
				got, derr := tm.DecodeStrict(cs.V.K, cur.raw())
				if derr != nil {
					if c.Fail(region, "malformed-after-edit", "%s (%s): result is not well-formed: %v\n bytes %x", tag, class, derr, cur.raw()) {
						cur = resync(c, cs, cur, before, comp)
						continue
					}
				}
				norm := got
				if class == "absent-last" {
					norm = got.Clone()
					gp, _, _ := resolve(norm, op.Path)
					if gp != nil {
						moveToEnd(gp, last, op.New)
					}
					inserts++
				}
				if d := tm.Diff(norm, expected); d != "" {
					if c.Fail(region, "wrong-result-after-edit", "%s (%s): %s\n got  %s\n want %s", tag, class, d, got.Short(), expected.Short()) {
						cur = resync(c, cs, cur, before, comp)
						continue
					}
				}
				model = got
				okEdits++
			case class == "absent-last" && op.Kind == "replace":
				// ReplaceByPath needs an existing element
				if oerr == nil {
					c.Failf("replace-absent-succeeded", "%s: ReplaceByPath of an absent element succeeded", tag)
				}
				unchanged("", "ReplaceByPath of an absent element")
			case class == "root":
				// setting the root replaces the whole value
				if oerr != nil {
					c.Failf("valid-edit-error", "%s: %v", tag, oerr)
				}
				model = op.New.Clone()
				if d := tm.DecodeCompare(cs.V.K, cur.raw(), model); d != "" {
					c.Failf("wrong-result-after-edit", "%s: %s", tag, d)
				}
			default:
				// absent-inner, wrong-kind, absent-beyond, undeclared-field: must fail and change nothing
				reg := "invalid-path-" + class
				if oerr == nil {
					if c.Fail(reg, "invalid-edit-accepted", "%s (%s): edit through an invalid path reported success (exist=%v)", tag, class, exist) {
						cur = resync(c, cs, cur, before, comp)
						continue
					}
				}
				if unchanged(reg, "operation failed ("+class+")") {
					cur = resync(c, cs, cur, before, comp)
					continue
				}
			}

		case "unset":
			var oerr error
			if cs.Typed {
				oerr = cur.v.UnsetByPath(sp...)
			} else {
				oerr = cur.n.UnsetByPath(sp...)
			}
			switch class {
			case "present":
				if oerr != nil {
					c.Failf("valid-edit-error", "%s: unset of a present element failed: %v", tag, oerr)
				}
				expected := model.Clone()
				ep, _, _ := resolve(expected, op.Path)
				delChild(ep, last)
				got, derr := tm.DecodeStrict(cs.V.K, cur.raw())
				if derr != nil {
					c.Failf("malformed-after-edit", "%s: result is not well-formed: %v\n bytes %x", tag, derr, cur.raw())
				}
				if d := tm.Diff(got, expected); d != "" {
					c.Failf("wrong-result-after-edit", "%s: %s\n got  %s\n want %s", tag, d, got.Short(), expected.Short())
				}
				model = got
				okEdits++
				unsets++
			case "root":
				return // the value is gone; nothing more to check in this history
			default:
				// unsetting something absent (or through an invalid path): nil or an error, and nothing changes
				reg := "unset-" + class
				if class == "absent-last" && last.Kind == "k" {
					reg = "unset-absent-map-key"
				}
				if unchanged(reg, "unset of an absent element (err="+fmt.Sprint(oerr)+")") {
					cur = resync(c, cs, cur, before, comp)
					continue
				}
			}

		case "setmany":
			// SetMany works on the direct children of a container: fetch it, edit it, put it back
			var sub generic.Node
			if len(op.Path) == 0 {
				if cs.Typed {
					sub = cur.v.Node
				} else {
					sub = cur.n
				}
			} else if cs.Typed {
				sub = cur.v.GetByPath(sp...).Node
			} else {
				sub = cur.n.GetByPath(sp...)
			}
			if class != "present" && class != "root" {
				continue
			}
			cont := node
			if class == "root" {
				cont = model
			}
			if sub.IsError() {
				c.Failf("present-reported-error", "%s: container exists but GetByPath fails: %v", tag, sub.Error())
			}
			if class != "root" {
				// a node returned by GetByPath is a view into its parent's buffer; edit an independent copy
				// (in-place edits of a view are outside the statement, which promises independence only for forks)
				sub = sub.Fork()
			}
			var pn []generic.PathNode
			expected := model.Clone()
			var econt *tm.Value
			if class == "root" {
				econt = expected
			} else {
				_, econt, _ = resolve(expected, op.Path)
			}
			contTy := tm.TypeAt(cs.U, cs.U.Root, toSteps(op.Path))
			var inserted []PStep
			var insertedVals []*tm.Value
			region := ""
			valid := true
			for _, ed := range op.Many {
				if !stepFits(cont, ed.Step) && !(cont.K == tm.MAP && len(cont.Keys) == 0) {
					valid = false
				}
				if ed.Step.Kind == "i" && ed.Step.Index > len(econt.Elems) {
					valid = false
				}
				old := child(econt, ed.Step)
				if old != nil && old.K != ed.New.K {
					valid = false
				}
				if old == nil {
					inserted = append(inserted, ed.Step)
					insertedVals = append(insertedVals, ed.New)
					if ed.Step.Kind == "k" && ed.Step.Key.K.IsInt() && ed.Step.Form == 0 {
						region = "insert-int-key-path"
					}
				}
				st := ed.Step
				if st.Kind == "f" {
					st.Form = 0 // Node.SetMany has no name addressing
				}
				pn = append(pn, generic.PathNode{Path: sutStep(cs.U, contTy, st, false),
					Node: generic.NewNode(thrift.Type(ed.New.K), tm.EncodeValue(ed.New))})
				if valid {
					setChild(econt, ed.Step, ed.New.Clone())
				}
			}
			if !valid || len(pn) == 0 {
				continue // only well-formed SetMany requests are in the domain here
			}
			if len(inserted) >= 2 {
				c.Class("setmany>=2-absent")
			}
			if len(pn) > 16 {
				c.Class("setmany>16-paths")
			}
			merr := sub.SetMany(pn, opts)
			if merr != nil {
				if c.Fail(region, "valid-edit-error", "%s: SetMany failed: %v", tag, merr) {
					cur = resync(c, cs, cur, before, comp)
					continue
				}
			}
			if class != "root" {
				var perr error
				if cs.Typed {
					_, perr = cur.v.SetByPath(generic.Value{Node: sub, Desc: descAt(comp.Root, op.Path)}, sp...)
				} else {
					_, perr = cur.n.SetByPath(sub, sp...)
				}
				if perr != nil {
					c.Failf("valid-edit-error", "%s: putting the edited container back failed: %v", tag, perr)
				}
			} else if cs.Typed {
				cur.v.Node = sub
			} else {
				cur.n = sub
			}
			got, derr := tm.DecodeStrict(cs.V.K, cur.raw())
			if derr != nil {
				if c.Fail(region, "malformed-after-edit", "%s: result of SetMany is not well-formed: %v\n bytes %x", tag, derr, cur.raw()) {
					cur = resync(c, cs, cur, before, comp)
					continue
				}
			}
			norm := got.Clone()
			var gcont *tm.Value
			if class == "root" {
				gcont = norm
			} else {
				_, gcont, _ = resolve(norm, op.Path)
			}
			if gcont != nil {
				for i, st := range inserted {
					moveToEnd(gcont, st, insertedVals[i])
				}
			}
			if d := tm.Diff(norm, expected); d != "" {
				if c.Fail(region, "wrong-result-after-edit", "%s: SetMany: %s\n got  %s\n want %s", tag, d, got.Short(), expected.Short()) {
					cur = resync(c, cs, cur, before, comp)
					continue
				}
			}
			model = got
			okEdits++
			inserts += len(inserted)
		}

		// every held fork / origin is untouched
		for _, h := range helds {
			if !bytes.Equal(h.s.raw(), h.snap) {
				c.Failf("fork-not-independent", "%s: %s changed\n snapshot %x\n now      %x", tag, h.what, h.snap, h.s.raw())
			}
		}
	}
	if okEdits >= 3 && inserts >= 1 && unsets >= 1 {
		c.NonTrivial()
	}
}

func toSteps(p []PStep) []tm.Step {
	out := make([]tm.Step, len(p))
	for i, s := range p {
		out[i] = tm.Step{Kind: s.Kind[0], ID: s.ID, Index: s.Index, Key: s.Key}
	}
	return out
}

// resync re-creates the SUT value from the bytes it had before a quarantined
// (known-finding) operation, so that the rest of the history still runs.
func resync(c *pbt.Ctx, cs Case, cur sut, before []byte, comp *tm.Compiled) sut {
	b := append([]byte{}, before...)
	if cs.Typed {
		cur.v = generic.NewValue(comp.Root, b)
	} else {
		cur.n = generic.NewNode(thrift.Type(cs.V.K), b)
	}
	return cur
}

// ---------------------------------------------------------------------------
// generator

var genCfg = tm.GenCfg{MaxDepth: 3, BigSizes: true, BigIDs: true, WireOrder: true, Aliases: true, Recursive: true, MaxWidth: 4,
	KeyKinds: []tm.Kind{tm.STRING, tm.STRING, tm.BYTE, tm.I16, tm.I32, tm.I64, tm.DOUBLE, tm.BOOL, tm.STRUCT}}

type gnode struct {
	path []PStep
	v    *tm.Value
	ty   *tm.Type
}

func collect(u *tm.Universe, v *tm.Value, ty *tm.Type, path []PStep, out *[]gnode) {
	*out = append(*out, gnode{append([]PStep{}, path...), v, ty})
	switch v.K {
	case tm.STRUCT:
		sd := u.Struct(ty.Ref)
		for _, f := range v.Fields {
			fd := sd.Field(f.ID)
			if fd == nil {
				continue
			}
			collect(u, f.V, fd.T, append(path[:len(path):len(path)], PStep{Kind: "f", ID: f.ID}), out)
		}
	case tm.LIST, tm.SET:
		for i, e := range v.Elems {
			collect(u, e, ty.Elem, append(path[:len(path):len(path)], PStep{Kind: "i", Index: i}), out)
		}
	case tm.MAP:
		for i, e := range v.Elems {
			collect(u, e, ty.Elem, append(path[:len(path):len(path)], PStep{Kind: "k", Key: v.Keys[i].Clone()}), out)
		}
	}
}

func genForms(t *rapid.T, path []PStep) {
	for i := range path {
		path[i].Form = rapid.IntRange(0, 1).Draw(t, "form")
	}
}

// genAbsentStep draws a step addressing an absent-but-insertable child of a container.
func genAbsentStep(t *rapid.T, u *tm.Universe, n gnode, typed bool) (PStep, *tm.Type, bool) {
	switch n.v.K {
	case tm.STRUCT:
		sd := u.Struct(n.ty.Ref)
		var cands []*tm.FieldDef
		for i := range sd.Fields {
			if n.v.Field(sd.Fields[i].ID) == nil {
				cands = append(cands, &sd.Fields[i])
			}
		}
		if len(cands) > 0 && (typed || rapid.IntRange(0, 2).Draw(t, "declared") > 0) {
			fd := cands[rapid.IntRange(0, len(cands)-1).Draw(t, "absField")]
			return PStep{Kind: "f", ID: fd.ID}, fd.T, true
		}
		if typed {
			return PStep{}, nil, false
		}
		// untyped: an id the IDL does not know, with a scalar value
		for i := 0; i < 10; i++ {
			id := int16(rapid.IntRange(1, 400).Draw(t, "newID"))
			if sd.Field(id) == nil && n.v.Field(id) == nil {
				k := []tm.Kind{tm.BOOL, tm.I32, tm.STRING, tm.I64}[rapid.IntRange(0, 3).Draw(t, "newKind")]
				return PStep{Kind: "f", ID: id}, &tm.Type{K: k}, true
			}
		}
	case tm.LIST, tm.SET:
		return PStep{Kind: "i", Index: len(n.v.Elems)}, n.ty.Elem, true
	case tm.MAP:
		for i := 0; i < 10; i++ {
			k := tm.GenValue(t, u, n.ty.Key, tm.GenCfg{MaxDepth: 1, FiniteDoubles: true})
			if n.v.KeyIndex(tm.Canon(k)) < 0 && n.v.KeyIndex(k) < 0 {
				return PStep{Kind: "k", Key: k}, n.ty.Elem, true
			}
		}
	}
	return PStep{}, nil, false
}

func genOps(t *rapid.T, u *tm.Universe, v *tm.Value, typed bool) []Op {
	model := v.Clone()
	nops := rapid.IntRange(1, 12).Draw(t, "nOps")
	var ops []Op
	valCfg := tm.GenCfg{MaxDepth: 2, FiniteDoubles: false, WireOrder: true, MaxWidth: 3}
	forks := 0
	for len(ops) < nops {
		var nodes []gnode
		collect(u, model, u.Root, nil, &nodes)
		var conts []gnode
		for _, n := range nodes {
			if n.v.K == tm.STRUCT || n.v.K.IsContainer() {
				conts = append(conts, n)
			}
		}
		kind := rapid.IntRange(0, 19).Draw(t, "opKind")
		switch {
		case kind < 6: // set / replace present
			if len(nodes) < 2 {
				kind = 6
			} else {
				n := nodes[rapid.IntRange(1, len(nodes)-1).Draw(t, "node")]
				if rapid.IntRange(0, 3).Draw(t, "lastFirst") == 0 {
					n = nodes[len(nodes)-1]
				}
				nv := tm.GenValue(t, u, n.ty, valCfg)
				op := Op{Kind: "set", Path: n.path, New: nv, Class: "present"}
				if rapid.IntRange(0, 3).Draw(t, "replace") == 0 {
					op.Kind = "replace"
				}
				genForms(t, op.Path)
				ops = append(ops, op)
				p, _, _ := resolve(model, n.path)
				setChild(p, n.path[len(n.path)-1], nv.Clone())
				continue
			}
			fallthrough
		case kind < 10: // insert (absent-last)
			if len(conts) == 0 {
				continue
			}
			n := conts[rapid.IntRange(0, len(conts)-1).Draw(t, "cont")]
			st, ty, ok := genAbsentStep(t, u, n, typed)
			if !ok {
				continue
			}
			nv := tm.GenValue(t, u, ty, valCfg)
			path := append(append([]PStep{}, n.path...), st)
			genForms(t, path)
			ops = append(ops, Op{Kind: "set", Path: path, New: nv, Class: "absent-last"})
			setChild(n.v, st, nv.Clone())
		case kind < 13: // unset present
			if len(nodes) < 2 {
				continue
			}
			n := nodes[rapid.IntRange(1, len(nodes)-1).Draw(t, "node")]
			path := append([]PStep{}, n.path...)
			genForms(t, path)
			ops = append(ops, Op{Kind: "unset", Path: path, Class: "present"})
			p, _, _ := resolve(model, n.path)
			delChild(p, n.path[len(n.path)-1])
		case kind < 15: // unset absent / set absent-inner / wrong-kind
			if len(conts) == 0 {
				continue
			}
			n := conts[rapid.IntRange(0, len(conts)-1).Draw(t, "cont")]
			st, ty, ok := genAbsentStep(t, u, n, false)
			if !ok {
				continue
			}
			path := append(append([]PStep{}, n.path...), st)
			switch rapid.IntRange(0, 2).Draw(t, "badKind") {
			case 0:
				genForms(t, path)
				ops = append(ops, Op{Kind: "unset", Path: path, Class: "absent-last"})
			case 1:
				path = append(path, PStep{Kind: "f", ID: 1})
				ops = append(ops, Op{Kind: []string{"set", "unset"}[rapid.IntRange(0, 1).Draw(t, "su")], Path: path, New: &tm.Value{K: tm.I32, I: 7}, Class: "absent-inner"})
			case 2:
				// wrong-kind last step
				wrong := PStep{Kind: "i", Index: 0}
				if n.v.K == tm.LIST || n.v.K == tm.SET {
					wrong = PStep{Kind: "f", ID: 1}
				}
				if n.v.K == tm.MAP && rapid.Bool().Draw(t, "wrongKeyKind") {
					// a key of the wrong kind (also on an empty map: its header still names the key type)
					if n.v.KT == tm.STRING {
						wrong = PStep{Kind: "k", Key: &tm.Value{K: tm.I32, I: int64(rapid.IntRange(-1, 3).Draw(t, "wrongKey"))}}
					} else {
						wrong = PStep{Kind: "k", Key: &tm.Value{K: tm.STRING, S: []byte([]string{"", "a", "1"}[rapid.IntRange(0, 2).Draw(t, "wrongKey")])}}
					}
				}
				path = append(append([]PStep{}, n.path...), wrong)
				ops = append(ops, Op{Kind: []string{"set", "unset"}[rapid.IntRange(0, 1).Draw(t, "su")], Path: path, New: tm.GenValue(t, u, ty, valCfg), Class: "wrong-kind"})
			default:
				// (an index beyond one-past-the-end is neither "present" nor "one-past-the-end": the statement
				// does not say whether it inserts or fails, so it is not generated)
			}
		case kind < 17: // setmany
			if len(conts) == 0 {
				continue
			}
			n := conts[rapid.IntRange(0, len(conts)-1).Draw(t, "cont")]
			var kids []gnode
			for _, x := range nodes {
				if len(x.path) == len(n.path)+1 && samePrefix(x.path, n.path) {
					kids = append(kids, x)
				}
			}
			m := rapid.IntRange(1, 4).Draw(t, "nMany")
			if rapid.IntRange(0, 5).Draw(t, "manyBig") == 0 {
				m = rapid.IntRange(15, 40).Draw(t, "nManyBig") // more paths than the pooled scratch slice holds
			}
			op := Op{Kind: "setmany", Path: append([]PStep{}, n.path...)}
			used := map[string]bool{}
			for j := 0; j < m; j++ {
				if len(kids) > 0 && rapid.Bool().Draw(t, "manyPresent") {
					k := kids[rapid.IntRange(0, len(kids)-1).Draw(t, "kid")]
					st := k.path[len(k.path)-1]
					key := fmt.Sprintf("%s/%d/%d/%x", st.Kind, st.ID, st.Index, encKey(st.Key))
					if used[key] {
						continue
					}
					used[key] = true
					st.Form = rapid.IntRange(0, 1).Draw(t, "form")
					nv := tm.GenValue(t, u, k.ty, valCfg)
					op.Many = append(op.Many, Edit{Step: st, New: nv})
					setChild(n.v, st, nv.Clone())
				} else {
					st, ty, ok := genAbsentStep(t, u, n, typed)
					if !ok {
						continue
					}
					if st.Kind == "i" {
						// only index == len is one-past-the-end when the call is made: at most one per request
						if used["absent-index"] {
							continue
						}
						used["absent-index"] = true
					}
					st.Form = rapid.IntRange(0, 1).Draw(t, "form")
					nv := tm.GenValue(t, u, ty, valCfg)
					op.Many = append(op.Many, Edit{Step: st, New: nv})
					setChild(n.v, st, nv.Clone())
				}
			}
			if len(op.Many) > 0 {
				genForms(t, op.Path)
				ops = append(ops, op)
			}
		case kind < 19:
			if forks < 3 {
				ops = append(ops, Op{Kind: "fork"})
				forks++
			}
		default:
			if forks > 0 {
				ops = append(ops, Op{Kind: "switch"})
				// the fork was taken from an earlier state: the generator cannot know it cheaply, so stop the history here
				return ops
			}
		}
	}
	return ops
}

func encKey(k *tm.Value) []byte {
	if k == nil {
		return nil
	}
	return tm.EncodeValue(k)
}

func samePrefix(p, pre []PStep) bool {
	for i := range pre {
		a, b := p[i], pre[i]
		if a.Kind != b.Kind || a.ID != b.ID || a.Index != b.Index || !bytes.Equal(encKey(a.Key), encKey(b.Key)) {
			return false
		}
	}
	return true
}

var Prop = pbt.Register(pbt.Prop[Case]{
	Name: "TestEdits",
	Rule: "model-based history: generated IDL + value, then 1..12 operations drawn against the evolving model (SetByPath/ReplaceByPath on present elements, insertion of absent struct fields / map keys / one-past-the-end elements, UnsetByPath present and absent, edits through absent-inner / wrong-kind / beyond-the-end paths, SetMany with present and absent children, Fork and continue-on-fork), on Node or on the typed Value (id- and name-addressed, str/int/raw keys); after every step the bytes are decoded by the reference decoder and compared with the model; failed operations must leave the bytes unchanged; forks must keep their snapshots; non-trivial = >= 3 successful edits incl. an insertion and an unset",
	Gen: func(t *rapid.T) Case {
		u := tm.GenUniverse(t, genCfg)
		v := tm.GenValue(t, u, u.Root, genCfg)
		typed := rapid.Bool().Draw(t, "typed")
		return Case{U: u, V: v, Typed: typed, Ops: genOps(t, u, v, typed)}
	},
	Check: check,
})

func TestEdits(t *testing.T) { pbt.Run(t, Prop) }
