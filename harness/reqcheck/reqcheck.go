// Package reqcheck holds the requiredness/default truth-table check shared by C16 (default build) and C18 (other builds).
package reqcheck

import (
	"bytes"
	"context"
	"errors"
	"fmt"
	"math"
	"runtime"

	"github.com/cloudwego/dynamicgo/conv"
	"github.com/cloudwego/dynamicgo/conv/j2t"
	"github.com/cloudwego/dynamicgo/conv/t2j"
	"github.com/cloudwego/dynamicgo/meta"
	"github.com/cloudwego/dynamicgo/thrift"
	"github.com/cloudwego/dynamicgo/thrift/generic"
	"pgregory.net/rapid"

	"verifharness/jmodel"
	"verifharness/pbt"
	"verifharness/tjson"
	tm "verifharness/tmodel"
)

type Opts struct {
	WriteRequire  bool `json:"write_require,omitempty"`
	WriteDefault  bool `json:"write_default,omitempty"`
	WriteOptional bool `json:"write_optional,omitempty"`
	Disallow      bool `json:"disallow_unknown,omitempty"`
	// parse options
	SetOptionalBitmap bool `json:"set_optional_bitmap,omitempty"`
	UseDefaultValue   bool `json:"use_default_value,omitempty"`
	// generic cutting
	NotCheckRequire bool `json:"not_check_requireness,omitempty"`
}

type Case struct {
	U *tm.Universe `json:"u"`
	V *tm.Value    `json:"v"` // conforming value presenting any subset of the declared fields (required ones may be absent)
	O Opts         `json:"o"`
	// JSON document denoting V (members in V's order), with null members for some absent fields and optionally unknown members
	Text    []byte `json:"text"`
	Show    string `json:"show"`
	Unknown int    `json:"unknown"` // number of unknown members in Text
	// Thrift message for V with WireUnknown undeclared fields added
	Msg         []byte `json:"msg"`
	WireUnknown int    `json:"wire_unknown"`
	FreshPools  bool   `json:"fresh_pools,omitempty"`
	// Prev > 0: the converters are created with other options (bit 0 WriteRequireField, 1 WriteDefaultField,
	// 2 WriteOptionalField, 3 DisallowUnknownField; value-1) and get O through SetOptions
	Prev int `json:"prev,omitempty"`
	// BufCap > 0: j2t runs through DoInto with a caller buffer of capacity BufCap-1
	BufCap int `json:"buf_cap,omitempty"`
	// CutExtra: fields the cutting target declares in addition (absent from every message): the fill rules then apply at every
	// depth, also inside list elements and map values, with a target descriptor that differs from the source
	CutExtra []ExtraField `json:"cut_extra,omitempty"`
}

type ExtraField struct {
	Struct string      `json:"struct"`
	F      tm.FieldDef `json:"f"`
}

func superset(u *tm.Universe, extra []ExtraField) *tm.Universe {
	if len(extra) == 0 {
		return u
	}
	c := &tm.Universe{Root: u.Root, Extra: u.Extra}
	for _, sd := range u.Structs {
		n := tm.StructDef{Name: sd.Name, Fields: append([]tm.FieldDef(nil), sd.Fields...)}
		for _, e := range extra {
			if e.Struct == sd.Name && n.Field(e.F.ID) == nil {
				n.Fields = append(n.Fields, e.F)
			}
		}
		c.Structs = append(c.Structs, n)
	}
	return c
}

func (cs Case) prevOpts() conv.Options {
	p := cs.Prev - 1
	return conv.Options{WriteRequireField: p&1 != 0, WriteDefaultField: p&2 != 0, WriteOptionalField: p&4 != 0, DisallowUnknownField: p&8 != 0}
}

// ---------------------------------------------------------------------------
// model

var errMissing = errors.New("missing required field")

type rule int

const (
	ruleConv rule = iota // j2t / t2j: HandleRequires semantics
	ruleCut              // generic MarshalTo
)

// fill returns the value a converter must produce for input value v: every present field kept, absent declared
// fields added per the documented rule (after the present ones, ascending id), or errMissing.
// optionalEither collects paths of absent optional fields for which cutting may or may not write (see plan assumptions).
func fill(v *tm.Value, ty *tm.Type, u *tm.Universe, o Opts, r rule) (*tm.Value, error) {
	switch ty.K {
	case tm.STRUCT:
		sd := u.Struct(ty.Ref)
		out := &tm.Value{K: tm.STRUCT}
		for _, f := range v.Fields {
			fd := sd.Field(f.ID)
			if fd == nil {
				continue // unknown: dropped (or rejected, decided by the caller)
			}
			c, err := fill(f.V, fd.T, u, o, r)
			if err != nil {
				return nil, err
			}
			out.Fields = append(out.Fields, tm.FieldVal{ID: f.ID, V: c})
		}
		if r == ruleCut && o.NotCheckRequire {
			return out, nil
		}
		ids := make([]int, 0, len(sd.Fields))
		for i := range sd.Fields {
			ids = append(ids, int(sd.Fields[i].ID))
		}
		sortInts(ids)
		for _, id := range ids {
			fd := sd.Field(int16(id))
			if v.Field(fd.ID) != nil {
				continue
			}
			hasDefault := o.UseDefaultValue && fd.Default != nil
			write := false
			switch fd.Req {
			case tm.ReqRequired:
				if r == ruleCut || !o.WriteRequire {
					return nil, errMissing
				}
				write = true
			case tm.ReqDefault:
				write = o.WriteDefault
			case tm.ReqOptional:
				if o.SetOptionalBitmap {
					if r == ruleCut {
						write = o.WriteDefault
					} else {
						write = o.WriteOptional || hasDefault
					}
				}
			}
			if !write {
				continue
			}
			val := tm.ZeroValue(fd.T)
			if hasDefault {
				val = fd.Default.Clone()
			}
			out.Fields = append(out.Fields, tm.FieldVal{ID: fd.ID, V: val})
		}
		return out, nil
	case tm.LIST, tm.SET:
		out := &tm.Value{K: v.K, ET: v.ET}
		for _, e := range v.Elems {
			c, err := fill(e, ty.Elem, u, o, r)
			if err != nil {
				return nil, err
			}
			out.Elems = append(out.Elems, c)
		}
		return out, nil
	case tm.MAP:
		out := &tm.Value{K: tm.MAP, KT: v.KT, ET: v.ET}
		for i, e := range v.Elems {
			c, err := fill(e, ty.Elem, u, o, r)
			if err != nil {
				return nil, err
			}
			out.Keys = append(out.Keys, v.Keys[i])
			out.Elems = append(out.Elems, c)
		}
		return out, nil
	}
	return v, nil
}

func sortInts(a []int) {
	for i := 1; i < len(a); i++ {
		for j := i; j > 0 && a[j] < a[j-1]; j-- {
			a[j], a[j-1] = a[j-1], a[j]
		}
	}
}

// optionalWithDefaultAbsent: an absent optional field carrying a parsed default under SetOptionalBitmap exists somewhere
// (cutting without WriteDefault: the statement does not settle whether it is written; both outcomes are accepted).
func optionalWithDefaultAbsent(v *tm.Value, ty *tm.Type, u *tm.Universe, o Opts) bool {
	switch ty.K {
	case tm.STRUCT:
		sd := u.Struct(ty.Ref)
		for i := range sd.Fields {
			fd := &sd.Fields[i]
			if c := v.Field(fd.ID); c != nil {
				if optionalWithDefaultAbsent(c, fd.T, u, o) {
					return true
				}
			} else if fd.Req == tm.ReqOptional && o.SetOptionalBitmap && o.UseDefaultValue && fd.Default != nil {
				return true
			}
		}
	case tm.LIST, tm.SET, tm.MAP:
		for _, e := range v.Elems {
			if optionalWithDefaultAbsent(e, ty.Elem, u, o) {
				return true
			}
		}
	}
	return false
}

func isCode(err error, code meta.ErrCode) bool {
	var me meta.Error
	for e := err; e != nil; e = errors.Unwrap(e) {
		if x, ok := e.(meta.Error); ok {
			me = x
			if me.Code.Behavior() == code {
				return true
			}
		}
	}
	return false
}

func errText(err error) string {
	s := err.Error()
	if len(s) > 300 {
		s = s[:300] + "..."
	}
	return s
}

// ---------------------------------------------------------------------------

// RegionPrefix is put in front of every known-finding region (C18 sets it to "<build variant>:").
var RegionPrefix = ""

func check(c *pbt.Ctx, cs Case) {
	popts := thrift.Options{SetOptionalBitmap: cs.O.SetOptionalBitmap, UseDefaultValue: cs.O.UseDefaultValue}
	comp, err := tm.CompileUniverse(cs.U, popts)
	if err != nil {
		c.Failf("harness-idl", "IDL rejected: %v\n%s", err, cs.U.Render())
	}
	if cs.FreshPools {
		runtime.GC()
		runtime.GC()
	}
	ctx := context.Background()
	co := conv.Options{WriteRequireField: cs.O.WriteRequire, WriteDefaultField: cs.O.WriteDefault, WriteOptionalField: cs.O.WriteOptional, DisallowUnknownField: cs.O.Disallow}
	want, werr := fill(cs.V, cs.U.Root, cs.U, cs.O, ruleConv)
	c.Class(fmt.Sprintf("opts:R=%v,D=%v,O=%v,sob=%v,udv=%v", b(cs.O.WriteRequire), b(cs.O.WriteDefault), b(cs.O.WriteOptional), b(cs.O.SetOptionalBitmap), b(cs.O.UseDefaultValue)))

	// ---- JSON -> Thrift
	{
		c.Step("j2t opts=%+v", cs.O)
		cv := j2t.NewBinaryConv(co)
		if cs.Prev > 0 {
			cv = j2t.NewBinaryConv(cs.prevOpts())
			cv.SetOptions(co)
			c.Class("options-through-SetOptions")
		}
		var out []byte
		text := append(make([]byte, 0, len(cs.Text)+16), cs.Text...)
		if cs.BufCap > 0 {
			// a caller buffer that is too small: the converter has to grow it while structs are open
			buf := make([]byte, 0, cs.BufCap-1)
			if !c.Protect("", func() { err = cv.DoInto(ctx, comp.Root, text, &buf); out = buf }) {
				return
			}
			c.Class("j2t:DoInto-small-buffer")
		} else if !c.Protect("", func() { out, err = cv.Do(ctx, comp.Root, text) }) {
			return
		}
		mustUnknown := cs.Unknown > 0 && cs.O.Disallow
		switch {
		case mustUnknown || werr != nil:
			if err == nil {
				c.Failf("j2t-missing-error", "j2t succeeded (%x) although unknown-disallowed=%v missing-required=%v\ndocument: %s", head(out), mustUnknown, werr != nil, cs.Show)
				return
			}
			if !mustUnknown && !isCode(err, meta.ErrMissRequiredField) {
				c.Failf("j2t-error-class", "absent required field: error is not ErrMissRequiredField: %s\ndocument: %s", errText(err), cs.Show)
				return
			}
			if werr == nil && !isCode(err, meta.ErrUnknownField) {
				c.Failf("j2t-error-class", "unknown member with DisallowUnknownField: error is not ErrUnknownField: %s\ndocument: %s", errText(err), cs.Show)
				return
			}
			c.Class("j2t:rejected")
		case err != nil:
			c.Failf("j2t-unexpected-error", "j2t fails: %s\ndocument: %s", errText(err), cs.Show)
			return
		default:
			// same: the value is what the rule demands, up to the two other known native deviations (see explain)
			same := func(g *tm.Value) bool {
				if tm.DiffFieldsByID(want, g) == "" {
					return true
				}
				doc, perr := jmodel.ParseRaw(cs.Text)
				if perr != nil {
					return false
				}
				var ex explain
				return ex.walk(want, g, doc, cs.U.Root, cs.U, cs.O)
			}
			got, derr := tm.DecodeStrict(cs.U.Root.K, out)
			if derr != nil {
				// known native deviation: a struct whose last member is null is closed while the output buffer has to grow for the
				// fill-in of its absent fields; the rollback restores the write position from before the null member's field header
				// was taken back, so that 3-byte header stays in the output. Attributed only if removing one 3-byte field header
				// gives exactly the expected value.
				reg := ""
				if danglingHeader(out, want, cs.U.Root.K, same) {
					reg = RegionPrefix + "j2t-native-null-last-member-regrow"
				}
				c.Fail(reg, "j2t-output", "j2t output is not well-formed Thrift: %v\n%x\ndocument: %s", derr, head(out), cs.Show)
				return
			}
			if d := tm.DiffFieldsByID(want, got); d != "" {
				reg := ""
				if doc, perr := jmodel.ParseRaw(cs.Text); perr == nil {
					var ex explain
					if ex.walk(want, got, doc, cs.U.Root, cs.U, cs.O) {
						switch {
						case ex.optDefault && ex.nullOptional:
							reg = RegionPrefix + "j2t-native-optional-with-default+null-optional"
						case ex.optDefault:
							reg = RegionPrefix + "j2t-native-optional-with-default"
						case ex.nullOptional:
							reg = RegionPrefix + "j2t-native-null-optional"
						}
					}
				}
				if reg == "" && danglingHeader(out, want, cs.U.Root.K, same) {
					reg = RegionPrefix + "j2t-native-null-last-member-regrow" // the stray header happened to decode
				}
				if !c.Fail(reg, "j2t-fields", "j2t output differs from the rule (want vs got): %s\ndocument: %s", d, cs.Show) {
					return
				}
			} else if d := tm.DiffEmptyTypes(want, got); d != "" {
				c.Failf("j2t-empty-container-types", "j2t output: an empty container is not of the declared type (want vs got): %s\ndocument: %s", d, cs.Show)
				return
			}
		}
	}

	// ---- Thrift -> JSON
	{
		c.Step("t2j opts=%+v", cs.O)
		cv := t2j.NewBinaryConv(co)
		if cs.Prev > 0 {
			cv = t2j.NewBinaryConv(cs.prevOpts())
			cv.SetOptions(co)
		}
		var out []byte
		msg := append(make([]byte, 0, len(cs.Msg)+16), cs.Msg...)
		if !c.Protect("", func() { out, err = cv.Do(ctx, comp.Root, msg) }) {
			return
		}
		mustUnknown := cs.WireUnknown > 0 && cs.O.Disallow
		switch {
		case mustUnknown || werr != nil:
			if err == nil {
				c.Failf("t2j-missing-error", "t2j succeeded (%s) although unknown-disallowed=%v missing-required=%v", out, mustUnknown, werr != nil)
				return
			}
			if !mustUnknown && !isCode(err, meta.ErrMissRequiredField) {
				c.Failf("t2j-error-class", "absent required field: error is not ErrMissRequiredField: %s", errText(err))
				return
			}
			c.Class("t2j:rejected")
		case err != nil:
			c.Failf("t2j-unexpected-error", "t2j fails: %s", errText(err))
			return
		default:
			n, perr := jmodel.ParseRaw(out)
			if perr != nil {
				c.Failf("t2j-output", "t2j output is not valid JSON: %v\n%s", perr, out)
				return
			}
			if d := tjson.Expect(n, want, cs.U.Root, cs.U, tjson.Opts{AnyOrder: true}, "$"); d != "" {
				c.Failf("t2j-fields", "t2j output differs from the rule: %s\nJSON: %s", d, show(out))
				return
			}
		}
	}

	// ---- generic cutting onto an equal, separately parsed descriptor
	{
		c.Step("MarshalTo opts=%+v", cs.O)
		tu := cs.U
		if cs.WireUnknown == 0 && len(cs.CutExtra) > 0 {
			tu = superset(cs.U, cs.CutExtra)
			c.Class("cut:target-superset")
		}
		to, err := tm.Compile(tu.Render()+"\n// cutting target\n", popts)
		if err != nil {
			c.Failf("harness-idl", "IDL rejected: %v\n%s", err, tu.Render())
		}
		if cs.U.Root.K == tm.STRUCT || cs.U.Root.K.IsContainer() {
			msg := append(make([]byte, 0, len(cs.Msg)+16), cs.Msg...)
			val := generic.NewValue(comp.Root, msg)
			gopts := &generic.Options{WriteDefault: cs.O.WriteDefault, NotCheckRequireNess: cs.O.NotCheckRequire, DisallowUnknow: cs.O.Disallow}
			var out []byte
			if !c.Protect("", func() { out, err = val.MarshalTo(to.Root, gopts) }) {
				return
			}
			wantCut, cerr := fill(cs.V, tu.Root, tu, cs.O, ruleCut)
			mustUnknown := cs.WireUnknown > 0 && cs.O.Disallow
			switch {
			case mustUnknown || cerr != nil:
				if err == nil {
					c.Failf("cut-missing-error", "MarshalTo succeeded (%x) although unknown-disallowed=%v missing-required=%v", head(out), mustUnknown, cerr != nil)
					return
				}
				c.Class("cut:rejected")
			case err != nil:
				c.Failf("cut-unexpected-error", "MarshalTo fails: %s", errText(err))
				return
			default:
				got, derr := tm.DecodeStrict(cs.U.Root.K, out)
				if derr != nil {
					c.Failf("cut-output", "MarshalTo output is not well-formed Thrift: %v\n%x", derr, head(out))
					return
				}
				d := tm.DiffFieldsByID(wantCut, got)
				if d != "" && !cs.O.WriteDefault && !cs.O.NotCheckRequire && optionalWithDefaultAbsent(cs.V, tu.Root, tu, cs.O) {
					// tolerated alternative: optional fields with a parsed default written although WriteDefault is off
					alt := cs.O
					alt.WriteOptional = false
					w2, _ := fillCutAlt(cs.V, tu.Root, tu, cs.O)
					if w2 != nil && tm.DiffFieldsByID(w2, got) == "" {
						d = ""
					}
				}
				if d != "" {
					c.Failf("cut-fields", "MarshalTo output differs from the rule (want vs got): %s", d)
					return
				}
				if d := tm.DiffEmptyTypes(wantCut, got); d != "" {
					c.Failf("cut-empty-container-types", "MarshalTo output: an empty container is not of the declared type (want vs got): %s", d)
					return
				}
			}
		}
	}
	if werr == nil && hasAbsent(cs.V, cs.U.Root, cs.U) {
		c.NonTrivial()
	}
	if werr != nil {
		c.NonTrivial()
		c.Class("missing-required")
	}
}

// danglingHeader reports whether out becomes the encoding of want once a single 3-byte sequence (a field header) is removed.
func danglingHeader(out []byte, want *tm.Value, k tm.Kind, same func(got *tm.Value) bool) bool {
	if want == nil || len(out) > 1<<16 {
		return false
	}
	for i := 0; i+3 <= len(out); i++ {
		if out[i] == 0 || out[i] > 15 {
			continue // not a type byte
		}
		cand := append(append(make([]byte, 0, len(out)-3), out[:i]...), out[i+3:]...)
		if got, err := tm.DecodeStrict(k, cand); err == nil && same(got) {
			return true
		}
	}
	return false
}

// explain decides whether every difference between the model's output and the converter's output is one of the
// two known native deviations: a field the model writes is missing from the output and it is (a) an optional field
// with a parsed default while WriteOptionalField is off, or (b) an optional field the document presents as null.
type explain struct {
	optDefault   bool
	nullOptional bool
}

func (ex *explain) walk(want, got *tm.Value, doc *jmodel.Node, ty *tm.Type, u *tm.Universe, o Opts) bool {
	if want == nil || got == nil || want.K != got.K {
		return false
	}
	switch ty.K {
	case tm.STRUCT:
		sd := u.Struct(ty.Ref)
		for _, g := range got.Fields {
			if want.Field(g.ID) == nil {
				return false // the converter wrote something the model does not
			}
		}
		for _, w := range want.Fields {
			fd := sd.Field(w.ID)
			g := got.Field(w.ID)
			var member *jmodel.Node
			if doc != nil && doc.K == jmodel.Obj {
				member = doc.Get(tjson.Key(fd))
			}
			if g == nil {
				switch {
				case fd.Req == tm.ReqOptional && member != nil && member.K == jmodel.Null:
					ex.nullOptional = true
				case fd.Req == tm.ReqOptional && !o.WriteOptional && o.UseDefaultValue && fd.Default != nil && member == nil:
					ex.optDefault = true
				default:
					return false
				}
				continue
			}
			if member == nil || member.K == jmodel.Null {
				// filled by both: must be equal
				if tm.DiffFieldsByID(w.V, g) != "" {
					return false
				}
				continue
			}
			if !ex.walk(w.V, g, member, fd.T, u, o) {
				return false
			}
		}
		return true
	case tm.LIST, tm.SET:
		if len(want.Elems) != len(got.Elems) || doc == nil || doc.K != jmodel.Arr || len(doc.Elems) != len(want.Elems) {
			return false
		}
		for i := range want.Elems {
			if !ex.walk(want.Elems[i], got.Elems[i], doc.Elems[i], ty.Elem, u, o) {
				return false
			}
		}
		return true
	case tm.MAP:
		if len(want.Elems) != len(got.Elems) || doc == nil || doc.K != jmodel.Obj {
			return false
		}
		for i := range want.Elems {
			kt, _ := tjson.KeyText(want.Keys[i], tjson.Opts{})
			m := doc.Get(kt)
			if m == nil || !ex.walk(want.Elems[i], got.Elems[i], m, ty.Elem, u, o) {
				return false
			}
		}
		return true
	}
	return tm.DiffFieldsByID(want, got) == ""
}

// fillCutAlt: cutting rule with optional+default fields written regardless of WriteDefault.
func fillCutAlt(v *tm.Value, ty *tm.Type, u *tm.Universe, o Opts) (*tm.Value, error) {
	// emulate by treating such fields through the converter rule for optionals only
	o2 := o
	o2.WriteOptional = false
	o2.WriteRequire = false
	w, err := fill(v, ty, u, o2, ruleConv)
	return w, err
}

func hasAbsent(v *tm.Value, ty *tm.Type, u *tm.Universe) bool {
	switch ty.K {
	case tm.STRUCT:
		sd := u.Struct(ty.Ref)
		for i := range sd.Fields {
			fd := &sd.Fields[i]
			if c := v.Field(fd.ID); c == nil {
				return true
			} else if hasAbsent(c, fd.T, u) {
				return true
			}
		}
	case tm.LIST, tm.SET, tm.MAP:
		for _, e := range v.Elems {
			if hasAbsent(e, ty.Elem, u) {
				return true
			}
		}
	}
	return false
}

func b(x bool) int {
	if x {
		return 1
	}
	return 0
}

func head(x []byte) []byte {
	if len(x) > 300 {
		return x[:300]
	}
	return x
}

func show(b []byte) string {
	if len(b) > 1500 {
		return fmt.Sprintf("%s ...(%d bytes)... %s", b[:800], len(b), b[len(b)-500:])
	}
	return string(b)
}

// ---------------------------------------------------------------------------
// generator

func addDefaults(t *rapid.T, u *tm.Universe) {
	for si := range u.Structs {
		for fi := range u.Structs[si].Fields {
			fd := &u.Structs[si].Fields[fi]
			if rapid.IntRange(0, 2).Draw(t, "hasDefault") != 0 {
				continue
			}
			switch fd.T.K {
			case tm.BOOL:
				fd.Default = &tm.Value{K: tm.BOOL, B: rapid.Bool().Draw(t, "defBool")}
			case tm.BYTE, tm.I16, tm.I32, tm.I64:
				fd.Default = &tm.Value{K: fd.T.K, I: tm.GenInt(t, fd.T.K)}
				if rapid.IntRange(0, 3).Draw(t, "defEnumConst") == 0 {
					// the default written as an enum constant (also on fields that are not i32)
					c := []struct {
						n string
						v int64
					}{{"VE.V0", 0}, {"VE.V1", 1}, {"VE.V7", 7}, {"VE.V100", 100}}[rapid.IntRange(0, 3).Draw(t, "defEnum")]
					fd.Default, fd.DefaultRef = &tm.Value{K: fd.T.K, I: c.v}, c.n
				}
			case tm.DOUBLE:
				f := []float64{0, 1.5, -2.25, 100, 1e10, 0.001, -7, 123456.789}[rapid.IntRange(0, 7).Draw(t, "defDouble")]
				fd.Default = &tm.Value{K: tm.DOUBLE, F: math.Float64bits(f)}
			case tm.STRING:
				if !fd.T.Bin {
					s := []string{"", "x", "default value", "a/b", "日本"}[rapid.IntRange(0, 4).Draw(t, "defString")]
					fd.Default = &tm.Value{K: tm.STRING, S: []byte(s)}
				}
			}
		}
	}
}

// dropFields removes present fields (required ones included) at any depth.
func dropFields(t *rapid.T, v *tm.Value, dropReq bool) {
	switch v.K {
	case tm.STRUCT:
		var keep []tm.FieldVal
		for _, f := range v.Fields {
			if dropReq && rapid.IntRange(0, 9).Draw(t, "drop") == 0 {
				continue
			}
			dropFields(t, f.V, dropReq)
			keep = append(keep, f)
		}
		v.Fields = keep
	case tm.LIST, tm.SET, tm.MAP:
		for _, e := range v.Elems {
			dropFields(t, e, dropReq)
		}
	}
}

func gen(t *rapid.T) Case {
	var o Opts
	o.WriteRequire = rapid.Bool().Draw(t, "writeRequire")
	o.WriteDefault = rapid.Bool().Draw(t, "writeDefault")
	o.WriteOptional = rapid.Bool().Draw(t, "writeOptional")
	o.Disallow = rapid.Bool().Draw(t, "disallow")
	o.SetOptionalBitmap = rapid.Bool().Draw(t, "setOptionalBitmap")
	o.UseDefaultValue = rapid.Bool().Draw(t, "useDefaultValue")
	o.NotCheckRequire = rapid.IntRange(0, 3).Draw(t, "notCheckRequire") == 0
	cfg := tm.GenCfg{MaxDepth: 3, KeyKinds: tjson.SupportedKeys, Reqs: true, Aliases: true, Lookalike: true, Recursive: true, WireOrder: true, ValidUTF8: true, FiniteDoubles: true,
		NoSet: false, BigIDs: rapid.IntRange(0, 2).Draw(t, "bigIDs") == 0, RootStruct: rapid.IntRange(0, 3).Draw(t, "rootStruct") != 0,
		BigSizes: rapid.IntRange(0, 5).Draw(t, "bigSizes") == 0}
	u := tm.GenUniverse(t, cfg)
	addDefaults(t, u)
	// in a quarter of the cases the root struct starts with a long list of small i64: its Thrift form is four times its JSON
	// form, so the converter's output buffer (sized by the document) has to grow while the root struct is open
	var expand *tm.FieldDef
	if u.Root.K == tm.STRUCT && rapid.IntRange(0, 3).Draw(t, "expand") == 0 {
		sd := u.Struct(u.Root.Ref)
		id := int16(1)
		for sd.Field(id) != nil {
			id++
		}
		sd.Fields = append(sd.Fields, tm.FieldDef{ID: id, Name: "zz_expand", Req: tm.ReqOptional, T: &tm.Type{K: tm.LIST, Elem: &tm.Type{K: tm.I64}}})
		expand = &sd.Fields[len(sd.Fields)-1]
	}
	v := tm.GenValue(t, u, u.Root, cfg)
	dropFields(t, v, rapid.IntRange(0, 2).Draw(t, "dropRequired") == 0)
	if expand != nil {
		l := &tm.Value{K: tm.LIST, ET: tm.I64}
		for i, n := 0, rapid.IntRange(40, 700).Draw(t, "expandLen"); i < n; i++ {
			l.Elems = append(l.Elems, &tm.Value{K: tm.I64, I: int64(i % 10)})
		}
		fs := []tm.FieldVal{{ID: expand.ID, V: l}}
		for _, f := range v.Fields {
			if f.ID != expand.ID {
				fs = append(fs, f)
			}
		}
		v.Fields = fs
	}
	cs := Case{U: u, V: v, O: o}
	doc := tjson.Write(t, v, u.Root, u, tjson.WOpts{Nulls: rapid.Bool().Draw(t, "nulls"), NullAny: true, Unknown: rapid.IntRange(0, 2).Draw(t, "unknowns") == 0}, rapid.Bool().Draw(t, "variants"))
	// null members stand for absent fields; null map values drop the entry: the denoted value is what both directions are judged against
	cs.V = doc.Denote
	cs.Text, cs.Unknown, cs.Show = doc.Text, doc.Unknown, show(doc.Text)
	wire := cs.V.Clone()
	if rapid.IntRange(0, 2).Draw(t, "wireUnknown") == 0 {
		cs.WireUnknown = tjson.InjectUnknown(t, wire, u.Root, u)
	}
	cs.Msg = tm.Encode(wire)
	cs.FreshPools = rapid.IntRange(0, 15).Draw(t, "freshPools") == 0
	if rapid.IntRange(0, 2).Draw(t, "cutSuperset") == 0 {
		types := []*tm.Type{{K: tm.I32}, {K: tm.STRING}, {K: tm.BOOL}, {K: tm.LIST, Elem: &tm.Type{K: tm.I32}}, {K: tm.MAP, Key: &tm.Type{K: tm.STRING}, Elem: &tm.Type{K: tm.I64}}, {K: tm.DOUBLE}}
		for i := range u.Structs {
			if rapid.Bool().Draw(t, "extraHere") {
				continue
			}
			id := int16(rapid.IntRange(1, 400).Draw(t, "extraID"))
			if u.Structs[i].Field(id) != nil {
				continue
			}
			cs.CutExtra = append(cs.CutExtra, ExtraField{Struct: u.Structs[i].Name, F: tm.FieldDef{ID: id, Name: fmt.Sprintf("zz_cut_%d", i),
				Req: []int{tm.ReqDefault, tm.ReqDefault, tm.ReqDefault, tm.ReqOptional, tm.ReqRequired}[rapid.IntRange(0, 4).Draw(t, "extraReq")],
				T:   types[rapid.IntRange(0, len(types)-1).Draw(t, "extraType")]}})
		}
	}
	if rapid.IntRange(0, 2).Draw(t, "smallBuffer") == 0 {
		cs.BufCap = 1 + []int{0, 1, 8, 16, 24, 32, 48, 64, 100, 128, 256}[rapid.IntRange(0, 10).Draw(t, "bufCap")]
	}
	if rapid.IntRange(0, 2).Draw(t, "viaSetOptions") == 0 {
		cs.Prev = 1 + rapid.IntRange(0, 15).Draw(t, "prevOpts")
	}
	return cs
}

// Prop returns the (unregistered) property under the given test name.
func Prop(name string) pbt.Prop[Case] {
	return pbt.Prop[Case]{
		Name:  name,
		Rule:  "generated IDL with any mix of requiredness and scalar defaults (literals, and enum constants on integer fields of every width) at any depth (ids beyond 64/256/32767, recursion) parsed with SetOptionalBitmap x UseDefaultValue; inputs presenting any subset of the fields (absent, null, present; required ones may be missing; unknown members / undeclared wire fields) x all 2^4 combinations of WriteRequireField/WriteDefaultField/WriteOptionalField/DisallowUnknownField (generic: WriteDefault/NotCheckRequireNess/DisallowUnknow), in a third of the cases installed through SetOptions on converters created with another combination; in a quarter of the cases the document starts with a list of 40..700 one-digit i64 (output four times the input: the output buffer grows while structs are open); j2t in a third of the cases through DoInto with a caller buffer of 0..256 bytes (grown while structs are open); the harness's truth-table model gives, per struct instance, the error or the exact set of fields with their values (present ones unchanged, absent ones filled with the parsed default or the zero value); j2t output, t2j output and generic MarshalTo onto a separately parsed descriptor (equal, or in a third of the cases declaring additional absent fields in some structs, so that the rules apply with a differing target at every depth incl. list elements and map values) are decoded and compared field by field (order of members free); error codes ErrMissRequiredField / ErrUnknownField; non-trivial = some declared field absent",
		Gen:   gen,
		Check: check,
	}
}

// ---------------------------------------------------------------------------
// capacity sweep: the result of JSON -> Thrift must not depend on the capacity of the caller's buffer

func checkSweep(c *pbt.Ctx, cs Case) {
	popts := thrift.Options{SetOptionalBitmap: cs.O.SetOptionalBitmap, UseDefaultValue: cs.O.UseDefaultValue}
	comp, err := tm.CompileUniverse(cs.U, popts)
	if err != nil {
		c.Failf("harness-idl", "IDL rejected: %v\n%s", err, cs.U.Render())
	}
	ctx := context.Background()
	co := conv.Options{WriteRequireField: cs.O.WriteRequire, WriteDefaultField: cs.O.WriteDefault, WriteOptionalField: cs.O.WriteOptional, DisallowUnknownField: cs.O.Disallow}
	cv := j2t.NewBinaryConv(co)
	text := append(make([]byte, 0, len(cs.Text)+16), cs.Text...)
	big := make([]byte, 0, 1<<20)
	var err0 error
	if !c.Protect("", func() { err0 = cv.DoInto(ctx, comp.Root, text, &big) }) {
		return
	}
	var ref *tm.Value
	if err0 == nil {
		ref, _ = tm.DecodeStrict(cs.U.Root.K, big)
	}
	hi := len(big) + 4
	if hi > 2600 {
		hi = 2600
	}
	c.Step("DoInto with every capacity 0..%d (large-buffer result: %d bytes, err=%v)", hi, len(big), err0)
	for capn := 0; capn <= hi; capn++ {
		buf := make([]byte, 0, capn)
		var e error
		if !c.Protect("", func() { e = cv.DoInto(ctx, comp.Root, text, &buf) }) {
			return
		}
		if (e == nil) != (err0 == nil) || (e == nil && !bytes.Equal(buf, big)) {
			reg := ""
			if e == nil && ref != nil && danglingHeader(buf, ref, cs.U.Root.K, func(g *tm.Value) bool { return tm.DiffFieldsByID(ref, g) == "" }) {
				reg = RegionPrefix + "j2t-native-null-last-member-regrow"
			}
			if c.Fail(reg, "capacity-dependent", "DoInto with capacity %d: err=%v, %d bytes; with a large buffer: err=%v, %d bytes\ndocument: %s", capn, e, len(buf), err0, len(big), cs.Show) {
				return
			}
		}
	}
	c.NonTrivial()
	if len(big) > len(cs.Text) {
		c.Class("output>document")
	}
}

// SweepProp: the same documents as Prop, converted into caller buffers of every capacity.
func SweepProp(name string) pbt.Prop[Case] {
	return pbt.Prop[Case]{
		Name:  name,
		Rule:  "the documents, descriptors and option sets of the requiredness table (incl. documents whose output is four times their size, null members, absent fields that are filled in); j2t.DoInto into caller buffers of every capacity from 0 to the output size (at most 2600): error-ness and bytes must equal the conversion into a 1 MiB buffer; every case is non-trivial",
		Gen:   gen,
		Check: checkSweep,
	}
}
