package tmodel

import (
	"encoding/binary"
	"errors"
	"fmt"
)

// Encode writes the Thrift binary encoding of v (no field header) and fills
// the span table (Start/End of every node, HdrStart of every struct field).
// Offsets are relative to the start of the returned slice plus base.
func Encode(v *Value) []byte {
	return encodeAt(nil, v)
}

// EncodeValue encodes without caring about spans (they are still written).
func EncodeValue(v *Value) []byte {
	c := v.Clone()
	return encodeAt(nil, c)
}

func encodeAt(b []byte, v *Value) []byte {
	v.Start = len(b)
	switch v.K {
	case BOOL:
		if v.B {
			b = append(b, 1)
		} else {
			b = append(b, 0)
		}
	case BYTE:
		b = append(b, byte(v.I))
	case I16:
		b = append(b, byte(v.I>>8), byte(v.I))
	case I32:
		b = append(b, byte(v.I>>24), byte(v.I>>16), byte(v.I>>8), byte(v.I))
	case I64:
		b = binary.BigEndian.AppendUint64(b, uint64(v.I))
	case DOUBLE:
		b = binary.BigEndian.AppendUint64(b, v.F)
	case STRING:
		b = binary.BigEndian.AppendUint32(b, uint32(len(v.S)))
		b = append(b, v.S...)
	case STRUCT:
		for i := range v.Fields {
			f := &v.Fields[i]
			f.HdrStart = len(b)
			b = append(b, byte(f.V.K), byte(uint16(f.ID)>>8), byte(f.ID))
			b = encodeAt(b, f.V)
		}
		b = append(b, 0)
	case LIST, SET:
		b = append(b, byte(v.ET))
		b = binary.BigEndian.AppendUint32(b, uint32(len(v.Elems)))
		for _, e := range v.Elems {
			b = encodeAt(b, e)
		}
	case MAP:
		b = append(b, byte(v.KT), byte(v.ET))
		b = binary.BigEndian.AppendUint32(b, uint32(len(v.Elems)))
		for i := range v.Elems {
			b = encodeAt(b, v.Keys[i])
			b = encodeAt(b, v.Elems[i])
		}
	default:
		panic(fmt.Sprintf("tmodel.Encode: bad kind %d", v.K))
	}
	v.End = len(b)
	return b
}

// Shift adds delta to every span of the tree (when the value is embedded at an offset).
func (v *Value) Shift(delta int) {
	v.Start += delta
	v.End += delta
	for i := range v.Fields {
		v.Fields[i].HdrStart += delta
		v.Fields[i].V.Shift(delta)
	}
	for _, k := range v.Keys {
		k.Shift(delta)
	}
	for _, e := range v.Elems {
		e.Shift(delta)
	}
}

var errShort = errors.New("truncated")

func validKind(k Kind) bool {
	switch k {
	case BOOL, BYTE, DOUBLE, I16, I32, I64, STRING, STRUCT, MAP, SET, LIST:
		return true
	}
	return false
}

// DecodeStrict parses exactly one value of kind k from b and requires that all
// of b is consumed, every type tag is valid, sizes are non-negative and in
// bounds, and bool bytes are 0/1. It fills the span table.
func DecodeStrict(k Kind, b []byte) (*Value, error) {
	v, n, err := decode(k, b, 0, 0)
	if err != nil {
		return nil, err
	}
	if n != len(b) {
		return nil, fmt.Errorf("trailing bytes: value ends at %d, buffer has %d", n, len(b))
	}
	return v, nil
}

// DecodePrefix parses one value of kind k from the start of b; returns bytes consumed.
func DecodePrefix(k Kind, b []byte) (*Value, int, error) {
	return decode(k, b, 0, 0)
}

func decode(k Kind, b []byte, off int, depth int) (*Value, int, error) {
	if depth > 4096 {
		return nil, 0, errors.New("too deep")
	}
	v := &Value{K: k, Start: off}
	need := func(n int) error {
		if n < 0 || off+n > len(b) {
			return fmt.Errorf("%w at %d (+%d > %d)", errShort, off, n, len(b))
		}
		return nil
	}
	switch k {
	case BOOL:
		if err := need(1); err != nil {
			return nil, 0, err
		}
		if b[off] > 1 {
			return nil, 0, fmt.Errorf("bool byte %#x at %d", b[off], off)
		}
		v.B = b[off] == 1
		off++
	case BYTE:
		if err := need(1); err != nil {
			return nil, 0, err
		}
		v.I = int64(int8(b[off]))
		off++
	case I16:
		if err := need(2); err != nil {
			return nil, 0, err
		}
		v.I = int64(int16(binary.BigEndian.Uint16(b[off:])))
		off += 2
	case I32:
		if err := need(4); err != nil {
			return nil, 0, err
		}
		v.I = int64(int32(binary.BigEndian.Uint32(b[off:])))
		off += 4
	case I64:
		if err := need(8); err != nil {
			return nil, 0, err
		}
		v.I = int64(binary.BigEndian.Uint64(b[off:]))
		off += 8
	case DOUBLE:
		if err := need(8); err != nil {
			return nil, 0, err
		}
		v.F = binary.BigEndian.Uint64(b[off:])
		off += 8
	case STRING:
		if err := need(4); err != nil {
			return nil, 0, err
		}
		n := int(int32(binary.BigEndian.Uint32(b[off:])))
		off += 4
		if n < 0 {
			return nil, 0, fmt.Errorf("negative string length %d at %d", n, off-4)
		}
		if err := need(n); err != nil {
			return nil, 0, err
		}
		v.S = append([]byte{}, b[off:off+n]...)
		off += n
	case STRUCT:
		for {
			if err := need(1); err != nil {
				return nil, 0, err
			}
			ft := Kind(b[off])
			if ft == STOP {
				off++
				break
			}
			if !validKind(ft) {
				return nil, 0, fmt.Errorf("invalid field type %d at %d", ft, off)
			}
			hdr := off
			if err := need(3); err != nil {
				return nil, 0, err
			}
			id := int16(binary.BigEndian.Uint16(b[off+1:]))
			off += 3
			fv, n, err := decode(ft, b, off, depth+1)
			if err != nil {
				return nil, 0, err
			}
			off = n
			v.Fields = append(v.Fields, FieldVal{ID: id, V: fv, HdrStart: hdr})
		}
	case LIST, SET:
		if err := need(5); err != nil {
			return nil, 0, err
		}
		v.ET = Kind(b[off])
		if !validKind(v.ET) {
			return nil, 0, fmt.Errorf("invalid elem type %d at %d", v.ET, off)
		}
		n := int(int32(binary.BigEndian.Uint32(b[off+1:])))
		off += 5
		if n < 0 || n > len(b) {
			return nil, 0, fmt.Errorf("bad container size %d at %d", n, off-4)
		}
		for i := 0; i < n; i++ {
			e, m, err := decode(v.ET, b, off, depth+1)
			if err != nil {
				return nil, 0, err
			}
			off = m
			v.Elems = append(v.Elems, e)
		}
	case MAP:
		if err := need(6); err != nil {
			return nil, 0, err
		}
		v.KT, v.ET = Kind(b[off]), Kind(b[off+1])
		n := int(int32(binary.BigEndian.Uint32(b[off+2:])))
		if n != 0 && (!validKind(v.KT) || !validKind(v.ET)) {
			return nil, 0, fmt.Errorf("invalid map types %d,%d at %d", v.KT, v.ET, off)
		}
		off += 6
		if n < 0 || n > len(b) {
			return nil, 0, fmt.Errorf("bad map size %d at %d", n, off-4)
		}
		for i := 0; i < n; i++ {
			kk, m, err := decode(v.KT, b, off, depth+1)
			if err != nil {
				return nil, 0, err
			}
			off = m
			e, m, err := decode(v.ET, b, off, depth+1)
			if err != nil {
				return nil, 0, err
			}
			off = m
			v.Keys = append(v.Keys, kk)
			v.Elems = append(v.Elems, e)
		}
	default:
		return nil, 0, fmt.Errorf("invalid kind %d", k)
	}
	v.End = off
	return v, off, nil
}

// DecodeCompare strictly decodes b as kind k and compares with want ("" = equal).
func DecodeCompare(k Kind, b []byte, want *Value) string {
	got, err := DecodeStrict(k, b)
	if err != nil {
		return "not well-formed: " + err.Error()
	}
	return Diff(got, want)
}
