package tmodel

import (
	"bytes"
	"fmt"
	"math"

	"github.com/cloudwego/dynamicgo/thrift"
)

// GoShape selects among the documented Go representations of Thrift values
// (thrift.GoType2ThriftType, BinaryProtocol.ReadAny/WriteAny/…WithDesc,
// generic Node.Interface()).
type GoShape struct {
	ByteAsUint8  bool // BYTE as uint8 (else int8)
	StrAsBinary  bool // STRING as []byte (else string)
	BinAsBytes   bool // with a Type: binary-typed STRING as []byte, others as string
	StructByName bool // with a Universe: struct as map[string]interface{} keyed by alias-or-name
	StructAsInt  bool // struct as map[int]interface{} (generic Interface() without MapStructById)
	IntKeyTyped  bool // integer-keyed maps as map[int8|int16|int32|int64] (write side); else map[int]
	I64AsInt     bool // write side: I64 as Go int
	AllIntAsInt  bool // write side with cast: every integer kind as Go int
	ByteKeyU8    bool // map[int] keys of BYTE-keyed maps in the uint8 view (0..255), as BinaryProtocol.ReadInt(BYTE) reports them
}

func goInt(k Kind, i int64, sh GoShape) interface{} {
	if sh.AllIntAsInt {
		if k == BYTE && sh.ByteAsUint8 {
			return int(uint8(i))
		}
		return int(i)
	}
	switch k {
	case BYTE:
		if sh.ByteAsUint8 {
			return uint8(i)
		}
		return int8(i)
	case I16:
		return int16(i)
	case I32:
		return int32(i)
	}
	if sh.I64AsInt {
		return int(i)
	}
	return i
}

// ToGo converts a model value to a Go value of the given shape. ty/u may be
// nil (then binary/alias information is unavailable).
func ToGo(v *Value, ty *Type, u *Universe, sh GoShape) interface{} {
	switch v.K {
	case BOOL:
		return v.B
	case BYTE, I16, I32, I64:
		return goInt(v.K, v.I, sh)
	case DOUBLE:
		return math.Float64frombits(v.F)
	case STRING:
		if sh.StrAsBinary || (sh.BinAsBytes && ty != nil && ty.Bin) {
			return append([]byte{}, v.S...)
		}
		return string(v.S)
	case LIST, SET:
		out := make([]interface{}, 0, len(v.Elems))
		var et *Type
		if ty != nil {
			et = ty.Elem
		}
		for _, e := range v.Elems {
			out = append(out, ToGo(e, et, u, sh))
		}
		return out
	case MAP:
		var kt, et *Type
		if ty != nil {
			kt, et = ty.Key, ty.Elem
		}
		switch {
		case v.KT == STRING:
			m := map[string]interface{}{}
			for i, k := range v.Keys {
				m[string(k.S)] = ToGo(v.Elems[i], et, u, sh)
			}
			return m
		case v.KT.IsInt() && !sh.IntKeyTyped:
			m := map[int]interface{}{}
			for i, k := range v.Keys {
				ki := int(k.I)
				if v.KT == BYTE && sh.ByteKeyU8 {
					ki = int(uint8(k.I))
				}
				m[ki] = ToGo(v.Elems[i], et, u, sh)
			}
			return m
		case v.KT == BYTE:
			m := map[int8]interface{}{}
			for i, k := range v.Keys {
				m[int8(k.I)] = ToGo(v.Elems[i], et, u, sh)
			}
			return m
		case v.KT == I16:
			m := map[int16]interface{}{}
			for i, k := range v.Keys {
				m[int16(k.I)] = ToGo(v.Elems[i], et, u, sh)
			}
			return m
		case v.KT == I32:
			m := map[int32]interface{}{}
			for i, k := range v.Keys {
				m[int32(k.I)] = ToGo(v.Elems[i], et, u, sh)
			}
			return m
		case v.KT == I64:
			m := map[int64]interface{}{}
			for i, k := range v.Keys {
				m[k.I] = ToGo(v.Elems[i], et, u, sh)
			}
			return m
		}
		m := map[interface{}]interface{}{}
		for i, k := range v.Keys {
			gk := ToGo(k, kt, u, sh)
			switch x := gk.(type) {
			case map[string]interface{}:
				gk = &x
			case map[int]interface{}:
				gk = &x
			case map[int8]interface{}:
				gk = &x
			case map[int16]interface{}:
				gk = &x
			case map[int32]interface{}:
				gk = &x
			case map[int64]interface{}:
				gk = &x
			case map[interface{}]interface{}:
				gk = &x
			case map[thrift.FieldID]interface{}:
				gk = &x
			case []interface{}:
				gk = &x
			}
			m[gk] = ToGo(v.Elems[i], et, u, sh)
		}
		return m
	case STRUCT:
		var sd *StructDef
		if ty != nil && u != nil {
			sd = u.Struct(ty.Ref)
		}
		if sh.StructByName && sd != nil {
			m := map[string]interface{}{}
			for _, f := range v.Fields {
				fd := sd.Field(f.ID)
				if fd == nil {
					continue
				}
				key := fd.Name
				if fd.Alias != "" {
					key = fd.Alias
				}
				m[key] = ToGo(f.V, fd.T, u, sh)
			}
			return m
		}
		if sh.StructAsInt {
			m := map[int]interface{}{}
			for _, f := range v.Fields {
				var ft *Type
				if sd != nil {
					if fd := sd.Field(f.ID); fd != nil {
						ft = fd.T
					}
				}
				m[int(f.ID)] = ToGo(f.V, ft, u, sh)
			}
			return m
		}
		m := map[thrift.FieldID]interface{}{}
		for _, f := range v.Fields {
			var ft *Type
			if sd != nil {
				if fd := sd.Field(f.ID); fd != nil {
					ft = fd.T
				}
			}
			m[thrift.FieldID(f.ID)] = ToGo(f.V, ft, u, sh)
		}
		return m
	}
	panic("ToGo: bad kind")
}

func deref(x interface{}) interface{} {
	switch p := x.(type) {
	case *map[string]interface{}:
		return *p
	case *map[int]interface{}:
		return *p
	case *map[interface{}]interface{}:
		return *p
	case *map[thrift.FieldID]interface{}:
		return *p
	case *[]interface{}:
		return *p
	case *map[int8]interface{}:
		return *p
	case *map[int16]interface{}:
		return *p
	case *map[int32]interface{}:
		return *p
	case *map[int64]interface{}:
		return *p
	}
	return x
}

// GoEqual compares two Go values of the documented shapes by content:
// pointer map keys are compared through their pointees, doubles by bits,
// []byte by content. Returns "" when equal.
func GoEqual(a, b interface{}) string { return goEq(a, b, "$") }

func goEq(a, b interface{}, path string) string {
	a, b = deref(a), deref(b)
	switch x := a.(type) {
	case float64:
		y, ok := b.(float64)
		if !ok || math.Float64bits(x) != math.Float64bits(y) {
			return fmt.Sprintf("%s: %#v vs %#v", path, a, b)
		}
		return ""
	case []byte:
		y, ok := b.([]byte)
		if !ok || !bytes.Equal(x, y) {
			return fmt.Sprintf("%s: %#v vs %#v", path, a, b)
		}
		return ""
	case []interface{}:
		y, ok := b.([]interface{})
		if !ok || len(x) != len(y) {
			return fmt.Sprintf("%s: list %T len %d vs %T", path, a, len(x), b)
		}
		for i := range x {
			if d := goEq(x[i], y[i], fmt.Sprintf("%s[%d]", path, i)); d != "" {
				return d
			}
		}
		return ""
	case map[string]interface{}:
		y, ok := b.(map[string]interface{})
		if !ok || len(x) != len(y) {
			return fmt.Sprintf("%s: %T(len %d) vs %T", path, a, len(x), b)
		}
		for k, v := range x {
			w, ok := y[k]
			if !ok {
				return fmt.Sprintf("%s: key %q missing", path, k)
			}
			if d := goEq(v, w, fmt.Sprintf("%s{%q}", path, k)); d != "" {
				return d
			}
		}
		return ""
	case map[int]interface{}:
		y, ok := b.(map[int]interface{})
		if !ok || len(x) != len(y) {
			return fmt.Sprintf("%s: %T(len %d) vs %T", path, a, len(x), b)
		}
		for k, v := range x {
			w, ok := y[k]
			if !ok {
				return fmt.Sprintf("%s: key %d missing", path, k)
			}
			if d := goEq(v, w, fmt.Sprintf("%s{%d}", path, k)); d != "" {
				return d
			}
		}
		return ""
	case map[thrift.FieldID]interface{}:
		y, ok := b.(map[thrift.FieldID]interface{})
		if !ok || len(x) != len(y) {
			return fmt.Sprintf("%s: %T(len %d) vs %T", path, a, len(x), b)
		}
		for k, v := range x {
			w, ok := y[k]
			if !ok {
				return fmt.Sprintf("%s: field %d missing", path, k)
			}
			if d := goEq(v, w, fmt.Sprintf("%s.%d", path, k)); d != "" {
				return d
			}
		}
		return ""
	case map[interface{}]interface{}:
		y, ok := b.(map[interface{}]interface{})
		if !ok || len(x) != len(y) {
			return fmt.Sprintf("%s: %T(len %d) vs %T", path, a, len(x), b)
		}
		used := map[interface{}]bool{}
	outer:
		for k, v := range x {
			for k2, w := range y {
				if used[k2] {
					continue
				}
				if goEq(k, k2, path) == "" {
					if d := goEq(v, w, fmt.Sprintf("%s{%v}", path, deref(k))); d != "" {
						return d
					}
					used[k2] = true
					continue outer
				}
			}
			return fmt.Sprintf("%s: key %v (%T) missing", path, deref(k), k)
		}
		return ""
	}
	// scalars: type and value
	if fmt.Sprintf("%T", a) != fmt.Sprintf("%T", b) || a != b {
		return fmt.Sprintf("%s: %#v (%T) vs %#v (%T)", path, a, a, b, b)
	}
	return ""
}

// Canon returns a copy with struct fields sorted by id (first occurrence wins
// position ties) and map entries sorted by encoded key, for order-insensitive
// comparison of outputs produced by iterating Go maps.
func Canon(v *Value) *Value {
	c := v.Clone()
	canon(c)
	return c
}

func canon(v *Value) {
	for i := range v.Fields {
		canon(v.Fields[i].V)
	}
	for _, k := range v.Keys {
		canon(k)
	}
	for _, e := range v.Elems {
		canon(e)
	}
	switch v.K {
	case STRUCT:
		fs := v.Fields
		for i := 1; i < len(fs); i++ {
			for j := i; j > 0 && fs[j-1].ID > fs[j].ID; j-- {
				fs[j-1], fs[j] = fs[j], fs[j-1]
			}
		}
	case MAP:
		n := len(v.Keys)
		enc := make([][]byte, n)
		for i := range enc {
			enc[i] = EncodeValue(v.Keys[i])
		}
		for i := 1; i < n; i++ {
			for j := i; j > 0 && bytes.Compare(enc[j-1], enc[j]) > 0; j-- {
				enc[j-1], enc[j] = enc[j], enc[j-1]
				v.Keys[j-1], v.Keys[j] = v.Keys[j], v.Keys[j-1]
				v.Elems[j-1], v.Elems[j] = v.Elems[j], v.Elems[j-1]
			}
		}
	}
}
