// Package tmodel is the harness's own model of Thrift types and values with an
// independent Thrift-binary reference codec (written from the protocol
// description; shares no code with dynamicgo), a span table, generators and an
// IDL renderer.
package tmodel

import (
	"bytes"
	"fmt"
	"math"
	"strings"
)

type Kind uint8

// Thrift binary protocol type codes.
const (
	STOP   Kind = 0
	BOOL   Kind = 2
	BYTE   Kind = 3
	DOUBLE Kind = 4
	I16    Kind = 6
	I32    Kind = 8
	I64    Kind = 10
	STRING Kind = 11
	STRUCT Kind = 12
	MAP    Kind = 13
	SET    Kind = 14
	LIST   Kind = 15
)

func (k Kind) String() string {
	switch k {
	case BOOL:
		return "bool"
	case BYTE:
		return "byte"
	case DOUBLE:
		return "double"
	case I16:
		return "i16"
	case I32:
		return "i32"
	case I64:
		return "i64"
	case STRING:
		return "string"
	case STRUCT:
		return "struct"
	case MAP:
		return "map"
	case SET:
		return "set"
	case LIST:
		return "list"
	}
	return fmt.Sprintf("kind(%d)", uint8(k))
}

func (k Kind) IsInt() bool       { return k == BYTE || k == I16 || k == I32 || k == I64 }
func (k Kind) IsContainer() bool { return k == MAP || k == SET || k == LIST }
func (k Kind) FixedSize() int {
	switch k {
	case BOOL, BYTE:
		return 1
	case I16:
		return 2
	case I32:
		return 4
	case I64, DOUBLE:
		return 8
	}
	return -1
}

// Type is a Thrift type; struct types are referenced by name into a Universe.
type Type struct {
	K    Kind   `json:"k"`
	Bin  bool   `json:"bin,omitempty"` // STRING declared as binary
	Key  *Type  `json:"key,omitempty"`
	Elem *Type  `json:"elem,omitempty"`
	Ref  string `json:"ref,omitempty"`  // struct name
	Enum string `json:"enum,omitempty"` // I32 declared as this enum
}

const (
	ReqDefault  = 0
	ReqRequired = 1
	ReqOptional = 2
)

type FieldDef struct {
	ID      int16  `json:"id"`
	Name    string `json:"name"`
	Alias   string `json:"alias,omitempty"` // api.key annotation
	Req     int    `json:"req,omitempty"`
	T       *Type  `json:"t"`
	Default *Value `json:"default,omitempty"` // scalar default literal
	// DefaultRef: the default is written as this constant of the enum VE (VE.V0 = 0, V1 = 1, V7 = 7, V100 = 100), Default holds its value
	DefaultRef string `json:"default_ref,omitempty"`
	Annos      []Anno `json:"annos,omitempty"` // extra annotations, rendered verbatim
}

type Anno struct {
	Key string `json:"k"`
	Val string `json:"v"`
}

type StructDef struct {
	Name   string     `json:"name"`
	Fields []FieldDef `json:"fields"`
}

// Universe is a set of struct definitions plus the root type.
type Universe struct {
	Structs  []StructDef `json:"structs"`
	Root     *Type       `json:"root"`
	Extra    []*Type     `json:"extra,omitempty"`    // further root types, exposed as methods M0, M1, ... of the service
	ArgID    int16       `json:"arg_id,omitempty"`   // id of the argument of method Call (0: the usual 1)
	Split    bool        `json:"split,omitempty"`    // every declaration lives in an included file (inc.thrift); main.thrift holds the service only and names the types as inc.X
	Typedefs bool        `json:"typedefs,omitempty"` // fields with an odd id name their scalar types through typedefs (typedef binary TBinary, ...)
}

func (u *Universe) Struct(name string) *StructDef {
	for i := range u.Structs {
		if u.Structs[i].Name == name {
			return &u.Structs[i]
		}
	}
	return nil
}

func (s *StructDef) Field(id int16) *FieldDef {
	for i := range s.Fields {
		if s.Fields[i].ID == id {
			return &s.Fields[i]
		}
	}
	return nil
}

func (s *StructDef) FieldByName(n string) *FieldDef {
	for i := range s.Fields {
		if s.Fields[i].Name == n {
			return &s.Fields[i]
		}
	}
	return nil
}

// FieldVal is one field occurrence of a struct value, in wire order.
type FieldVal struct {
	ID int16  `json:"id"`
	V  *Value `json:"v"`

	HdrStart int `json:"-"` // offset of the field header (type byte)
}

// Value is a Thrift value tree. Structs keep wire order; maps keep entry order.
type Value struct {
	K      Kind       `json:"k"`
	B      bool       `json:"b,omitempty"`
	I      int64      `json:"i,omitempty"`
	F      uint64     `json:"f,omitempty"` // float64 bits
	S      []byte     `json:"s,omitempty"` // string / binary
	Fields []FieldVal `json:"fields,omitempty"`
	KT     Kind       `json:"kt,omitempty"`
	ET     Kind       `json:"et,omitempty"`
	Keys   []*Value   `json:"keys,omitempty"`
	Elems  []*Value   `json:"elems,omitempty"` // list/set elements, map values

	// span table, filled by Encode
	Start int `json:"-"`
	End   int `json:"-"`
}

func (v *Value) Len() int {
	switch v.K {
	case STRUCT:
		return len(v.Fields)
	case MAP, LIST, SET:
		return len(v.Elems)
	case STRING:
		return len(v.S)
	}
	return 0
}

// Field returns the first occurrence of a field id.
func (v *Value) Field(id int16) *Value {
	for i := range v.Fields {
		if v.Fields[i].ID == id {
			return v.Fields[i].V
		}
	}
	return nil
}

// Clone deep-copies a value.
func (v *Value) Clone() *Value {
	if v == nil {
		return nil
	}
	c := *v
	c.S = append([]byte(nil), v.S...)
	if v.S == nil {
		c.S = nil
	}
	c.Fields = make([]FieldVal, len(v.Fields))
	for i, f := range v.Fields {
		c.Fields[i] = FieldVal{ID: f.ID, V: f.V.Clone()}
	}
	if len(v.Fields) == 0 {
		c.Fields = nil
	}
	c.Keys = nil
	for _, k := range v.Keys {
		c.Keys = append(c.Keys, k.Clone())
	}
	c.Elems = nil
	for _, e := range v.Elems {
		c.Elems = append(c.Elems, e.Clone())
	}
	return &c
}

// Equal compares two values structurally, order-sensitively (wire order of
// struct fields, element order of lists/sets, entry order of maps). Doubles are
// compared by bit pattern.
func Equal(a, b *Value) bool { return Diff(a, b) == "" }

// Diff returns "" when equal, else a description of the first difference.
func Diff(a, b *Value) string { return diff(a, b, "$") }

func diff(a, b *Value, path string) string {
	if a == nil || b == nil {
		if a == b {
			return ""
		}
		return fmt.Sprintf("%s: nil vs non-nil", path)
	}
	if a.K != b.K {
		return fmt.Sprintf("%s: kind %v vs %v", path, a.K, b.K)
	}
	switch a.K {
	case BOOL:
		if a.B != b.B {
			return fmt.Sprintf("%s: %v vs %v", path, a.B, b.B)
		}
	case BYTE, I16, I32, I64:
		if a.I != b.I {
			return fmt.Sprintf("%s: %d vs %d", path, a.I, b.I)
		}
	case DOUBLE:
		if a.F != b.F {
			return fmt.Sprintf("%s: double bits %#x vs %#x", path, a.F, b.F)
		}
	case STRING:
		if !bytes.Equal(a.S, b.S) {
			return fmt.Sprintf("%s: string %q vs %q", path, a.S, b.S)
		}
	case STRUCT:
		if len(a.Fields) != len(b.Fields) {
			return fmt.Sprintf("%s: %d fields %v vs %d fields %v", path, len(a.Fields), a.fieldIDs(), len(b.Fields), b.fieldIDs())
		}
		for i := range a.Fields {
			if a.Fields[i].ID != b.Fields[i].ID {
				return fmt.Sprintf("%s: field order %v vs %v", path, a.fieldIDs(), b.fieldIDs())
			}
			if d := diff(a.Fields[i].V, b.Fields[i].V, fmt.Sprintf("%s.%d", path, a.Fields[i].ID)); d != "" {
				return d
			}
		}
	case LIST, SET:
		if a.ET != b.ET && (len(a.Elems) > 0 || len(b.Elems) > 0) {
			return fmt.Sprintf("%s: elem type %v vs %v", path, a.ET, b.ET)
		}
		if len(a.Elems) != len(b.Elems) {
			return fmt.Sprintf("%s: len %d vs %d", path, len(a.Elems), len(b.Elems))
		}
		for i := range a.Elems {
			if d := diff(a.Elems[i], b.Elems[i], fmt.Sprintf("%s[%d]", path, i)); d != "" {
				return d
			}
		}
	case MAP:
		if len(a.Elems) != len(b.Elems) {
			return fmt.Sprintf("%s: map len %d vs %d", path, len(a.Elems), len(b.Elems))
		}
		if (a.KT != b.KT || a.ET != b.ET) && len(a.Elems) > 0 {
			return fmt.Sprintf("%s: map types %v,%v vs %v,%v", path, a.KT, a.ET, b.KT, b.ET)
		}
		for i := range a.Elems {
			if d := diff(a.Keys[i], b.Keys[i], fmt.Sprintf("%s{key %d}", path, i)); d != "" {
				return d
			}
			if d := diff(a.Elems[i], b.Elems[i], fmt.Sprintf("%s{%s}", path, a.Keys[i].Short())); d != "" {
				return d
			}
		}
	}
	return ""
}

func (v *Value) fieldIDs() []int16 {
	ids := make([]int16, len(v.Fields))
	for i, f := range v.Fields {
		ids[i] = f.ID
	}
	return ids
}

// Short renders a compact description (for messages).
func (v *Value) Short() string {
	if v == nil {
		return "<nil>"
	}
	switch v.K {
	case BOOL:
		return fmt.Sprint(v.B)
	case BYTE, I16, I32, I64:
		return fmt.Sprintf("%d", v.I)
	case DOUBLE:
		return fmt.Sprintf("%v", math.Float64frombits(v.F))
	case STRING:
		if len(v.S) > 24 {
			return fmt.Sprintf("%q..(%d)", v.S[:24], len(v.S))
		}
		return fmt.Sprintf("%q", v.S)
	case STRUCT:
		var b strings.Builder
		b.WriteString("{")
		for i, f := range v.Fields {
			if i > 0 {
				b.WriteString(",")
			}
			if i >= 6 {
				fmt.Fprintf(&b, "..%d more", len(v.Fields)-i)
				break
			}
			fmt.Fprintf(&b, "%d:%s", f.ID, f.V.Short())
		}
		b.WriteString("}")
		return b.String()
	case LIST, SET:
		var b strings.Builder
		fmt.Fprintf(&b, "%v<%v>[", v.K, v.ET)
		for i, e := range v.Elems {
			if i > 0 {
				b.WriteString(",")
			}
			if i >= 6 {
				fmt.Fprintf(&b, "..%d more", len(v.Elems)-i)
				break
			}
			b.WriteString(e.Short())
		}
		b.WriteString("]")
		return b.String()
	case MAP:
		var b strings.Builder
		fmt.Fprintf(&b, "map<%v,%v>{", v.KT, v.ET)
		for i, e := range v.Elems {
			if i > 0 {
				b.WriteString(",")
			}
			if i >= 6 {
				fmt.Fprintf(&b, "..%d more", len(v.Elems)-i)
				break
			}
			fmt.Fprintf(&b, "%s:%s", v.Keys[i].Short(), e.Short())
		}
		b.WriteString("}")
		return b.String()
	}
	return "?"
}

// KeyIndex returns the index of the entry whose key encodes to the same bytes, or -1.
func (v *Value) KeyIndex(k *Value) int {
	kb := EncodeValue(k)
	for i, kk := range v.Keys {
		if bytes.Equal(EncodeValue(kk), kb) {
			return i
		}
	}
	return -1
}

// DiffFieldsByID is Diff with struct fields matched by id instead of by wire position
// (containers stay order-sensitive). Values with repeated field ids are not supported.
func DiffFieldsByID(a, b *Value) string { return diffByID(a, b, "$") }

func diffByID(a, b *Value, path string) string {
	if a == nil || b == nil || a.K != b.K {
		return diff(a, b, path)
	}
	switch a.K {
	case STRUCT:
		if len(a.Fields) != len(b.Fields) {
			return fmt.Sprintf("%s: fields %v vs %v", path, a.fieldIDs(), b.fieldIDs())
		}
		for _, f := range a.Fields {
			o := b.Field(f.ID)
			if o == nil {
				return fmt.Sprintf("%s: field %d missing in the second value; fields %v vs %v", path, f.ID, a.fieldIDs(), b.fieldIDs())
			}
			if d := diffByID(f.V, o, fmt.Sprintf("%s.%d", path, f.ID)); d != "" {
				return d
			}
		}
		return ""
	case LIST, SET:
		if len(a.Elems) != len(b.Elems) || a.ET != b.ET {
			return diff(a, b, path)
		}
		for i := range a.Elems {
			if d := diffByID(a.Elems[i], b.Elems[i], fmt.Sprintf("%s[%d]", path, i)); d != "" {
				return d
			}
		}
		return ""
	case MAP:
		if len(a.Elems) != len(b.Elems) || a.ET != b.ET || a.KT != b.KT {
			return diff(a, b, path)
		}
		for i := range a.Elems {
			if d := diffByID(a.Keys[i], b.Keys[i], fmt.Sprintf("%s{key %d}", path, i)); d != "" {
				return d
			}
			if d := diffByID(a.Elems[i], b.Elems[i], fmt.Sprintf("%s{%d}", path, i)); d != "" {
				return d
			}
		}
		return ""
	}
	return diff(a, b, path)
}

// DiffEmptyTypes compares the element / key types that empty containers carry on the wire (Diff and
// DiffFieldsByID leave them out); a and b must already be equal under DiffFieldsByID.
func DiffEmptyTypes(a, b *Value) string { return diffEmptyTypes(a, b, "$") }

func diffEmptyTypes(a, b *Value, path string) string {
	if a == nil || b == nil || a.K != b.K {
		return ""
	}
	switch a.K {
	case STRUCT:
		for _, f := range a.Fields {
			if o := b.Field(f.ID); o != nil {
				if d := diffEmptyTypes(f.V, o, fmt.Sprintf("%s.%d", path, f.ID)); d != "" {
					return d
				}
			}
		}
	case LIST, SET:
		if len(a.Elems) == 0 && len(b.Elems) == 0 && a.ET != b.ET {
			return fmt.Sprintf("%s: empty %v of %v vs of %v", path, a.K, a.ET, b.ET)
		}
		for i := range a.Elems {
			if i < len(b.Elems) {
				if d := diffEmptyTypes(a.Elems[i], b.Elems[i], fmt.Sprintf("%s[%d]", path, i)); d != "" {
					return d
				}
			}
		}
	case MAP:
		if len(a.Elems) == 0 && len(b.Elems) == 0 && (a.ET != b.ET || a.KT != b.KT) {
			return fmt.Sprintf("%s: empty map<%v,%v> vs map<%v,%v>", path, a.KT, a.ET, b.KT, b.ET)
		}
		for i := range a.Elems {
			if i < len(b.Elems) {
				if d := diffEmptyTypes(a.Elems[i], b.Elems[i], fmt.Sprintf("%s{%d}", path, i)); d != "" {
					return d
				}
			}
		}
	}
	return ""
}
