package tmodel

import (
	"context"
	"crypto/sha1"
	"fmt"
	"math"
	"strconv"
	"strings"
	"sync"

	"github.com/cloudwego/dynamicgo/thrift"
	_ "github.com/cloudwego/dynamicgo/thrift/annotation" // registers api.key, go.tag, api.* http annotations, as the converters do
)

// TypeIDL renders a type reference.
func TypeIDL(t *Type) string {
	switch t.K {
	case BOOL:
		return "bool"
	case BYTE:
		return "byte"
	case I16:
		return "i16"
	case I32:
		if t.Enum != "" {
			return t.Enum
		}
		return "i32"
	case I64:
		return "i64"
	case DOUBLE:
		return "double"
	case STRING:
		if t.Bin {
			return "binary"
		}
		return "string"
	case STRUCT:
		return t.Ref
	case LIST:
		return "list<" + TypeIDL(t.Elem) + ">"
	case SET:
		return "set<" + TypeIDL(t.Elem) + ">"
	case MAP:
		return "map<" + TypeIDL(t.Key) + "," + TypeIDL(t.Elem) + ">"
	}
	panic("TypeIDL")
}

// typedefIDL: like TypeIDL, base types named through the typedefs declared by Render.
func typedefIDL(t *Type) string {
	switch t.K {
	case BOOL:
		return "TBool"
	case BYTE:
		return "TByte"
	case I16:
		return "TI16"
	case I32:
		if t.Enum != "" {
			return t.Enum
		}
		return "TI32"
	case I64:
		return "TI64"
	case DOUBLE:
		return "TDouble"
	case STRING:
		if t.Bin {
			return "TBinary"
		}
		return "TString"
	case STRUCT:
		return t.Ref
	case LIST:
		return "list<" + typedefIDL(t.Elem) + ">"
	case SET:
		return "set<" + typedefIDL(t.Elem) + ">"
	case MAP:
		return "map<" + typedefIDL(t.Key) + "," + typedefIDL(t.Elem) + ">"
	}
	panic("typedefIDL")
}

func constIDL(v *Value) string {
	switch v.K {
	case BOOL:
		if v.B {
			return "true"
		}
		return "false"
	case BYTE, I16, I32, I64:
		return strconv.FormatInt(v.I, 10)
	case DOUBLE:
		f := math.Float64frombits(v.F)
		s := strconv.FormatFloat(f, 'f', -1, 64) // no exponent form: IDL parsers disagree on it
		if !strings.Contains(s, ".") {
			s += ".0"
		}
		return s
	case STRING:
		return strconv.Quote(string(v.S))
	}
	panic("constIDL: unsupported default kind")
}

// Render produces Thrift IDL text: the structs of the universe and a service
// "Svc" with one method "Call" that takes and returns the root type.
func (u *Universe) Render() string {
	var b strings.Builder
	b.WriteString("namespace go verif\n\n")
	for _, s := range u.Structs {
		for _, f := range s.Fields {
			if f.DefaultRef != "" && !strings.Contains(b.String(), "enum VE") {
				b.WriteString("enum VE { V0 = 0, V1 = 1, V7 = 7, V100 = 100 }\n\n")
			}
		}
	}
	if u.Typedefs {
		b.WriteString("typedef bool TBool\ntypedef byte TByte\ntypedef i16 TI16\ntypedef i32 TI32\ntypedef i64 TI64\ntypedef double TDouble\ntypedef string TString\ntypedef binary TBinary\n\n")
	}
	for _, s := range u.Structs {
		fmt.Fprintf(&b, "struct %s {\n", s.Name)
		for _, f := range s.Fields {
			req := ""
			switch f.Req {
			case ReqRequired:
				req = "required "
			case ReqOptional:
				req = "optional "
			}
			tn := TypeIDL(f.T)
			if u.Typedefs && f.ID%2 != 0 {
				tn = typedefIDL(f.T)
			}
			fmt.Fprintf(&b, "  %d: %s%s %s", f.ID, req, tn, f.Name)
			if f.Default != nil && f.DefaultRef != "" {
				fmt.Fprintf(&b, " = %s", f.DefaultRef)
			} else if f.Default != nil {
				fmt.Fprintf(&b, " = %s", constIDL(f.Default))
			}
			var annos []string
			if f.Alias != "" {
				annos = append(annos, fmt.Sprintf("api.key = %s", strconv.Quote(f.Alias)))
			}
			for _, a := range f.Annos {
				annos = append(annos, fmt.Sprintf("%s = %s", a.Key, strconv.Quote(a.Val)))
			}
			if len(annos) > 0 {
				fmt.Fprintf(&b, " (%s)", strings.Join(annos, ", "))
			}
			b.WriteString(",\n")
		}
		b.WriteString("}\n\n")
	}
	argID := u.ArgID
	if argID == 0 {
		argID = 1
	}
	q := func(t *Type) string { return TypeIDL(t) }
	if u.Split {
		q = func(t *Type) string { return qualifiedIDL(t, "inc.") }
	}
	var sv strings.Builder
	fmt.Fprintf(&sv, "service Svc {\n  %s Call(%d: %s req)\n", q(u.Root), argID, q(u.Root))
	for i, x := range u.Extra {
		fmt.Fprintf(&sv, "  %s M%d(1: %s req)\n", q(x), i, q(x))
	}
	sv.WriteString("}\n")
	if u.Split {
		// main file first, then the included one behind a marker line (Compile splits them again)
		return "namespace go verif\ninclude \"inc.thrift\"\n\n" + sv.String() + SplitMarker + strings.Replace(b.String(), "namespace go verif", "namespace go inc", 1)
	}
	b.WriteString(sv.String())
	return b.String()
}

// SplitMarker separates main.thrift from inc.thrift in the text Render returns for a split universe.
const SplitMarker = "\n// ---- inc.thrift ----\n"

// qualifiedIDL: like TypeIDL, struct and enum names prefixed (types declared in an included file).
func qualifiedIDL(t *Type, prefix string) string {
	switch t.K {
	case I32:
		if t.Enum != "" {
			return prefix + t.Enum
		}
	case STRUCT:
		return prefix + t.Ref
	case LIST:
		return "list<" + qualifiedIDL(t.Elem, prefix) + ">"
	case SET:
		return "set<" + qualifiedIDL(t.Elem, prefix) + ">"
	case MAP:
		return "map<" + qualifiedIDL(t.Key, prefix) + "," + qualifiedIDL(t.Elem, prefix) + ">"
	}
	return TypeIDL(t)
}

// Compiled holds dynamicgo descriptors parsed from a rendered universe.
type Compiled struct {
	IDL   string
	Svc   *thrift.ServiceDescriptor
	Fn    *thrift.FunctionDescriptor
	Root  *thrift.TypeDescriptor   // descriptor of the root type (request field 1)
	Req   *thrift.TypeDescriptor   // wrapping request struct
	Resp  *thrift.TypeDescriptor   // wrapping response struct (field 0 = root)
	Extra []*thrift.TypeDescriptor // descriptors of the Extra roots (methods M0, M1, ...)
}

var (
	tcMu    sync.Mutex
	tcCache = map[string]*Compiled{}
	tcOrder []string
)

// Compile parses IDL text through dynamicgo's public front end.
func Compile(idl string, opts thrift.Options) (*Compiled, error) {
	key := fmt.Sprintf("%x|%+v", sha1.Sum([]byte(idl)), opts)
	tcMu.Lock()
	if c, ok := tcCache[key]; ok {
		tcMu.Unlock()
		return c, nil
	}
	tcMu.Unlock()
	var includes map[string]string
	mainText := idl
	if i := strings.Index(idl, SplitMarker); i >= 0 {
		mainText, includes = idl[:i], map[string]string{"inc.thrift": idl[i+len(SplitMarker):]}
	}
	svc, err := opts.NewDescritorFromContent(context.Background(), "main.thrift", mainText, includes, true)
	if err != nil {
		return nil, err
	}
	fn, err := svc.LookupFunctionByMethod("Call")
	if err != nil {
		return nil, err
	}
	c := &Compiled{IDL: idl, Svc: svc, Fn: fn, Req: fn.Request(), Resp: fn.Response()}
	if c.Req != nil && c.Req.Struct() != nil {
		if fs := c.Req.Struct().Fields(); len(fs) == 1 {
			c.Root = fs[0].Type()
		}
	}
	if c.Root == nil {
		return nil, fmt.Errorf("request descriptor has no single argument")
	}
	for i := 0; ; i++ {
		fx, err := svc.LookupFunctionByMethod(fmt.Sprintf("M%d", i))
		if err != nil || fx == nil {
			break
		}
		var d *thrift.TypeDescriptor
		if r := fx.Request(); r != nil && r.Struct() != nil {
			if f := r.Struct().FieldById(1); f != nil {
				d = f.Type()
			}
		}
		c.Extra = append(c.Extra, d)
	}
	tcMu.Lock()
	tcCache[key] = c
	tcOrder = append(tcOrder, key)
	if len(tcOrder) > 128 {
		delete(tcCache, tcOrder[0])
		tcOrder = tcOrder[1:]
	}
	tcMu.Unlock()
	return c, nil
}

// CompileUniverse renders and compiles.
func CompileUniverse(u *Universe, opts thrift.Options) (*Compiled, error) {
	return Compile(u.Render(), opts)
}
