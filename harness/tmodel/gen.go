package tmodel

import (
	"bytes"
	"fmt"
	"math"

	"pgregory.net/rapid"
)

// GenCfg steers the type and value generators.
type GenCfg struct {
	MaxDepth      int    // nesting depth of types (default 4)
	MaxWidth      int    // fields per struct / elements per container in the common case (default 5)
	KeyKinds      []Kind // allowed map key kinds (default: all scalar kinds and STRUCT)
	NoBinary      bool   // no binary-typed strings
	ValidUTF8     bool   // non-binary strings are valid UTF-8
	FiniteDoubles bool
	BigSizes      bool // container sizes 17..40 and wide structs in a size class
	BigIDs        bool // field ids up to 32767 (else 1..300)
	Reqs          bool // draw requiredness (else default only)
	AllPresent    bool // values carry every declared field
	Aliases       bool // api.key aliases
	Lookalike     bool // a sixth of the first structs get 20..44 more fields with look-alike names (hash-stored key map)
	Recursive     bool // structs may reference themselves / earlier structs through optional fields and containers
	MaxStructs    int  // default 4
	NoSet         bool
	NoStructKey   bool
	RootStruct    bool // root type is a struct
	WireOrder     bool // shuffle struct fields on the wire (else declaration order)
	NonEmpty      bool // every container has at least one element (descriptor-free writers need it)
}

func (c GenCfg) norm() GenCfg {
	if c.MaxDepth == 0 {
		c.MaxDepth = 4
	}
	if c.MaxWidth == 0 {
		c.MaxWidth = 5
	}
	if c.MaxStructs == 0 {
		c.MaxStructs = 4
	}
	if c.KeyKinds == nil {
		c.KeyKinds = []Kind{STRING, BYTE, I16, I32, I64, DOUBLE, BOOL, STRING, I32, I64}
		if !c.NoStructKey {
			c.KeyKinds = append(c.KeyKinds, STRUCT)
		}
	}
	return c
}

var forcedIDs = []int16{1, 2, 63, 64, 65, 127, 128, 255, 256, 257, 1000, 32767}

func genFieldID(t *rapid.T, used map[int16]bool, cfg GenCfg) int16 {
	for i := 0; ; i++ {
		var id int16
		c := rapid.IntRange(0, 9).Draw(t, "idClass")
		switch {
		case c < 3 && i <= 10:
			id = int16(rapid.IntRange(1, 8+i*4).Draw(t, "id"))
		case c < 6 || i > 10:
			id = int16(rapid.IntRange(1, 24+i*4).Draw(t, "id"))
		case c < 8:
			id = forcedIDs[rapid.IntRange(0, len(forcedIDs)-1).Draw(t, "idForced")]
			if !cfg.BigIDs && id > 300 {
				id = 300
			}
		case c == 8:
			// a small id shifted by a multiple of 32 / 64: the same bit of another word (or half word) of a requires bitmap
			id = int16(rapid.IntRange(1, 8).Draw(t, "idLow") + 32*rapid.IntRange(1, 4).Draw(t, "idWord"))
		default:
			hi := 300
			if cfg.BigIDs {
				hi = 32767
			}
			id = int16(rapid.IntRange(1, hi).Draw(t, "id"))
		}
		if !used[id] {
			used[id] = true
			return id
		}
	}
}

// bytes an api.key may hold besides identifier characters (no quote, no backslash: the IDL literal stays plain)
var aliasPunct = []byte(" !#$%&'()*+,-./:;<=>?@[]^`{|}~")

var fieldNameParts = []string{"a", "b", "c", "id", "foo", "Bar", "val", "x1", "data", "Item", "key", "msg", "n", "req_z", "UP"}

func genName(t *rapid.T, used map[string]bool) string {
	for i := 0; ; i++ {
		n := rapid.IntRange(1, 3).Draw(t, "nameLen")
		s := "f"
		for j := 0; j < n; j++ {
			s += "_" + fieldNameParts[rapid.IntRange(0, len(fieldNameParts)-1).Draw(t, "namePart")]
		}
		if i > 10 {
			s = fmt.Sprintf("%s%d", s, i)
		}
		if !used[s] {
			used[s] = true
			return s
		}
	}
}

var scalarKinds = []Kind{BOOL, BYTE, I16, I32, I64, DOUBLE, STRING}

// genType draws a type. structs[lo:] are the struct names that may be referenced.
func genType(t *rapid.T, cfg GenCfg, structs []string, depth int, asKey bool) *Type {
	c := rapid.IntRange(0, 9).Draw(t, "typeClass")
	if depth >= cfg.MaxDepth && c >= 5 {
		c = 0
	}
	switch {
	case c < 5:
		k := scalarKinds[rapid.IntRange(0, len(scalarKinds)-1).Draw(t, "scalarKind")]
		ty := &Type{K: k}
		if k == STRING && !cfg.NoBinary && !asKey && rapid.IntRange(0, 3).Draw(t, "isBinary") == 0 {
			ty.Bin = true
		}
		return ty
	case c < 7 && len(structs) > 0:
		return &Type{K: STRUCT, Ref: structs[rapid.IntRange(0, len(structs)-1).Draw(t, "structRef")]}
	case c == 7:
		k := LIST
		if !cfg.NoSet && rapid.IntRange(0, 2).Draw(t, "isSet") == 0 {
			k = SET
		}
		return &Type{K: k, Elem: genType(t, cfg, structs, depth+1, false)}
	case c == 8 || c == 9:
		kk := cfg.KeyKinds[rapid.IntRange(0, len(cfg.KeyKinds)-1).Draw(t, "keyKind")]
		var key *Type
		if kk == STRUCT {
			if len(structs) == 0 {
				key = &Type{K: STRING}
			} else {
				key = &Type{K: STRUCT, Ref: structs[rapid.IntRange(0, len(structs)-1).Draw(t, "keyRef")]}
			}
		} else if kk == LIST || kk == SET {
			key = &Type{K: kk, Elem: &Type{K: scalarKinds[rapid.IntRange(0, len(scalarKinds)-1).Draw(t, "keyElemKind")]}}
		} else if kk == MAP {
			key = &Type{K: MAP, Key: &Type{K: []Kind{STRING, I32, I64}[rapid.IntRange(0, 2).Draw(t, "keyKeyKind")]},
				Elem: &Type{K: scalarKinds[rapid.IntRange(0, len(scalarKinds)-1).Draw(t, "keyElemKind")]}}
		} else {
			key = &Type{K: kk}
		}
		return &Type{K: MAP, Key: key, Elem: genType(t, cfg, structs, depth+1, false)}
	}
	return &Type{K: LIST, Elem: genType(t, cfg, structs, depth+1, false)}
}

// GenUniverse draws struct definitions S0..Sn and a root type.
// Struct Si may reference Sj with j > i freely; with cfg.Recursive it may also
// reference Sj with j <= i from optional/default fields (values terminate
// because the value generator stops descending at MaxDepth).
func GenUniverse(t *rapid.T, cfg GenCfg) *Universe {
	cfg = cfg.norm()
	n := rapid.IntRange(1, cfg.MaxStructs).Draw(t, "nStructs")
	names := make([]string, n)
	for i := range names {
		names[i] = fmt.Sprintf("S%d", i)
	}
	u := &Universe{Typedefs: rapid.IntRange(0, 3).Draw(t, "typedefs") == 0, Split: rapid.IntRange(0, 3).Draw(t, "split") == 0}
	for i := 0; i < n; i++ {
		sd := StructDef{Name: names[i]}
		usedID := map[int16]bool{}
		usedName := map[string]bool{}
		nf := rapid.IntRange(0, cfg.MaxWidth).Draw(t, "nFields")
		if cfg.BigSizes && rapid.IntRange(0, 9).Draw(t, "wideStruct") == 0 {
			nf = rapid.IntRange(17, 30).Draw(t, "nFieldsWide")
		}
		for j := 0; j < nf; j++ {
			fd := FieldDef{ID: genFieldID(t, usedID, cfg), Name: genName(t, usedName)}
			refs := names[i+1:]
			backref := false
			if cfg.Recursive && rapid.IntRange(0, 4).Draw(t, "backref") == 0 {
				refs = names
				backref = true
			}
			fd.T = genType(t, cfg, refs, 1, false)
			if cfg.Reqs {
				fd.Req = rapid.IntRange(0, 2).Draw(t, "req")
				if backref && fd.Req == ReqRequired {
					fd.Req = ReqOptional
				}
			}
			if cfg.Aliases && rapid.IntRange(0, 2).Draw(t, "hasAlias") == 0 {
				a := "k_" + fieldNameParts[rapid.IntRange(0, len(fieldNameParts)-1).Draw(t, "aliasPart")] + fmt.Sprint(j)
				pc := func() string { return string(aliasPunct[rapid.IntRange(0, len(aliasPunct)-1).Draw(t, "aliasPunct")]) }
				switch rapid.IntRange(0, 5).Draw(t, "aliasClass") {
				case 0:
					// JSON-style keys with punctuation (bytes below '.', where the index of the key trie wraps, and above 'z'):
					// keys of one struct that differ from each other in that one byte only
					a = "k" + pc() + "x"
				case 1:
					a = fieldNameParts[rapid.IntRange(0, len(fieldNameParts)-1).Draw(t, "aliasPart2")] + pc() + "id"
				case 2:
					a = pc()
				}
				dup := false
				for _, o := range sd.Fields {
					if o.Alias == a {
						dup = true
					}
				}
				if !dup {
					fd.Alias = a
				}
			}
			sd.Fields = append(sd.Fields, fd)
		}
		if cfg.Lookalike && i == 0 && rapid.IntRange(0, 5).Draw(t, "lookalike") == 0 {
			// a wide struct of look-alike keys (same length, two different bytes per position): the key map of such a struct is
			// a hash table with open addressing rather than a trie, in Go and in the native converter
			n := rapid.IntRange(20, 44).Draw(t, "nLookalike")
			salt := rapid.IntRange(0, 127).Draw(t, "lookalikeSalt")
			for k := 0; k < n; k++ {
				w := (k*37 + salt) & 127
				name := []byte("nxxxxxxx")
				for b := 0; b < 7; b++ {
					name[1+b] = "ab"[(w>>b)&1]
				}
				sd.Fields = append(sd.Fields, FieldDef{ID: genFieldID(t, usedID, cfg), Name: string(name), T: &Type{K: I32}})
			}
		}
		u.Structs = append(u.Structs, sd)
	}
	if cfg.RootStruct {
		u.Root = &Type{K: STRUCT, Ref: names[0]}
	} else {
		u.Root = genType(t, cfg, names, 0, false)
		if rapid.IntRange(0, 1).Draw(t, "rootIsStruct") == 0 {
			u.Root = &Type{K: STRUCT, Ref: names[0]}
		}
	}
	return u
}

// ---------------------------------------------------------------------------
// values

var i64Bounds = []int64{0, 1, -1, 2, 127, 128, -128, -129, 255, 256, 32767, 32768, -32768, -32769, 65535, 65536,
	math.MaxInt32, math.MaxInt32 + 1, math.MinInt32, math.MinInt32 - 1, math.MaxUint32, 1 << 53, 1<<53 + 1, -(1 << 53), math.MaxInt64, math.MinInt64, math.MaxInt64 - 1, math.MinInt64 + 1,
	9, 10, 99, 100, 999999999, 1000000000, 9999999999, 10000000000, 999999999999999999, 1000000000000000000}

// GenInt draws an integer in the range of kind k, boundary biased.
func GenInt(t *rapid.T, k Kind) int64 {
	var v int64
	switch rapid.IntRange(0, 3).Draw(t, "intClass") {
	case 0:
		v = i64Bounds[rapid.IntRange(0, len(i64Bounds)-1).Draw(t, "intBound")]
	case 1:
		v = int64(rapid.IntRange(-20, 20).Draw(t, "intSmall"))
	case 2:
		sh := rapid.IntRange(0, 63).Draw(t, "intShift")
		v = int64(uint64(1)<<uint(sh)) + int64(rapid.IntRange(-1, 1).Draw(t, "intDelta"))
		if rapid.Bool().Draw(t, "intNeg") {
			v = -v
		}
	default:
		v = rapid.Int64().Draw(t, "int")
	}
	switch k {
	case BYTE:
		return int64(int8(v))
	case I16:
		return int64(int16(v))
	case I32:
		return int64(int32(v))
	}
	return v
}

var f64Class = []uint64{0, 1 << 63, 1, 0x000fffffffffffff, 0x0010000000000000, 0x7fefffffffffffff, 0xffefffffffffffff,
	math.Float64bits(1), math.Float64bits(-1), math.Float64bits(0.1), math.Float64bits(1e21), math.Float64bits(1e20), math.Float64bits(1e-5), math.Float64bits(1e-6), math.Float64bits(1e-7),
	math.Float64bits(9007199254740993), math.Float64bits(1e300), math.Float64bits(1e-300), math.Float64bits(123456789.125), math.Float64bits(0.3), math.Float64bits(2.5e-8),
	math.Float64bits(1.7976931348623157e308), math.Float64bits(4.9e-324), math.Float64bits(100), math.Float64bits(1e15), math.Float64bits(123456789012345680)}

// doubles at integer-type boundaries (where an integer fast path or cast would change the value)
var f64IntBounds = []uint64{math.Float64bits(9223372036854775808), math.Float64bits(-9223372036854775808), math.Float64bits(9223372036854774784), math.Float64bits(-9223372036854777856),
	math.Float64bits(18446744073709551616), math.Float64bits(18446744073709549568), math.Float64bits(1e19), math.Float64bits(-1e19), math.Float64bits(9007199254740992), math.Float64bits(-9007199254740992),
	math.Float64bits(9007199254740991), math.Float64bits(4294967296), math.Float64bits(4294967295), math.Float64bits(2147483648), math.Float64bits(-2147483648), math.Float64bits(-2147483649),
	math.Float64bits(2147483647), math.Float64bits(1e16), math.Float64bits(1e17), math.Float64bits(1e18), math.Float64bits(-1e18), math.Float64bits(65536), math.Float64bits(-32769), math.Float64bits(255), math.Float64bits(-129)}

func init() { f64Class = append(f64Class, f64IntBounds...) }

var f64NonFinite = []uint64{0x7ff0000000000000, 0xfff0000000000000, 0x7ff8000000000001, 0xfff8000000000000, 0x7ff0000000000001}

// GenDoubleBits draws float64 bit patterns by class.
func GenDoubleBits(t *rapid.T, finiteOnly bool) uint64 {
	for {
		var b uint64
		switch rapid.IntRange(0, 5).Draw(t, "f64class") {
		case 0, 1:
			b = f64Class[rapid.IntRange(0, len(f64Class)-1).Draw(t, "f64c")]
		case 2:
			b = math.Float64bits(float64(rapid.IntRange(-100000, 100000).Draw(t, "f64num")) / float64([]int{1, 2, 3, 7, 10, 100, 1000}[rapid.IntRange(0, 6).Draw(t, "f64den")]))
		case 3:
			if finiteOnly {
				continue
			}
			b = f64NonFinite[rapid.IntRange(0, len(f64NonFinite)-1).Draw(t, "f64nf")]
		default:
			b = rapid.Uint64().Draw(t, "f64bits")
		}
		f := math.Float64frombits(b)
		if finiteOnly && (math.IsNaN(f) || math.IsInf(f, 0)) {
			continue
		}
		return b
	}
}

var strAlphabet = []string{"a", "b", "Z", "0", " ", "\"", "\\", "/", "\n", "\t", "\x00", "\x1f", "\x7f", "é", "ß", "中", "\u2028", "\u2029", "😀", "𝄞", "<", ">", "&", "'", "\r", "\b", "\f", "\x01", "\ufffd", "\u00a0", "\u0080", "\ufeff", "\U0010ffff", "\ud7ff", "\ue000"}
var badUTF8 = []string{"\xff", "\xc0", "\xe4\xb8", "\xf0\x9f\x98", "\x80", "\xed\xa0\x80", "\xc3"}
var strLenBounds = []int{15, 16, 17, 31, 32, 33, 63, 64, 65, 127, 128, 129, 255, 256, 257}

// GenString draws string bytes with length classes around SIMD block sizes.
func GenString(t *rapid.T, validUTF8 bool) []byte {
	var n int
	switch rapid.IntRange(0, 19).Draw(t, "strLenClass") {
	case 0, 1:
		n = 0
	case 2, 3, 4, 5, 6, 7, 8, 9, 10, 11:
		n = rapid.IntRange(1, 8).Draw(t, "strLen")
	case 12, 13, 14:
		n = rapid.IntRange(9, 40).Draw(t, "strLen")
	case 15, 16:
		n = strLenBounds[rapid.IntRange(0, len(strLenBounds)-1).Draw(t, "strLenB")]
	case 17:
		n = []int{4095, 4096, 4097, 8191, 8192, 8193}[rapid.IntRange(0, 5).Draw(t, "strLenPage")]
	default:
		n = rapid.IntRange(100, 400).Draw(t, "strLen")
	}
	mode := rapid.IntRange(0, 3).Draw(t, "strMode") // 0 plain ascii, 1..2 alphabet, 3 with invalid utf8
	if n > 1000 {
		// long strings: a repeated drawn unit (keeps the draw count small)
		unit := []byte("x")
		if mode != 0 {
			unit = []byte(strAlphabet[rapid.IntRange(0, len(strAlphabet)-1).Draw(t, "unit")])
		}
		b := bytes.Repeat(unit, n/len(unit)+1)[:n]
		if validUTF8 {
			for len(b) > 0 && !validTail(b) {
				b = b[:len(b)-1]
			}
		}
		return b
	}
	b := make([]byte, 0, n+4)
	for len(b) < n {
		switch {
		case mode == 0:
			b = append(b, byte('a'+rapid.IntRange(0, 25).Draw(t, "ch")))
		case mode == 3 && !validUTF8 && rapid.IntRange(0, 4).Draw(t, "bad") == 0:
			b = append(b, badUTF8[rapid.IntRange(0, len(badUTF8)-1).Draw(t, "badSeq")]...)
		default:
			b = append(b, strAlphabet[rapid.IntRange(0, len(strAlphabet)-1).Draw(t, "ch")]...)
		}
	}
	return b
}

func validTail(b []byte) bool {
	// true when b does not end inside a multi-byte sequence
	i := len(b) - 1
	for i >= 0 && i > len(b)-5 && b[i]&0xc0 == 0x80 {
		i--
	}
	if i < 0 {
		return true
	}
	c := b[i]
	need := 1
	switch {
	case c >= 0xf0:
		need = 4
	case c >= 0xe0:
		need = 3
	case c >= 0xc0:
		need = 2
	}
	return len(b)-i == need
}

// GenBinary draws arbitrary bytes.
func GenBinary(t *rapid.T) []byte {
	var n int
	switch rapid.IntRange(0, 19).Draw(t, "binLenClass") {
	case 0, 1, 2, 3:
		n = 0
	case 4, 5, 6, 7, 8, 9, 10, 11, 12, 13:
		n = rapid.IntRange(1, 8).Draw(t, "binLen")
	case 14, 15, 16, 17:
		n = rapid.IntRange(9, 70).Draw(t, "binLen")
	case 18:
		// around the converters' 4096-byte buffers: a drawn 7-byte unit repeated (keeps the draw count small)
		n = []int{4095, 4096, 4097, 4098, 8191, 8192, 8193, 12289}[rapid.IntRange(0, 7).Draw(t, "binLenPage")]
		unit := make([]byte, 7)
		for i := range unit {
			unit[i] = byte(rapid.IntRange(0, 255).Draw(t, "byte"))
		}
		return bytes.Repeat(unit, n/7+1)[:n]
	default:
		n = strLenBounds[rapid.IntRange(0, len(strLenBounds)-1).Draw(t, "binLenB")]
	}
	b := make([]byte, n)
	for i := range b {
		b[i] = byte(rapid.IntRange(0, 255).Draw(t, "byte"))
	}
	return b
}

func genLen(t *rapid.T, cfg GenCfg, depth int) int {
	if cfg.NonEmpty {
		if depth >= cfg.MaxDepth+1 {
			return 1
		}
		return rapid.IntRange(1, 3).Draw(t, "lenNE")
	}
	if depth >= cfg.MaxDepth+1 {
		return 0
	}
	c := rapid.IntRange(0, 19).Draw(t, "lenClass")
	switch {
	case c < 3:
		return 0
	case c < 7:
		return 1
	case c < 11:
		return 2
	case c < 19 || !cfg.BigSizes || depth > 1:
		return rapid.IntRange(3, cfg.MaxWidth+1).Draw(t, "len")
	default:
		return rapid.IntRange(15, 40).Draw(t, "lenBig")
	}
}

// GenValue draws a value conforming to ty.
func GenValue(t *rapid.T, u *Universe, ty *Type, cfg GenCfg) *Value {
	cfg = cfg.norm()
	return genValue(t, u, ty, cfg, 0)
}

func genValue(t *rapid.T, u *Universe, ty *Type, cfg GenCfg, depth int) *Value {
	v := &Value{K: ty.K}
	switch ty.K {
	case BOOL:
		v.B = rapid.Bool().Draw(t, "bool")
	case BYTE, I16, I32, I64:
		v.I = GenInt(t, ty.K)
	case DOUBLE:
		v.F = GenDoubleBits(t, cfg.FiniteDoubles)
	case STRING:
		if ty.Bin {
			v.S = GenBinary(t)
		} else {
			v.S = GenString(t, cfg.ValidUTF8)
		}
	case STRUCT:
		sd := u.Struct(ty.Ref)
		for i := range sd.Fields {
			fd := &sd.Fields[i]
			if fd.Req != ReqRequired && !cfg.AllPresent {
				p := 7
				if depth >= cfg.MaxDepth && fd.T.K == STRUCT {
					p = 0
				}
				if rapid.IntRange(0, 9).Draw(t, "present") >= p {
					continue
				}
			} else if fd.Req != ReqRequired && depth >= cfg.MaxDepth+2 && fd.T.K == STRUCT {
				continue
			}
			v.Fields = append(v.Fields, FieldVal{ID: fd.ID, V: genValue(t, u, fd.T, cfg, depth+1)})
		}
		if cfg.WireOrder && len(v.Fields) > 1 {
			perm := rapid.Permutation(v.Fields).Draw(t, "wireOrder")
			v.Fields = perm
		}
	case LIST, SET:
		v.ET = ty.Elem.K
		n := genLen(t, cfg, depth)
		seen := map[string]bool{}
		for i := 0; i < n; i++ {
			e := genValue(t, u, ty.Elem, cfg, depth+1)
			if ty.K == SET {
				kb := string(EncodeValue(Canon(e)))
				if seen[kb] {
					continue
				}
				seen[kb] = true
			}
			v.Elems = append(v.Elems, e)
		}
	case MAP:
		v.KT, v.ET = ty.Key.K, ty.Elem.K
		n := genLen(t, cfg, depth)
		seen := map[string]bool{}
		for i := 0; i < n; i++ {
			k := genValue(t, u, ty.Key, cfg, depth+1)
			kb := string(EncodeValue(Canon(k))) // keys that differ only in wire order are the same key
			if seen[kb] {
				continue
			}
			seen[kb] = true
			v.Keys = append(v.Keys, k)
			v.Elems = append(v.Elems, genValue(t, u, ty.Elem, cfg, depth+1))
		}
	}
	return v
}

// ZeroValue returns the zero value of a type (empty struct for structs).
func ZeroValue(ty *Type) *Value {
	v := &Value{K: ty.K}
	switch ty.K {
	case LIST, SET:
		v.ET = ty.Elem.K
	case MAP:
		v.KT, v.ET = ty.Key.K, ty.Elem.K
	}
	return v
}

// SanitizeDoubleKeys rewrites -0.0 map keys (Go maps identify them with +0.0)
// so that a model value survives conversion to Go maps.
func SanitizeDoubleKeys(v *Value) {
	for i := range v.Fields {
		SanitizeDoubleKeys(v.Fields[i].V)
	}
	for _, e := range v.Elems {
		SanitizeDoubleKeys(e)
	}
	for _, k := range v.Keys {
		SanitizeDoubleKeys(k)
	}
	if v.K == MAP && v.KT == DOUBLE {
		seen := map[uint64]bool{}
		for _, k := range v.Keys {
			seen[k.F] = true
		}
		for _, k := range v.Keys {
			if k.F == 1<<63 {
				nb := math.Float64bits(-2.5)
				for seen[nb] {
					nb++
				}
				seen[nb] = true
				k.F = nb
			}
		}
	}
}
