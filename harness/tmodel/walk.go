package tmodel

// Step is one path element from a container to a child.
type Step struct {
	Kind  byte   // 'f' field id, 'i' index, 'k' map key
	ID    int16  // 'f'
	Index int    // 'i' (also the entry index for 'k')
	Key   *Value // 'k'
}

// Visit is called for every node of the tree (root included, with an empty path).
type Visit func(path []Step, node *Value, parent *Value)

// Walk visits every node in wire order (map keys are not visited as nodes).
func Walk(v *Value, fn Visit) {
	walk(v, nil, nil, fn)
}

func walk(v *Value, parent *Value, path []Step, fn Visit) {
	fn(path, v, parent)
	switch v.K {
	case STRUCT:
		seen := map[int16]bool{}
		for i := range v.Fields {
			f := &v.Fields[i]
			if seen[f.ID] {
				continue // only the first occurrence is addressable
			}
			seen[f.ID] = true
			walk(f.V, v, append(path[:len(path):len(path)], Step{Kind: 'f', ID: f.ID, Index: i}), fn)
		}
	case LIST, SET:
		for i, e := range v.Elems {
			walk(e, v, append(path[:len(path):len(path)], Step{Kind: 'i', Index: i}), fn)
		}
	case MAP:
		for i, e := range v.Elems {
			walk(e, v, append(path[:len(path):len(path)], Step{Kind: 'k', Index: i, Key: v.Keys[i]}), fn)
		}
	}
}

// Count returns the number of nodes.
func Count(v *Value) int {
	n := 0
	Walk(v, func([]Step, *Value, *Value) { n++ })
	return n
}

// Depth returns the nesting depth (scalar = 0).
func Depth(v *Value) int {
	d := 0
	for _, f := range v.Fields {
		if x := Depth(f.V) + 1; x > d {
			d = x
		}
	}
	for _, e := range v.Elems {
		if x := Depth(e) + 1; x > d {
			d = x
		}
	}
	return d
}

// TypeAt resolves the declared type of the node reached by path from root type ty.
func TypeAt(u *Universe, ty *Type, path []Step) *Type {
	for _, s := range path {
		if ty == nil {
			return nil
		}
		switch s.Kind {
		case 'f':
			sd := u.Struct(ty.Ref)
			if sd == nil {
				return nil
			}
			fd := sd.Field(s.ID)
			if fd == nil {
				return nil
			}
			ty = fd.T
		case 'i', 'k':
			ty = ty.Elem
		}
	}
	return ty
}
