package c02

import (
	"testing"

	"verifharness/basecheck"
	"verifharness/reqcheck"
	"verifharness/j2tcheck"
	"verifharness/pbt"
)

func TestMain(m *testing.M)   { pbt.Main(m, "C02") }
func TestReplay(t *testing.T) { pbt.Replay(t) }

var Prop = pbt.Register(j2tcheck.Prop("TestJSONToThrift"))

func TestJSONToThrift(t *testing.T) { pbt.Run(t, Prop) }

var Deep = pbt.Register(j2tcheck.DeepProp("TestDeepNesting"))

func TestDeepNesting(t *testing.T) { pbt.Run(t, Deep) }

var Base = pbt.Register(basecheck.ReqProp("TestRequestBase"))

func TestRequestBase(t *testing.T) { pbt.Run(t, Base) }

// The result of j2t does not depend on the capacity of the caller's buffer (documents of the requiredness table:
// outputs larger than the document, null members, fill-ins).
var Sweep = pbt.Register(reqcheck.SweepProp("TestCapacitySweep"))

func TestCapacitySweep(t *testing.T) { pbt.Run(t, Sweep) }
