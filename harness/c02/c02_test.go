package c02

import (
	"testing"

	"verifharness/basecheck"
	"verifharness/j2tcheck"
	"verifharness/pbt"
)

func TestMain(m *testing.M)   { pbt.Main(m, "C02") }
func TestReplay(t *testing.T) { pbt.Replay(t) }

var Prop = pbt.Register(j2tcheck.Prop("TestJSONToThrift"))

func TestJSONToThrift(t *testing.T) { pbt.Run(t, Prop) }

var Deep = pbt.Register(j2tcheck.DeepProp("TestDeepNesting"))

func TestDeepNesting(t *testing.T) { pbt.Run(t, Deep) }

var Base = pbt.Register(basecheck.ReqProp("TestRequestBase"))

func TestRequestBase(t *testing.T) { pbt.Run(t, Base) }
