package c19

import (
	"bytes"
	"encoding/binary"
	"fmt"
	"math"
	"testing"

	"github.com/cloudwego/dynamicgo/thrift"
	"pgregory.net/rapid"

	"verifharness/pbt"
	tm "verifharness/tmodel"
)

func TestMain(m *testing.M)   { pbt.Main(m, "C19") }
func TestReplay(t *testing.T) { pbt.Replay(t) }

// ---------------------------------------------------------------------------
// (a) scalar write/read pairs, container and field headers, BinaryEncoding

type ScalarCase struct {
	U64    uint64 `json:"u64"`
	Str    []byte `json:"str"`
	FID    int16  `json:"fid"`
	Size   int32  `json:"size"`
	Prefix []byte `json:"prefix"`
}

func refScalar(k tm.Kind, u uint64) []byte {
	v := &tm.Value{K: k}
	switch k {
	case tm.BOOL:
		v.B = u&1 == 1
	case tm.BYTE:
		v.I = int64(int8(u))
	case tm.I16:
		v.I = int64(int16(u))
	case tm.I32:
		v.I = int64(int32(u))
	case tm.I64:
		v.I = int64(u)
	case tm.DOUBLE:
		v.F = u
	}
	return tm.Encode(v)
}

func checkScalar(c *pbt.Ctx, cs ScalarCase) {
	u := cs.U64
	p := thrift.NewBinaryProtocolBuffer()
	defer thrift.FreeBinaryProtocolBuffer(p)
	// pooled protocol objects are recycled between cases: the cursor must start at 0
	p.Buf = append(p.Buf, cs.Prefix...)
	for range cs.Prefix {
		if _, err := p.ReadByte(); err != nil {
			c.Failf("fresh-protocol-cursor", "fresh pooled protocol cannot read its first bytes: %v (Read=%d)", err, p.Read)
		}
	}
	if p.Read != len(cs.Prefix) {
		c.Failf("fresh-protocol-cursor", "fresh pooled protocol starts with Read=%d", p.Read-len(cs.Prefix))
	}
	want := append([]byte{}, cs.Prefix...)
	type step struct {
		name  string
		write func() error
		ref   []byte
		read  func() (interface{}, error)
		want  interface{}
	}
	strRef := tm.Encode(&tm.Value{K: tm.STRING, S: cs.Str})
	kinds := []thrift.Type{thrift.BOOL, thrift.BYTE, thrift.I16, thrift.I32, thrift.I64, thrift.DOUBLE, thrift.STRING, thrift.STRUCT, thrift.MAP, thrift.SET, thrift.LIST}
	ft := kinds[int(u%uint64(len(kinds)))]
	kt := kinds[int((u>>8)%uint64(len(kinds)))]
	sz := int(cs.Size)
	hdrField := []byte{byte(ft), byte(uint16(cs.FID) >> 8), byte(cs.FID)}
	hdrList := append([]byte{byte(ft)}, be32(uint32(sz))...)
	hdrMap := append([]byte{byte(kt), byte(ft)}, be32(uint32(sz))...)
	steps := []step{
		{"Bool", func() error { return p.WriteBool(u&1 == 1) }, refScalar(tm.BOOL, u), func() (interface{}, error) { return p.ReadBool() }, u&1 == 1},
		{"Byte", func() error { return p.WriteByte(byte(u)) }, refScalar(tm.BYTE, u), func() (interface{}, error) { return p.ReadByte() }, byte(u)},
		{"I16", func() error { return p.WriteI16(int16(u)) }, refScalar(tm.I16, u), func() (interface{}, error) { return p.ReadI16() }, int16(u)},
		{"I32", func() error { return p.WriteI32(int32(u)) }, refScalar(tm.I32, u), func() (interface{}, error) { return p.ReadI32() }, int32(u)},
		{"I64", func() error { return p.WriteI64(int64(u)) }, refScalar(tm.I64, u), func() (interface{}, error) { return p.ReadI64() }, int64(u)},
		{"Double", func() error { return p.WriteDouble(math.Float64frombits(u)) }, refScalar(tm.DOUBLE, u), func() (interface{}, error) { v, e := p.ReadDouble(); return math.Float64bits(v), e }, u},
		{"String", func() error { return p.WriteString(string(cs.Str)) }, strRef, func() (interface{}, error) { return p.ReadString(true) }, string(cs.Str)},
		{"StringNoCopy", func() error { return p.WriteString(string(cs.Str)) }, strRef, func() (interface{}, error) { return p.ReadString(false) }, string(cs.Str)},
		{"Binary", func() error { return p.WriteBinary(cs.Str) }, strRef, func() (interface{}, error) { v, e := p.ReadBinary(true); return string(v), e }, string(cs.Str)},
		{"BinaryNoCopy", func() error { return p.WriteBinary(cs.Str) }, strRef, func() (interface{}, error) { v, e := p.ReadBinary(false); return string(v), e }, string(cs.Str)},
		{"IntI16", func() error { return p.WriteInt(thrift.I16, int(int16(u))) }, refScalar(tm.I16, u), func() (interface{}, error) { return p.ReadInt(thrift.I16) }, int(int16(u))},
		{"IntI32", func() error { return p.WriteInt(thrift.I32, int(int32(u))) }, refScalar(tm.I32, u), func() (interface{}, error) { return p.ReadInt(thrift.I32) }, int(int32(u))},
		{"IntI64", func() error { return p.WriteInt(thrift.I64, int(int64(u))) }, refScalar(tm.I64, u), func() (interface{}, error) { return p.ReadInt(thrift.I64) }, int(int64(u))},
		{"IntByte", func() error { return p.WriteInt(thrift.BYTE, int(uint8(u))) }, refScalar(tm.BYTE, u), func() (interface{}, error) { return p.ReadInt(thrift.BYTE) }, int(uint8(u))}, // the Go API models BYTE as uint8
		{"FieldBegin", func() error { return p.WriteFieldBegin("x", ft, thrift.FieldID(cs.FID)) }, hdrField, func() (interface{}, error) {
			_, t, id, e := p.ReadFieldBegin()
			return fmt.Sprint(t, id), e
		}, fmt.Sprint(ft, thrift.FieldID(cs.FID))},
		{"ListBegin", func() error { return p.WriteListBegin(ft, sz) }, hdrList, func() (interface{}, error) {
			t, n, e := p.ReadListBegin()
			return fmt.Sprint(t, n), e
		}, fmt.Sprint(ft, sz)},
		{"SetBegin", func() error { return p.WriteSetBegin(ft, sz) }, hdrList, func() (interface{}, error) {
			t, n, e := p.ReadSetBegin()
			return fmt.Sprint(t, n), e
		}, fmt.Sprint(ft, sz)},
		{"MapBegin", func() error { return p.WriteMapBegin(kt, ft, sz) }, hdrMap, func() (interface{}, error) {
			k, t, n, e := p.ReadMapBegin()
			return fmt.Sprint(k, t, n), e
		}, fmt.Sprint(kt, ft, sz)},
		{"FieldStop", func() error { return p.WriteFieldStop() }, []byte{0}, func() (interface{}, error) {
			_, t, _, e := p.ReadFieldBegin()
			return t, e
		}, thrift.STOP},
	}
	for _, s := range steps {
		if err := s.write(); err != nil {
			c.Failf("write-error:"+s.name, "Write%s: %v", s.name, err)
		}
		want = append(want, s.ref...)
		if !bytes.Equal(p.Buf, want) {
			c.Failf("write-mismatch:"+s.name, "after Write%s buffer tail %x want %x", s.name, tail(p.Buf, len(s.ref)+2), tail(want, len(s.ref)+2))
		}
	}
	for _, s := range steps {
		before := p.Read
		got, err := s.read()
		if err != nil {
			c.Failf("read-error:"+s.name, "Read%s: %v", s.name, err)
		}
		if got != s.want {
			c.Failf("read-mismatch:"+s.name, "Read%s = %v want %v", s.name, got, s.want)
		}
		if p.Read-before != len(s.ref) {
			c.Failf("read-consumed:"+s.name, "Read%s consumed %d want %d", s.name, p.Read-before, len(s.ref))
		}
	}
	if p.Left() != 0 {
		c.Failf("left", "Left()=%d after reading everything back", p.Left())
	}
	// fixed-offset encoders
	var e thrift.BinaryEncoding
	buf := make([]byte, 16+len(cs.Str))
	e.EncodeBool(buf, u&1 == 1)
	e.EncodeByte(buf[1:], byte(u))
	if !bytes.Equal(buf[:1], refScalar(tm.BOOL, u)) || buf[1] != byte(u) || e.DecodeBool(buf) != (u&1 == 1) || e.DecodeByte(buf[1:]) != byte(u) {
		c.Failf("encoding:bool/byte", "BinaryEncoding bool/byte mismatch")
	}
	e.EncodeInt16(buf, int16(u))
	if !bytes.Equal(buf[:2], refScalar(tm.I16, u)) || e.DecodeInt16(buf) != int16(u) {
		c.Failf("encoding:i16", "BinaryEncoding.EncodeInt16(%d) = %x", int16(u), buf[:2])
	}
	e.EncodeInt32(buf, int32(u))
	if !bytes.Equal(buf[:4], refScalar(tm.I32, u)) || e.DecodeInt32(buf) != int32(u) {
		c.Failf("encoding:i32", "BinaryEncoding.EncodeInt32(%d) = %x", int32(u), buf[:4])
	}
	e.EncodeInt64(buf, int64(u))
	if !bytes.Equal(buf[:8], refScalar(tm.I64, u)) || e.DecodeInt64(buf) != int64(u) {
		c.Failf("encoding:i64", "BinaryEncoding.EncodeInt64(%d) = %x", int64(u), buf[:8])
	}
	e.EncodeDouble(buf, math.Float64frombits(u))
	if !bytes.Equal(buf[:8], refScalar(tm.DOUBLE, u)) || math.Float64bits(e.DecodeDouble(buf)) != u {
		c.Failf("encoding:double", "BinaryEncoding.EncodeDouble(%x) = %x", u, buf[:8])
	}
	e.EncodeString(buf, string(cs.Str))
	if !bytes.Equal(buf[:4+len(cs.Str)], strRef) || e.DecodeString(buf) != string(cs.Str) {
		c.Failf("encoding:string", "BinaryEncoding.EncodeString mismatch")
	}
	e.EncodeBinary(buf, cs.Str)
	if !bytes.Equal(buf[:4+len(cs.Str)], strRef) || !bytes.Equal(e.DecodeBytes(buf), cs.Str) {
		c.Failf("encoding:binary", "BinaryEncoding.EncodeBinary mismatch")
	}
	e.EncodeFieldBegin(buf, ft, thrift.FieldID(cs.FID))
	if !bytes.Equal(buf[:3], hdrField) {
		c.Failf("encoding:field", "BinaryEncoding.EncodeFieldBegin = %x want %x", buf[:3], hdrField)
	}
	if len(cs.Str) > 0 {
		c.NonTrivial()
	}
}

func be32(v uint32) []byte { return binary.BigEndian.AppendUint32(nil, v) }
func tail(b []byte, n int) []byte {
	if len(b) > n {
		return b[len(b)-n:]
	}
	return b
}

var ScalarProp = pbt.Register(pbt.Prop[ScalarCase]{
	Name: "TestScalars",
	Rule: "64-bit pattern by class + string by class + field id + container size; every BinaryProtocol Write*/Read* scalar, header method and BinaryEncoding function compared with the harness's own Thrift codec; written in sequence into one buffer and read back in order; non-trivial = non-empty string",
	Gen: func(t *rapid.T) ScalarCase {
		var cs ScalarCase
		switch rapid.IntRange(0, 2).Draw(t, "cls") {
		case 0:
			cs.U64 = uint64(tm.GenInt(t, tm.I64))
		case 1:
			cs.U64 = tm.GenDoubleBits(t, false)
		default:
			cs.U64 = rapid.Uint64().Draw(t, "u")
		}
		cs.Str = tm.GenString(t, false)
		cs.FID = int16(tm.GenInt(t, tm.I16))
		cs.Size = int32(rapid.IntRange(0, 1<<20).Draw(t, "size"))
		if rapid.IntRange(0, 3).Draw(t, "sizeB") == 0 {
			cs.Size = []int32{0, 1, 255, 256, 65535, 65536, 1<<24 - 1, 1 << 24, math.MaxInt32}[rapid.IntRange(0, 8).Draw(t, "sizeIdx")]
		}
		cs.Prefix = rapid.SliceOfN(rapid.Byte(), 0, 3).Draw(t, "prefix")
		return cs
	},
	Check: checkScalar,
})

func TestScalars(t *testing.T) { pbt.Run(t, ScalarProp) }

// TestSmallExhaustive: bool, byte, i16 over their full range.
func TestSmallExhaustive(t *testing.T) {
	n := 0
	var distinct []uint64
	p := thrift.NewBinaryProtocolBuffer()
	var e thrift.BinaryEncoding
	for x := 0; x < 65536; x++ {
		p.Reset()
		v16 := int16(x)
		p.WriteI16(v16)
		p.WriteByte(byte(x))
		p.WriteBool(x&1 == 1)
		p.WriteInt(thrift.I16, int(v16))
		ref := []byte{byte(x >> 8), byte(x), byte(x), byte(x & 1), byte(x >> 8), byte(x)}
		a, e1 := p.ReadI16()
		b, e2 := p.ReadByte()
		bo, e3 := p.ReadBool()
		i2, e4 := p.ReadInt(thrift.I16)
		var eb [2]byte
		e.EncodeInt16(eb[:], v16)
		if !bytes.Equal(p.Buf, ref) || e1 != nil || e2 != nil || e3 != nil || e4 != nil || a != v16 || b != byte(x) || bo != (x&1 == 1) || i2 != int(v16) || eb != [2]byte{byte(x >> 8), byte(x)} || e.DecodeInt16(eb[:]) != v16 {
			fl := &pbt.Failure{Symptom: "small-exhaustive", Msg: fmt.Sprintf("i16/byte/bool pair mismatch for pattern %#x: buf %x", x, p.Buf)}
			pbt.ReportEnumFailure("TestScalars", fl, ScalarCase{U64: uint64(x)})
			t.Fatal(fl.Msg)
		}
		n++
		distinct = append(distinct, uint64(x))
	}
	pbt.AddEvaluations("TestSmallExhaustive", "every 16-bit pattern through WriteI16/ReadI16, WriteByte/ReadByte (low byte), WriteBool/ReadBool (low bit), WriteInt/ReadInt(I16), BinaryEncoding int16 (exhaustive)", n, distinct,
		[]interface{}{map[string]int{"u64": 0x8000}, map[string]int{"u64": 0xffff}})
	pbt.MarkExhaustive("TestSmallExhaustive")
}

// ---------------------------------------------------------------------------
// (e) envelopes

type EnvCase struct {
	Name []byte `json:"name"`
	Typ  uint8  `json:"typ"`
	Seq  int32  `json:"seq"`
	ID   int16  `json:"id"`
	Body []byte `json:"body"` // encoding of a struct-typed value placed as the wrapped field
}

func checkEnv(c *pbt.Ctx, cs EnvCase) {
	name := string(cs.Name)
	typ := thrift.TMessageType(cs.Typ)
	wrapped, err := thrift.WrapBinaryBody(cs.Body, name, typ, thrift.FieldID(cs.ID), cs.Seq)
	if err != nil {
		c.Failf("wrap-error", "WrapBinaryBody: %v", err)
	}
	// reference form: version|type, name, seq, field header STRUCT id, body, STOP
	ref := be32(0x80010000 | uint32(cs.Typ))
	ref = append(ref, be32(uint32(len(name)))...)
	ref = append(ref, name...)
	ref = append(ref, be32(uint32(cs.Seq))...)
	ref = append(ref, byte(tm.STRUCT), byte(uint16(cs.ID)>>8), byte(cs.ID))
	ref = append(ref, cs.Body...)
	ref = append(ref, 0)
	if !bytes.Equal(wrapped, ref) {
		c.Failf("wrap-mismatch", "WrapBinaryBody = %x want %x", wrapped, ref)
	}
	n2, t2, s2, id2, body2, err := thrift.UnwrapBinaryMessage(wrapped)
	if err != nil {
		c.Failf("unwrap-error", "UnwrapBinaryMessage: %v", err)
	}
	if n2 != name || t2 != typ || s2 != cs.Seq || id2 != thrift.FieldID(cs.ID) || !bytes.Equal(body2, cs.Body) {
		c.Failf("unwrap-mismatch", "Unwrap = (%q,%d,%d,%d,%x) want (%q,%d,%d,%d,%x)", n2, t2, s2, id2, body2, name, typ, cs.Seq, cs.ID, cs.Body)
	}
	h, f, err := thrift.GetBinaryMessageHeaderAndFooter(name, typ, thrift.FieldID(cs.ID), cs.Seq)
	if err != nil {
		c.Failf("header-error", "GetBinaryMessageHeaderAndFooter: %v", err)
	}
	all := append(append(append([]byte{}, h...), cs.Body...), f...)
	if !bytes.Equal(all, wrapped) {
		c.Failf("header-footer-mismatch", "header+body+footer = %x, wrapped = %x", all, wrapped)
	}
	// the envelope behind other bytes the same protocol object has read already (a frame length, an earlier value):
	// UnwrapBody starts at the cursor
	for _, pre := range [][]byte{{0, 0, 0, byte(len(wrapped))}, cs.Name, {1}} {
		up := thrift.BinaryProtocol{Buf: append(append([]byte{}, pre...), wrapped...), Read: len(pre)}
		n3, t3, s3, id3, body3, err := up.UnwrapBody()
		if err != nil {
			c.Failf("unwrap-error", "UnwrapBody behind %d bytes already read: %v", len(pre), err)
		}
		if n3 != name || t3 != typ || s3 != cs.Seq || id3 != thrift.FieldID(cs.ID) || !bytes.Equal(body3, cs.Body) {
			c.Failf("unwrap-mismatch", "UnwrapBody behind %d bytes already read = (%q,%d,%d,%d,%x) want (%q,%d,%d,%d,%x)", len(pre), n3, t3, s3, id3, body3, name, typ, cs.Seq, cs.ID, cs.Body)
		}
	}
	// streaming read of the same envelope
	p := thrift.NewBinaryProtocol(append([]byte{}, wrapped...))
	rn, rt, rs, err := p.ReadMessageBegin(true)
	if err != nil || rn != name || rt != typ || rs != cs.Seq {
		c.Failf("read-message-begin", "ReadMessageBegin = (%q,%d,%d,%v)", rn, rt, rs, err)
	}
	q := thrift.NewBinaryProtocolBuffer()
	q.WriteMessageBegin(name, typ, cs.Seq)
	if !bytes.Equal(q.Buf, ref[:len(q.Buf)]) {
		c.Failf("write-message-begin", "WriteMessageBegin = %x", q.Buf)
	}
	thrift.FreeBinaryProtocolBuffer(q)
	if len(cs.Body) > 1 && len(name) > 0 {
		c.NonTrivial()
	}
	if cs.Seq < 0 {
		c.Class("negative-seq")
	}
}

var EnvProp = pbt.Register(pbt.Prop[EnvCase]{
	Name: "TestEnvelope",
	Rule: "(method name, message type 1..4, seq id incl. negative, field id, body = encoding of a generated struct); WrapBinaryBody equals the reference framing, UnwrapBinaryMessage returns the five values, header+body+footer equals the wrapped form; non-trivial = non-empty name and non-empty struct body",
	Gen: func(t *rapid.T) EnvCase {
		u := tm.GenUniverse(t, tm.GenCfg{RootStruct: true, MaxDepth: 2})
		v := tm.GenValue(t, u, u.Root, tm.GenCfg{MaxDepth: 2})
		return EnvCase{
			Name: tm.GenString(t, true),
			Typ:  uint8(rapid.IntRange(1, 4).Draw(t, "typ")),
			Seq:  int32(tm.GenInt(t, tm.I32)),
			ID:   int16(tm.GenInt(t, tm.I16)),
			Body: tm.Encode(v),
		}
	},
	Check: checkEnv,
})

func TestEnvelope(t *testing.T) { pbt.Run(t, EnvProp) }

// ---------------------------------------------------------------------------
// (d) skip

type SkipCase struct {
	V       *tm.Value `json:"v"`
	Garbage []byte    `json:"garbage"`
	Prefix  []byte    `json:"prefix"`
}

func checkSkip(c *pbt.Ctx, cs SkipCase) {
	enc := tm.Encode(cs.V)
	buf := append(append(append([]byte{}, cs.Prefix...), enc...), cs.Garbage...)
	for _, native := range []bool{false, true} {
		p := thrift.NewBinaryProtocol(append([]byte{}, buf...))
		for range cs.Prefix {
			p.ReadByte()
		}
		if p.Read != len(cs.Prefix) {
			c.Failf("fresh-protocol-cursor", "NewBinaryProtocol starts with Read=%d", p.Read-len(cs.Prefix))
		}
		c.Step("Skip native=%v", native)
		// (BinaryProtocol.Skip ignores its useNative argument and always takes the Go path: the two skippers are called directly)
		var err error
		if native {
			err = p.SkipNative(thrift.Type(cs.V.K), thrift.MaxSkipDepth)
		} else {
			err = p.SkipGo(thrift.Type(cs.V.K), thrift.MaxSkipDepth)
		}
		if err == nil && !native {
			q := thrift.NewBinaryProtocol(append([]byte{}, buf...))
			q.Read = len(cs.Prefix)
			if e2 := q.Skip(thrift.Type(cs.V.K), true); e2 != nil || q.Read != p.Read {
				c.Failf("skip-advance:Skip", "Skip(%v) err=%v advanced %d, SkipGo %d", cs.V.K, e2, q.Read-len(cs.Prefix), p.Read-len(cs.Prefix))
			}
			thrift.FreeBinaryProtocolBuffer(q)
		}
		if err != nil {
			c.Failf(fmt.Sprintf("skip-error:native=%v", native), "Skip(%v) of well-formed %s: %v", cs.V.K, cs.V.Short(), err)
		}
		if p.Read != len(cs.Prefix)+len(enc) {
			c.Failf(fmt.Sprintf("skip-advance:native=%v", native), "Skip(%v) advanced %d, encoded length %d (value %s)", cs.V.K, p.Read-len(cs.Prefix), len(enc), cs.V.Short())
		}
		thrift.FreeBinaryProtocolBuffer(p)
	}
	if depthOf(cs.V) >= 2 {
		c.NonTrivial()
	}
	c.Class("root=" + cs.V.K.String())
	if cs.V.K == tm.MAP {
		c.Class(fmt.Sprintf("map<%v,%v>", cs.V.KT, cs.V.ET))
	}
}

func depthOf(v *tm.Value) int {
	d := 0
	for _, f := range v.Fields {
		if x := depthOf(f.V) + 1; x > d {
			d = x
		}
	}
	for _, e := range v.Elems {
		if x := depthOf(e) + 1; x > d {
			d = x
		}
	}
	for _, e := range v.Keys {
		if x := depthOf(e) + 1; x > d {
			d = x
		}
	}
	return d
}

var SkipProp = pbt.Register(pbt.Prop[SkipCase]{
	Name: "TestSkip",
	Rule: "well-formed value of a generated type shape (all kinds, maps with every key/value kind combination incl. struct/list keys, depth <= 4) followed by garbage bytes; Skip (Go and native) must succeed and advance exactly the encoded length; non-trivial = depth >= 2",
	Gen: func(t *rapid.T) SkipCase {
		cfg := tm.GenCfg{MaxDepth: 3, BigIDs: true, WireOrder: true, KeyKinds: []tm.Kind{tm.STRING, tm.BYTE, tm.I16, tm.I32, tm.I64, tm.DOUBLE, tm.BOOL, tm.STRUCT, tm.LIST, tm.MAP, tm.SET}}
		u := tm.GenUniverse(t, cfg)
		v := tm.GenValue(t, u, u.Root, cfg)
		return SkipCase{V: v, Garbage: rapid.SliceOfN(rapid.Byte(), 0, 8).Draw(t, "garbage"), Prefix: rapid.SliceOfN(rapid.Byte(), 0, 3).Draw(t, "prefix")}
	},
	Check: checkSkip,
})

func TestSkip(t *testing.T) { pbt.Run(t, SkipProp) }
