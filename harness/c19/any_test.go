package c19

import (
	"fmt"
	"testing"

	"github.com/cloudwego/dynamicgo/thrift"
	"pgregory.net/rapid"

	"verifharness/pbt"
	tm "verifharness/tmodel"
)

// ---------------------------------------------------------------------------
// (b) descriptor-free WriteAny / ReadAny

type AnyCase struct {
	V         *tm.Value `json:"v"`
	ByteU8    bool      `json:"byte_u8"`
	StrBin    bool      `json:"str_bin"`
	I64AsInt  bool      `json:"i64_as_int"`
	WByteU8   bool      `json:"w_byte_u8"`
	WStrBytes bool      `json:"w_str_bytes"`
}

func hasKind(v *tm.Value, pred func(*tm.Value) bool) bool {
	if pred(v) {
		return true
	}
	for _, f := range v.Fields {
		if hasKind(f.V, pred) {
			return true
		}
	}
	for _, e := range v.Elems {
		if hasKind(e, pred) {
			return true
		}
	}
	for _, e := range v.Keys {
		if hasKind(e, pred) {
			return true
		}
	}
	return false
}

func checkAny(c *pbt.Ctx, cs AnyCase) {
	v := cs.V
	ref := tm.Encode(v)
	// ---- read the reference bytes
	p := thrift.NewBinaryProtocol(append([]byte{}, ref...))
	c.Step("ReadAny")
	got, err := p.ReadAny(thrift.Type(v.K), cs.StrBin, !cs.ByteU8)
	if err != nil {
		c.Failf("readany-error", "ReadAny(%s): %v", v.Short(), err)
	}
	want := tm.ToGo(v, nil, nil, tm.GoShape{ByteAsUint8: cs.ByteU8, StrAsBinary: cs.StrBin, ByteKeyU8: true})
	if d := tm.GoEqual(got, want); d != "" {
		c.Failf("readany-mismatch", "ReadAny differs: %s\n got  %#v\n want %#v", d, got, want)
	}
	if p.Read != len(ref) {
		c.Failf("readany-consumed", "ReadAny consumed %d of %d", p.Read, len(ref))
	}
	thrift.FreeBinaryProtocolBuffer(p)
	// ---- write
	gv := tm.ToGo(v, nil, nil, tm.GoShape{ByteAsUint8: cs.WByteU8, StrAsBinary: cs.WStrBytes, IntKeyTyped: true, I64AsInt: cs.I64AsInt})
	for rep := 0; rep < 2; rep++ { // the writer iterates over Go maps: order varies
		w := thrift.NewBinaryProtocolBuffer()
		c.Step("WriteAny")
		typ, err := w.WriteAny(gv, false)
		if err != nil {
			c.Failf("writeany-error", "WriteAny(%#v): %v", gv, err)
		}
		out := append([]byte{}, w.Buf...)
		thrift.FreeBinaryProtocolBuffer(w)
		if typ != thrift.Type(v.K) {
			c.Failf("writeany-type", "WriteAny returned type %v for a %v", typ, v.K)
		}
		back, derr := tm.DecodeStrict(v.K, out)
		if derr != nil {
			c.Failf("writeany-malformed", "WriteAny output is not well-formed: %v\n bytes %x\n value %s", derr, out, v.Short())
		}
		if d := tm.Diff(tm.Canon(back), tm.Canon(v)); d != "" {
			c.Failf("writeany-different-value", "WriteAny output decodes to a different value: %s\n bytes %x", d, out)
		}
		// read(write(v)) through dynamicgo itself
		r := thrift.NewBinaryProtocol(out)
		got2, err := r.ReadAny(thrift.Type(v.K), cs.StrBin, !cs.ByteU8)
		if err != nil {
			c.Failf("readany-error", "ReadAny(WriteAny(v)): %v", err)
		}
		if d := tm.GoEqual(got2, want); d != "" {
			c.Failf("roundtrip-mismatch", "ReadAny(WriteAny(v)) differs: %s", d)
		}
		thrift.FreeBinaryProtocolBuffer(r)
	}
	if depthOf(v) >= 2 {
		c.NonTrivial()
	}
	if hasKind(v, func(x *tm.Value) bool { return x.K == tm.MAP && !x.KT.IsInt() && x.KT != tm.STRING }) {
		c.Class("map-with-non-string-non-int-key")
	}
	if hasKind(v, func(x *tm.Value) bool { return x.K == tm.MAP && x.KT == tm.STRUCT }) {
		c.Class("struct-key")
	}
	c.Class("root=" + v.K.String())
}

var anyCfg = tm.GenCfg{MaxDepth: 3, NonEmpty: true, NoSet: true, FiniteDoubles: true, BigIDs: true, WireOrder: true,
	KeyKinds: []tm.Kind{tm.STRING, tm.BYTE, tm.I16, tm.I32, tm.I64, tm.DOUBLE, tm.BOOL, tm.STRUCT, tm.LIST, tm.MAP}}

var AnyProp = pbt.Register(pbt.Prop[AnyCase]{
	Name: "TestAny",
	Rule: "generated value of every documented Go shape (nested []interface{}, map[string|int8..int64|int|interface{}]interface{} incl. pointer-keyed composite keys, map[FieldID]interface{}; containers non-empty); WriteAny output must decode (reference) to the model, ReadAny of the reference bytes and of the written bytes must give the documented Go representation; both byte and string representations; non-trivial = depth >= 2",
	Gen: func(t *rapid.T) AnyCase {
		u := tm.GenUniverse(t, anyCfg)
		v := tm.GenValue(t, u, u.Root, anyCfg)
		tm.SanitizeDoubleKeys(v)
		return AnyCase{V: v, ByteU8: rapid.Bool().Draw(t, "byteU8"), StrBin: rapid.Bool().Draw(t, "strBin"), I64AsInt: rapid.Bool().Draw(t, "i64AsInt"),
			WByteU8: rapid.Bool().Draw(t, "wByteU8"), WStrBytes: rapid.Bool().Draw(t, "wStrBytes")}
	},
	Check: checkAny,
})

func TestAny(t *testing.T) { pbt.Run(t, AnyProp) }

// ---------------------------------------------------------------------------
// (c) WriteAnyWithDesc / ReadAnyWithDesc

type DescCase struct {
	U            *tm.Universe `json:"u"`
	V            *tm.Value    `json:"v"`
	ByteU8       bool         `json:"byte_u8"`   // reader option byteAsUint8
	WByteU8      bool         `json:"w_byte_u8"` // Go representation handed to the writer
	UseFieldName bool         `json:"use_field_name"`
	Cast         bool         `json:"cast"`
	IntKeyTyped  bool         `json:"int_key_typed"`
	LooseInts    bool         `json:"loose_ints"` // with cast: integers handed over as Go int
}

func regionDesc(cs DescCase) string {
	if !cs.Cast && !cs.WByteU8 && hasKind(cs.V, func(x *tm.Value) bool { return x.K == tm.BYTE }) {
		return "withdesc-int8-nocast"
	}
	return ""
}

func checkDesc(c *pbt.Ctx, cs DescCase) {
	comp, err := tm.CompileUniverse(cs.U, thrift.Options{})
	if err != nil {
		c.Failf("idl-error", "dynamicgo rejects generated IDL: %v\n%s", err, cs.U.Render())
	}
	v := cs.V
	ref := tm.Encode(v)
	desc := comp.Root
	// ---- read
	p := thrift.NewBinaryProtocol(append([]byte{}, ref...))
	c.Step("ReadAnyWithDesc")
	got, err := p.ReadAnyWithDesc(desc, cs.ByteU8, true, false, cs.UseFieldName)
	if err != nil {
		c.Failf("read-error", "ReadAnyWithDesc(%s): %v", v.Short(), err)
	}
	want := tm.ToGo(v, cs.U.Root, cs.U, tm.GoShape{ByteAsUint8: cs.ByteU8, BinAsBytes: true, StructByName: cs.UseFieldName, ByteKeyU8: true})
	if d := tm.GoEqual(got, want); d != "" {
		c.Failf("read-mismatch", "ReadAnyWithDesc differs: %s\n got  %#v\n want %#v", d, got, want)
	}
	if p.Read != len(ref) {
		c.Failf("read-consumed", "ReadAnyWithDesc consumed %d of %d", p.Read, len(ref))
	}
	thrift.FreeBinaryProtocolBuffer(p)
	// ---- write
	gv := tm.ToGo(v, cs.U.Root, cs.U, tm.GoShape{ByteAsUint8: cs.WByteU8, BinAsBytes: true, StructByName: cs.UseFieldName, IntKeyTyped: cs.IntKeyTyped, AllIntAsInt: cs.Cast && cs.LooseInts})
	region := regionDesc(cs)
	for rep := 0; rep < 2; rep++ {
		w := thrift.NewBinaryProtocolBuffer()
		c.Step("WriteAnyWithDesc")
		err := w.WriteAnyWithDesc(desc, gv, cs.Cast, false, cs.UseFieldName)
		out := append([]byte{}, w.Buf...)
		thrift.FreeBinaryProtocolBuffer(w)
		if err != nil {
			if c.Fail(region, "write-error", "WriteAnyWithDesc(%#v): %v", gv, err) {
				return
			}
		}
		back, derr := tm.DecodeStrict(v.K, out)
		if derr != nil {
			if c.Fail(region, "write-malformed", "WriteAnyWithDesc output is not well-formed: %v\n bytes %x\n value %s", derr, out, v.Short()) {
				return
			}
		}
		if d := tm.Diff(tm.Canon(back), tm.Canon(v)); d != "" {
			if c.Fail(region, "write-different-value", "WriteAnyWithDesc output decodes to a different value: %s\n bytes %x", d, out) {
				return
			}
		}
		r := thrift.NewBinaryProtocol(out)
		got2, err := r.ReadAnyWithDesc(desc, cs.ByteU8, true, false, cs.UseFieldName)
		if err != nil {
			c.Failf("read-error", "ReadAnyWithDesc(WriteAnyWithDesc(v)): %v", err)
		}
		if d := tm.GoEqual(got2, want); d != "" {
			c.Failf("roundtrip-mismatch", "ReadAnyWithDesc(WriteAnyWithDesc(v)) differs: %s", d)
		}
		thrift.FreeBinaryProtocolBuffer(r)
	}
	if depthOf(v) >= 2 {
		c.NonTrivial()
	}
	if hasKind(v, func(x *tm.Value) bool { return x.K == tm.MAP && !x.KT.IsInt() && x.KT != tm.STRING && len(x.Keys) > 0 }) {
		c.Class("map-with-non-string-non-int-key")
	}
	c.Class(fmt.Sprintf("name=%v,cast=%v", cs.UseFieldName, cs.Cast))
}

var descCfg = tm.GenCfg{MaxDepth: 3, FiniteDoubles: true, BigIDs: true, WireOrder: true, Aliases: true, Reqs: true, ValidUTF8: false,
	KeyKinds: []tm.Kind{tm.STRING, tm.BYTE, tm.I16, tm.I32, tm.I64, tm.DOUBLE, tm.BOOL, tm.STRUCT}}

var DescProp = pbt.Register(pbt.Prop[DescCase]{
	Name: "TestAnyWithDesc",
	Rule: "generated IDL (structs, list/set/map incl. double/bool/struct keys, binary, aliases) parsed by dynamicgo + conforming value; ReadAnyWithDesc of the reference bytes gives the documented Go value, WriteAnyWithDesc of that Go value decodes (reference) to the model and reads back equal; field-id and field-name addressing, with/without cast, both byte representations; non-trivial = depth >= 2",
	Gen: func(t *rapid.T) DescCase {
		u := tm.GenUniverse(t, descCfg)
		v := tm.GenValue(t, u, u.Root, descCfg)
		tm.SanitizeDoubleKeys(v)
		return DescCase{U: u, V: v, ByteU8: rapid.Bool().Draw(t, "byteU8"), WByteU8: rapid.Bool().Draw(t, "wByteU8"),
			UseFieldName: rapid.Bool().Draw(t, "useFieldName"), Cast: rapid.Bool().Draw(t, "cast"), IntKeyTyped: rapid.Bool().Draw(t, "intKeyTyped"), LooseInts: rapid.Bool().Draw(t, "looseInts")}
	},
	Check: checkDesc,
})

func TestAnyWithDesc(t *testing.T) { pbt.Run(t, DescProp) }
