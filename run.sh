#!/bin/bash
# /verif/run.sh <Cxx> quick|thorough | replay <file>
cd "$(dirname "$0")"
exec python3 run.py "$@"
