#!/bin/bash
# Offline setup: warm the Go build cache for the harness against /repo's working tree.
cd "$(dirname "$0")/harness" || exit 1
export GOFLAGS=-mod=mod GOPROXY=off GOSUMDB=off GOTOOLCHAIN=local
go build ./... && go vet ./pbt/ >/dev/null 2>&1
go test -count=1 -run '^$' ./... >/dev/null 2>&1
exit 0
