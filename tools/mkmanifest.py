#!/usr/bin/env python3
"""Regenerate /verif/MANIFEST.json from harness/c*/plan.json."""
import glob, json, os
V = os.path.dirname(os.path.dirname(os.path.abspath(__file__)))
props = [json.loads(l)["id"] for l in open(os.path.join(V, "properties.jsonl"))]
plans = {}
for p in glob.glob(os.path.join(V, "harness", "c[0-9][0-9]", "plan.json")):
    d = json.load(open(p))
    plans[d["property"]] = d
na_reasons = {}
try:
    na_reasons = json.load(open(os.path.join(V, "tools", "not_applicable.json")))
except Exception:
    pass
checks = []
for pid in props:
    d = plans.get(pid)
    if not d or d.get("disabled"):
        continue
    checks.append({
        "property_id": pid,
        "quick_cmd": "./run.sh %s quick" % pid,
        "thorough_cmd": "./run.sh %s thorough" % pid,
        "evidence_file": "/verif/evidence/%s.json" % pid,
        "replay_cmd_template": "./run.sh %s replay {path}" % pid,
        "engine": "pbt-harness",
        "level_claimed": {"category": d.get("level", "exploration"), "text": d["level_text"], "design_ref": d.get("design_ref", "DESIGN.md section 3, " + pid)},
        "level_note": d["level_note"],
        "technique": d["technique"],
    })
na = [{"property_id": pid, "reason": na_reasons.get(pid, "no check registered yet")} for pid in props if pid not in [c["property_id"] for c in checks]]
m = {
    "version": 1,
    "setup_cmd": "./setup.sh",
    "hooks": {
        "guard": "verif",
        "enable": "no source hooks are committed to /repo. All checks build with `go test -c -tags verif` against /repo's working tree; the C18 binaries are additionally built with `-overlay` files that overlay/genoverlay.py regenerates from the working tree at every build (internal/cpu/features.go patched to select the avx / sse flavour, the amd64-only files swapped for their portable twins, and an injected package verifbridge that reports which implementation the binary runs)",
        "baseline_off_cmd": "cd /repo && GOFLAGS=-mod=mod GOPROXY=off GOSUMDB=off go test -vet=off -count=1 -timeout 25m -json ./...",
        "source_commits": [],
        "add_only": True,
    },
    "engines": [{"name": "pbt-harness", "path": "/verif/harness", "serves_properties": [c["property_id"] for c in checks],
                 "kind_free_text": "Go module with rapid v1.3.0 generators/state machines, exhaustive enumerations of small domains, independent reference codecs (own Thrift binary codec, google.golang.org/protobuf, encoding/json, strconv) as oracles; python driver shards and aggregates evidence"}],
    "checks": checks,
    "notes": "run.sh <Cxx> quick|thorough|replay <file>; exit 0 held / 1 VIOLATION / 2 inconclusive. known_findings.json lists genuine defects (known = recorded, fixed = repaired by a fix: commit in /repo).",
    "not_applicable": na,
}
json.dump(m, open(os.path.join(V, "MANIFEST.json"), "w"), indent=1)
print("checks:", [c["property_id"] for c in checks], "not_applicable:", [x["property_id"] for x in na])
