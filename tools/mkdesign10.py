#!/usr/bin/env python3
"""Regenerate section 10 of DESIGN.md: prose from tools/design10_head.md / design10_tail.md, tables from known_findings.json and seeded/*/meta.json."""
import glob
import json

V = "/verif"
k = json.load(open(V + "/known_findings.json"))
out = []
out.append("### 10.4 Known findings (status `known` in known_findings.json)\n")
out.append("| id | property | region / symptom | what |\n|---|---|---|---|")
for f in k["findings"]:
    if f["status"] == "known":
        out.append("| %s | %s | `%s` / `%s` | %s |" % (f["id"], f["property"], f["region"], f["symptom"], f["what"][:520].replace("|", "/")))
out.append("\n### 10.5 Repairs (`fix:` commits in /repo; status `fixed`)\n")
out.append("| commit | property | what failed |\n|---|---|---|")
for f in k["findings"]:
    if f["status"] == "fixed":
        w = f["what"].replace("fixed: property=%s " % f["property"], "")
        out.append("| %s | %s | %s |" % (f.get("commit", ""), f["property"], w[:360].replace("|", "/")))
out.append("\n### 10.6 Seeded changes and the checks that catch them\n")
out.append("| seeded change | caught by |\n|---|---|")
for d in sorted(glob.glob(V + "/seeded/*/meta.json")):
    m = json.load(open(d))
    out.append("| %s | %s |" % (m["id"], (m.get("detected_by") or "").replace("|", "/")))
tables = "\n".join(out) + "\n\n"
s = open(V + "/DESIGN.md").read()
i = s.index("## 10. As built")
s = s[:i] + open(V + "/tools/design10_head.md").read() + tables + open(V + "/tools/design10_tail.md").read()
open(V + "/DESIGN.md", "w").write(s)
print("DESIGN.md section 10 regenerated")
