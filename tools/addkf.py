import json,sys
# usage: addkf.py '<json list of entries>'
k=json.load(open('/verif/known_findings.json'))
new=json.loads(sys.stdin.read())
ids={f['id'] for f in k['findings']}
for e in new:
    assert e['id'] not in ids, e['id']
    k['findings'].append(e)
json.dump(k,open('/verif/known_findings.json','w'),indent=1,ensure_ascii=False)
print(len(k['findings']),'entries')
