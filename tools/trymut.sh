#!/bin/bash
# tools/trymut.sh <Cxx> <patch> [tier]  : apply patch to /repo, run the check, revert.
P=$1; PATCH=$(readlink -f $2); TIER=${3:-quick}
cd /repo || exit 9
if ! git diff --quiet; then echo "/repo dirty"; exit 9; fi
git apply "$PATCH" || { echo "patch does not apply"; exit 9; }
cd /verif; VERIF_EVIDENCE_DIR=/tmp/trymut-evidence ./run.sh $P $TIER > /tmp/trymut.$P.log 2>&1; rc=$?
git -C /repo checkout -- .
echo "rc=$rc"; grep -a -E "VIOLATION|INCONCLUSIVE|test=" /tmp/trymut.$P.log | cut -c1-400 | head -8
exit $rc
