#!/bin/bash
# tools/confirm_mut.sh <Cxx> <k>: confirm a sub-agent's seeded change in its scratch worktree
# (demo passes on clean tree, fails with the patch; full suite passes with the patch), then store it under /verif/seeded.
P=$1; K=$2; W=/tmp/mut8/$P; O=/tmp/mutout8/$P
export GOFLAGS=-mod=mod GOPROXY=off GOSUMDB=off GOTOOLCHAIN=local
cd $W || exit 9
git checkout -q -- . ; git clean -fdq
head -3 $O/mut${K}_demo_test.go | grep -o '[A-Za-z0-9_/.-]*_test\.go' | head -1 > /tmp/demo_path8.$P.$K
REL=$(cat /tmp/demo_path8.$P.$K); [ -z "$REL" ] && REL=mutdemo/mut${K}_demo_test.go
mkdir -p $(dirname $REL); cp $O/mut${K}_demo_test.go $REL
PKG=./$(dirname $REL)/
go test -vet=off -count=1 $PKG > /tmp/confirm8.$P.$K.clean.log 2>&1; c1=$?
git apply $O/mut$K.diff || { echo "$P mut$K: patch does not apply"; exit 9; }
go test -vet=off -count=1 $PKG > /tmp/confirm8.$P.$K.mut.log 2>&1; c2=$?
rm -f $REL; case "$(dirname $REL)" in mutdemo*) rm -rf "$(dirname $REL)";; esac
go test -vet=off -count=1 ./... > /tmp/confirm8.$P.$K.suite.log 2>&1; c3=$?
git checkout -q -- . ; git clean -fdq
echo "$P mut$K: demo-clean rc=$c1 (want 0), demo-mutated rc=$c2 (want !=0), suite-with-mutation rc=$c3 (want 0)"
if [ $c1 -eq 0 ] && [ $c2 -ne 0 ] && [ $c3 -eq 0 ]; then
  D=/verif/seeded/$P-mut$K; mkdir -p $D
  cp $O/mut$K.diff $D/patch.diff; cp $O/mut${K}_demo_test.go $D/demo_test.go; cp $O/mut$K.md $D/notes.md
  python3 - "$P" "$K" "$REL" <<'PY'
import json,sys
P,K,REL=sys.argv[1:4]
notes=open('/verif/seeded/%s-mut%s/notes.md'%(P,K)).read()
meta={"property":P,"id":"%s-mut%s"%(P,K),"demo_location":REL,
 "needs_to_manifest":"see notes.md (written by the sub-agent that produced the change)",
 "confirmed":{"worktree":"/tmp/mut8/%s at 40d18ab (head with the fix commits)"%P,"demo_on_clean_tree":"pass","demo_with_patch":"fail","full_suite_with_patch":"pass (go test -vet=off -count=1 ./...)"},
 "detected_by":None}
json.dump(meta,open('/verif/seeded/%s-mut%s/meta.json'%(P,K),'w'),indent=1)
PY
  echo "  stored in $D"
else
  echo "  NOT confirmed; see /tmp/confirm8.$P.$K.*.log"
fi
