#!/usr/bin/env python3
"""splitdiff.py <diff> <outprefix>: write one patch per hunk (single-file diffs)."""
import re, sys
d = open(sys.argv[1]).read()
i = d.index('@@')
head = d[:i]
parts = [p for p in re.split(r'(?m)^(?=@@ )', d[i:]) if p.strip()]
for k, p in enumerate(parts):
    open('%s%d.diff' % (sys.argv[2], k), 'w').write(head + p)
    print(k, p.split('\n')[0])
