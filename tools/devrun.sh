#!/bin/bash
# development aid: run a check, then summarise the replay files it wrote
export GOFLAGS=-mod=mod GOPROXY=off GOSUMDB=off GOTOOLCHAIN=local
P=$1; T=${2:-quick}
python3 - "$P" <<'PY'
import glob,os,sys
for f in glob.glob('/verif/replays/%s/*'%sys.argv[1]): os.remove(f)
PY
cd /verif && VERIF_EVIDENCE_DIR=/tmp/ev ./run.sh $P $T 2>&1 | grep -av "^VIOLATION\|^KNOWN" | cut -c1-200 | head -6
python3 - "$P" <<'PY'
import json,glob,sys
for f in sorted(glob.glob('/verif/replays/%s/*.json'%sys.argv[1])):
    r=json.load(open(f)); c=r.get('case',{})
    fl=r.get('failure') or {}
    print('--',f.split('/')[-1], c.get('fmt',''), c.get('m',''), '| region=%s symptom=%s'%(fl.get('region'),fl.get('symptom')))
    print('   ',(fl.get('msg') or '')[:400].replace('\n',' '))
PY
